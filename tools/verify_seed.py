#!/usr/bin/env python3
"""Independently confirm a seeded change produced by a sub-agent, then keep it under /verif/seeded/.
   tools/verify_seed.py Cxx A|B
Checks, in a scratch worktree of /repo's HEAD (removed afterwards): the patch applies and builds;
the repository's own suite still passes with it (30 tests); the demonstration passes without the
patch and fails (or times out) with it."""
import json, os, re, shutil, subprocess, sys
pid, x = sys.argv[1], sys.argv[2]
rnd = sys.argv[3] if len(sys.argv) > 3 else ''
src = f'/tmp/mut{rnd}-{pid}/out/{x}'
name = f'{pid}-{rnd}{x}'
wt = f'/tmp/vs-{name}'
env = dict(os.environ, CARGO_NET_OFFLINE='true', CARGO_TARGET_DIR=f'{wt}/target')
def sh(cmd, cwd=wt, timeout=900):
    try:
        r = subprocess.run(cmd, cwd=cwd, env=env, capture_output=True, text=True, timeout=timeout)
        return r.returncode, (r.stdout + r.stderr)[-3000:]
    except subprocess.TimeoutExpired:
        return 124, 'TIMEOUT'
subprocess.run(['git', '-C', '/repo', 'worktree', 'remove', '--force', wt], capture_output=True)
subprocess.run(['git', '-C', '/repo', 'worktree', 'add', '--detach', wt, 'HEAD'], capture_output=True, check=True)
res = {}
try:
    demo = open(f'{src}/demo.rs').read()
    m = re.search(r'features:\s*([A-Za-z0-9_,\- ]+)', demo.split('\n')[0] + '\n' + demo.split('\n')[1] if '\n' in demo else demo)
    feats = (m.group(1).strip().replace(' ', '') if m else '').strip(',')
    if feats.lower() in ('none', 'default'): feats = ''
    test_cmd = ['cargo', 'test', '--offline', '--test', 'seeded_demo'] + (['--features', feats] if feats else [])
    rc, out = sh(['git', 'apply', f'{src}/patch.diff'])
    res['patch_applies'] = rc == 0
    rc0, out0 = 1, ''
    if rc == 0:
        rcs, outs = subprocess.run(['cargo', 'test', '--workspace', '--no-fail-fast', '--offline'], cwd=wt, env=env, capture_output=True, text=True).returncode, ''
        r2 = subprocess.run(['cargo', 'test', '--workspace', '--no-fail-fast', '--offline'], cwd=wt, env=env, capture_output=True, text=True)
        m2 = re.findall(r'test result: (\w+)\. (\d+) passed; (\d+) failed', r2.stdout + r2.stderr)
        res['own_suite_with_patch'] = 'pass (30)' if r2.returncode == 0 and any(int(a[1]) == 30 for a in m2) else f'FAIL {m2}'
        os.makedirs(f'{wt}/tests', exist_ok=True)
        shutil.copy(f'{src}/demo.rs', f'{wt}/tests/seeded_demo.rs')
        rc1, out1 = sh(test_cmd, timeout=600)
        res['demo_with_patch'] = 'pass (NOT DETECTED BY DEMO)' if rc1 == 0 else ('timeout/hang' if rc1 == 124 else f'fails rc={rc1}')
        res['demo_with_patch_tail'] = out1[-600:]
        sh(['git', 'apply', '-R', f'{src}/patch.diff'])
        rc0, out0 = sh(test_cmd)
        res['demo_without_patch'] = 'pass' if rc0 == 0 else f'FAIL rc={rc0}'
    ok = res.get('patch_applies') and res.get('demo_without_patch') == 'pass' and str(res.get('own_suite_with_patch', '')).startswith('pass') and not str(res.get('demo_with_patch', '')).startswith('pass')
    res['confirmed'] = bool(ok)
    d = f'/verif/seeded/{name}'
    if ok:
        os.makedirs(d, exist_ok=True)
        shutil.copy(f'{src}/patch.diff', d); shutil.copy(f'{src}/demo.rs', d)
        meta = json.load(open(f'{src}/meta.json'))
        meta['origin'] = 'independent sub-agent (given only the property text and a scratch worktree)'
        meta['confirmed_by_framework_author'] = {k: v for k, v in res.items() if k != 'demo_with_patch_tail'}
        meta['what_i_ran'] = f"scratch worktree of /repo HEAD; `{' '.join(test_cmd)}` without and with the patch; `cargo test --workspace --no-fail-fast --offline` with the patch"
        json.dump(meta, open(f'{d}/meta.json', 'w'), indent=1)
    print(name, json.dumps({k: v for k, v in res.items() if k != 'demo_with_patch_tail'}))
    if not ok: print(res.get('demo_with_patch_tail', '')[-400:], out0[-300:] if rc0 else '')
finally:
    subprocess.run(['git', '-C', '/repo', 'worktree', 'remove', '--force', wt], capture_output=True)
    shutil.rmtree(wt, ignore_errors=True)
