#!/bin/bash
# Run every registered quick check on the unchanged tree for the given seeds (default 0 1);
# anything but exit 0 is printed.  Run this after every change to a harness or an engine.
cd /verif
seeds=${@:-0 1}
bad=0
for s in $seeds; do
  for p in $(python3 -c "import json; print(' '.join(json.load(open('checks.json')).keys()))"); do
    out=$(VERIF_SEED=$s ./check $p quick 2>&1); rc=$?
    line=$(echo "$out" | tail -1 | cut -c1-160)
    if [ $rc -ne 0 ]; then bad=1; echo "!! seed=$s $p exit=$rc"; echo "$out" | grep -E "VIOLATION|MACHINERY|^  [a-z0-9_]+:" | head -5 | cut -c1-300; fi
    echo "seed=$s $line"
  done
done
python3-vt tools/validate.py >/dev/null && echo "manifest+evidence valid" || { echo "!! evidence/manifest invalid"; bad=1; }
exit $bad
