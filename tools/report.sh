#!/bin/bash
# tools/report.sh <dir>/<name> : re-base a patch that replaces the reload-order traversal onto /repo HEAD (3-way, theirs on conflict)
n=$1
rm -rf /var/tmp/port && git clone -q /repo /var/tmp/port && cd /var/tmp/port || exit 1
git apply --3way /verif/$n/patch.diff >/dev/null 2>&1
for f in $(git diff --name-only --diff-filter=U); do git checkout --theirs -- $f; git add $f; done
if CARGO_NET_OFFLINE=true cargo check --offline -q --features hot-reloading 2>&1 | grep -q "^error"; then echo "$n: BUILD FAILS after re-base"; exit 1; fi
git diff HEAD > /verif/$n/patch.diff; echo "$n re-based"
