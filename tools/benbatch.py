#!/usr/bin/env python3
"""Run every quick check against behaviour-preserving changes (scratch copies, /repo untouched).
   tools/benbatch.py [--match re] [--slots 4] [--props C01,C02]
For each /verif/benign/<name>/patch.diff: the repository's own suite must pass with the patch, then
all 18 quick checks are run; any exit code other than 0 is a false alarm (1) or a machinery failure (2)
of the framework on code where the properties hold.  Outcome in /verif/benign/<name>/result.json."""
import json, os as _os0
_os0.environ.setdefault('VERIF_FROM_HEAD', '1')
import json, os, subprocess, sys, glob, concurrent.futures, threading, re
slots = 4; props = [f'C{i:02d}' for i in range(1, 19)]; match = ''; scope = 'all'
for i, a in enumerate(sys.argv):
    if a == '--slots': slots = int(sys.argv[i+1])
    if a == '--props': props = sys.argv[i+1].split(',')
    if a == '--match': match = sys.argv[i+1]
    if a == '--scope': scope = sys.argv[i+1]
names = sorted(os.path.basename(os.path.dirname(p)) for p in glob.glob('/verif/benign/*/patch.diff'))
names = [n for n in names if re.search(match, n)]
free = list(range(slots)); lock = threading.Lock()
def run(name):
    with lock: slot = free.pop()
    try:
        d = f'/verif/benign/{name}'
        base = f'/var/tmp/mutrun/s{slot}'
        subprocess.run(['/verif/tools/mutrun.sh', f's{slot}', f'{d}/patch.diff'], capture_output=True, text=True)
        env = dict(os.environ, CARGO_NET_OFFLINE='true', CARGO_TARGET_DIR=f'{base}/repo-target')
        t = subprocess.run(['cargo', 'test', '--workspace', '--no-fail-fast', '--offline'], cwd=f'{base}/repo', env=env, capture_output=True, text=True)
        m = re.findall(r'test result: (\w+)\. (\d+) passed; (\d+) failed', t.stdout)
        suite_ok = t.returncode == 0 and any(int(x[1]) == 30 for x in m)
        out = {}
        my_props = props
        if scope == 'touched':
            # the properties the patch was written against + those anchored in the files it touches
            anc = {}
            for l in open('/verif/properties.jsonl'):
                pj = json.loads(l)
                for f in pj['anchors']['files']: anc.setdefault(f, set()).add(pj['id'])
            touched = re.findall(r'^\+\+\+ b/(\S+)', open(f'{d}/patch.diff').read(), re.M)
            want = set(json.load(open(f'{d}/meta.json')).get('properties', []))
            for f in touched: want |= anc.get(f, set())
            my_props = [p for p in props if p in want]
        for p in my_props:
            r = subprocess.run(['/verif/tools/mutrun.sh', f's{slot}', f'{d}/patch.diff', p], capture_output=True, text=True)
            lines = r.stdout.strip().split('\n')
            out[p] = {"exit": r.returncode, "lines": [l.strip()[:500] for l in lines if not re.match(r'C\d\d quick', l) and 'KNOWN-FINDING' not in l][:8]}
        if len(my_props) < 18 and os.path.exists(f'{d}/result.json') and scope == 'all':
            out = {**json.load(open(f'{d}/result.json')).get('checks', {}), **out}
        res = {"own_suite_passes_with_patch": suite_ok, "checked_properties": my_props, "checks": out, "alarms": [p for p, v in out.items() if v["exit"] != 0]}
        json.dump(res, open(f'{d}/result.json', 'w'), indent=1)
        print(name, 'suite_ok=%s' % suite_ok, 'alarms=%s' % res['alarms'], flush=True)
    finally:
        with lock: free.append(slot)
with concurrent.futures.ThreadPoolExecutor(slots) as ex:
    list(ex.map(run, names))
