#!/bin/bash
# Run checks against a mutated copy of /repo without touching /repo itself.
#   tools/mutrun.sh <slot> <patch.diff> <Cxx> [<Cxx> ...]     (tier from $TIER, default quick)
# A slot is a persistent scratch copy /var/tmp/mutrun/<slot>/{repo,verif} (build cache kept between
# runs; remove the directory when done).  The verif copy has its `/repo` paths rewritten.
set -u
slot=$1; patch=$2; shift 2
base=/var/tmp/mutrun/$slot
mkdir -p $base
if [ ! -d $base/repo/.git ]; then
  git clone -q /repo $base/repo
fi
git -C $base/repo fetch -q origin && git -C $base/repo checkout -q -f origin/HEAD 2>/dev/null || git -C $base/repo reset -q --hard origin/main
git -C $base/repo reset -q --hard $(git -C /repo rev-parse HEAD)
git -C $base/repo clean -q -fd
if [ "$patch" != "none" ]; then
  git -C $base/repo apply "$patch" || { echo "PATCH DOES NOT APPLY"; exit 3; }
fi
mkdir -p $base/verif
if [ "${VERIF_FROM_HEAD:-0}" = "1" ]; then
  # batch runs: the committed state of /verif, so that edits in progress never leak into a result
  rm -rf $base/verif-src; mkdir -p $base/verif-src
  git -C /verif archive HEAD | tar -x -C $base/verif-src
  rsync -rlpc --delete --exclude target --exclude evidence --exclude replays --exclude .git $base/verif-src/ $base/verif/
else
  rsync -a --delete --exclude target --exclude evidence --exclude replays --exclude .git /verif/ $base/verif/
fi
grep -rl '/repo' $base/verif/engines --include=Cargo.toml --include=build.rs --include='*.rs' | xargs -r sed -i "s#\"/repo#\"$base/repo#g; s#= \"/repo#= \"$base/repo#g"
cd $base/verif
rc=0
for p in "$@"; do
  ./check $p ${TIER:-quick} 2>&1 | grep -E "VIOLATION|KNOWN-FINDING|MACHINERY|^C[0-9]+ |^  [a-z0-9_]+:" | cut -c1-400
  r=${PIPESTATUS[0]}; [ $r -ne 0 ] && rc=$r
done
exit $rc
