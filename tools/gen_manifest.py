#!/usr/bin/env python3
"""Generate /verif/MANIFEST.json from checks.json (single source of truth for the driver)."""
import json, os
ROOT = os.path.dirname(os.path.dirname(os.path.abspath(__file__)))
table = json.load(open(os.path.join(ROOT, "checks.json")))
props = [json.loads(l) for l in open(os.path.join(ROOT, "properties.jsonl"))]
na_reasons = json.load(open(os.path.join(ROOT, "not_applicable.json"))) if os.path.exists(os.path.join(ROOT, "not_applicable.json")) else {}
checks = []
for p in props:
    pid = p["id"]
    if pid not in table:
        continue
    t = table[pid]
    engines = sorted({e["engine"] for e in t["subchecks"]})
    checks.append({
        "property_id": pid,
        "quick_cmd": f"./check {pid} quick",
        "thorough_cmd": f"./check {pid} thorough",
        "evidence_file": f"/verif/evidence/{pid}.json",
        "replay_cmd_template": "./check --replay {path}",
        "engine": "+".join(engines),
        "level_claimed": {"category": "model_checking", "text": t["level_text"], "design_ref": t["design_ref"]},
        "level_note": t["level_note"],
        "technique": t["technique"],
    })
na = [{"property_id": p["id"], "reason": na_reasons.get(p["id"], "check not built yet in this round (planned, see DESIGN.md §3)")} for p in props if p["id"] not in table]
m = {
    "version": 1,
    "setup_cmd": "./check --setup",
    "hooks": {
        "guard": "assets_manager_verif",
        "enable": "RUSTFLAGS='--cfg assets_manager_verif' (set by ./check for the seqmc engine only)",
        "baseline_off_cmd": "cd /repo && cargo test --workspace --no-fail-fast --offline",
        "source_commits": json.load(open(os.path.join(ROOT, "hooks.json")))["source_commits"] if os.path.exists(os.path.join(ROOT, "hooks.json")) else [],
        "add_only": True,
    },
    "engines": [
        {"name": "sysmc", "path": "/verif/engines/ws-sys", "serves_properties": sorted(k for k, t in table.items() if any(e["engine"] == "sysmc" for e in t["subchecks"])), "kind_free_text": "real crate + dependency shims under detsched (controlled scheduler over OS threads, preemption-bounded stateless DFS)"},
        {"name": "seqmc", "path": "/verif/engines/ws-seq", "serves_properties": sorted(k for k, t in table.items() if any(e["engine"] == "seqmc" for e in t["subchecks"])), "kind_free_text": "real crate + real dependencies: explicit-state BFS over operation histories and bounded-exhaustive inputs against reference models"},
        {"name": "seqmc2", "path": "/verif/engines/ws-seq2", "serves_properties": sorted(k for k, t in table.items() if any(e["engine"] == "seqmc2" for e in t["subchecks"])), "kind_free_text": "the seqmc map/growth checks against the crate built with real parking_lot and the std hasher"},
        {"name": "srcmc", "path": "/verif/engines/ws-src", "serves_properties": sorted(k for k, t in table.items() if any(e["engine"] == "srcmc" for e in t["subchecks"])), "kind_free_text": "bounded-exhaustive trees x source kinds (FileSystem, Zip, Tar, Embedded) against the generating tree"},
        {"name": "valmc", "path": "/verif/engines/ws-val", "serves_properties": sorted(k for k, t in table.items() if any(e["engine"] == "valmc" for e in t["subchecks"])), "kind_free_text": "bounded-exhaustive load inputs, SharedBytes/SharedString inputs and OnceInitCell outcome sequences against reference functions"},
        {"name": "kernmc", "path": "/verif/engines/ws-loom", "serves_properties": sorted(k for k, t in table.items() if any(e["engine"].startswith("kernmc") for e in t["subchecks"])), "kind_free_text": "loom 0.7.2 on the syn-rewritten source text of the lock-free kernels; one binary per kernel family (kernmc_bytes, kernmc_cell, kernmc_entry, kernmc_answers)"},
    ],
    "checks": checks,
    "not_applicable": na,
    "notes": "All checks are driven by ./check (python3); engines rebuild from /repo's working tree through cargo path dependencies. Exit 2 = machinery failure, never a verdict.",
}
json.dump(m, open(os.path.join(ROOT, "MANIFEST.json"), "w"), indent=1)
print("checks:", [c["property_id"] for c in checks], "n/a:", [x["property_id"] for x in na])
