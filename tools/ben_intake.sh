#!/bin/bash
# tools/ben_intake.sh J6 : keep an agent's behaviour-preserving patches under /verif/benign, drop its worktree
g=$1
for x in A B C; do
  if [ -f /tmp/ben$g/out/$x/patch.diff ]; then mkdir -p /verif/benign/$g-$x; cp /tmp/ben$g/out/$x/patch.diff /tmp/ben$g/out/$x/meta.json /verif/benign/$g-$x/; echo "$g-$x kept"; fi
done
git -C /repo worktree remove --force /tmp/ben$g 2>/dev/null; rm -rf /tmp/ben$g; git -C /repo worktree prune
