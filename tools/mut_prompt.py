#!/usr/bin/env python3
"""Print the prompt for a mutation-seeding sub-agent: property text only, nothing from /verif."""
import json, sys
pid = sys.argv[1]
props = {json.loads(l)["id"]: json.loads(l) for l in open("/verif/properties.jsonl")}
p = props[pid]
wt = f"/tmp/mut-{pid}"
print(f"""You are testing a verification effort from the outside. The Rust crate `assets_manager` (an asset cache with typed loading from filesystem/zip/tar/embedded sources, a sharded concurrent map and dependency-tracked hot-reloading) lives in the git repository /repo. You get ONE semantic property of that crate, below. Your job: produce TWO different, realistic code changes (call them A and B) to the crate, each of which BREAKS this property while the crate still compiles and its existing test suite still passes — the kind of subtle regression a maintainer could introduce by accident (a refactoring slip, a wrong ordering, a missing case, an off-by-one, a lock or ordering weakened, two sites that each look fine alone) — not sabotage that ordinary use would expose at once, and not a change that merely deletes the feature. Prefer changes that need something specific to manifest: a particular interleaving, a fault at a particular point, a multi-step sequence of operations, an unusual input, a particular hash order. A and B must be in different places / of different kinds.

PROPERTY {pid}: {p['title']}
Statement: {p['statement']}
Quantified over: {p['quantifier']['text']}
Files where the mechanism lives: {', '.join(p['anchors']['files'])}

Rules:
- Work ONLY in your own scratch git worktree: run `git -C /repo worktree add --detach {wt} HEAD` and do everything inside {wt} (use `CARGO_TARGET_DIR={wt}/target` and `CARGO_NET_OFFLINE=true`, `--offline` for every cargo command; there is no network; shell env vars do not persist between commands). Never modify /repo itself, never read or write anything under /verif.
- For each change X in {{A, B}}: make the edit in the worktree, confirm `cargo build --offline --all-targets` (default features) and, if your change is in feature-gated code, `cargo build --offline --features hot-reloading,utils,zip,tar,embedded` succeed, and that the existing suite passes: `cargo test --workspace --no-fail-fast --offline` (30 tests in the main crate must pass) — the change must not be caught by it. Save the change as a patch: `git -C {wt} diff > {wt}/out/X/patch.diff` (relative to HEAD, must apply with `git apply` in a clean checkout), then `git -C {wt} checkout -- .` before starting the next one.
- For each change write a demonstration {wt}/out/X/demo.rs: a self-contained Rust integration test file (to be dropped into `tests/` of the crate; say in its first comment line which cargo features it needs, e.g. `// features: hot-reloading`) that FAILS (or hangs — then give it its own timeout, or crashes) with the change applied and PASSES on the unchanged crate. Run it both ways yourself and keep the two outputs in {wt}/out/X/with_change.txt and {wt}/out/X/without_change.txt. If the failure needs a rare interleaving, make the demo deterministic enough (loops, barriers, sleeps, many iterations) that it fails at least 9 times out of 10 with the change, and say how often it failed in your runs.
- Write {wt}/out/X/meta.json: {{"property": "{pid}", "title": "<one line>", "what_changed": "<file:function and the edit>", "why_it_breaks": "<which clause of the property, observable how>", "needs_to_manifest": "<the specific interleaving / sequence / input / fault / hash order>", "existing_tests_pass": true, "demo_features": "<features>", "demo_fails_with_change": "<how, how often>", "demo_passes_without": true}}.
- When done, leave {wt} in place with `out/A` and `out/B` (clean working tree otherwise) but delete {wt}/target to save disk. Final answer: for A and B, two lines each: what you changed and what it needs to manifest; plus anything that did not work.""")
