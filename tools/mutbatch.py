#!/usr/bin/env python3
"""Run seeded mutations against the checks (scratch copies, /repo untouched).
   tools/mutbatch.py [name-prefix] [--props C05,C06] [--slots 4]
For each /verif/seeded/<name>/patch.diff: the repository's own suite must still pass with the
patch; then every check listed in meta.json (property + also_relevant) is run; the outcome is
stored in /verif/seeded/<name>/result.json."""
import json, os as _os0
_os0.environ.setdefault('VERIF_FROM_HEAD', '1')
import json, os, subprocess, sys, glob, concurrent.futures, threading, re
prefix = sys.argv[1] if len(sys.argv) > 1 and not sys.argv[1].startswith('--') else ''
slots = 4
props_override = None
for i, a in enumerate(sys.argv):
    if a == '--slots': slots = int(sys.argv[i+1])
    if a == '--props': props_override = sys.argv[i+1].split(',')
names = sorted(os.path.basename(os.path.dirname(p)) for p in glob.glob('/verif/seeded/*/patch.diff'))
names = [n for n in names if n.startswith(prefix)]
for i, a in enumerate(sys.argv):
    if a == '--match': names = [n for n in names if re.search(sys.argv[i+1], n)]
base0 = 0
for i, a in enumerate(sys.argv):
    if a == '--slot-base': base0 = int(sys.argv[i+1])
free = list(range(base0, base0 + slots)); lock = threading.Lock()
def run(name):
    with lock: slot = free.pop()
    try:
        d = f'/verif/seeded/{name}'
        meta = json.load(open(f'{d}/meta.json'))
        props = props_override or [meta['property']] + meta.get('also_relevant', [])
        base = f'/var/tmp/mutrun/s{slot}'
        # 1. own suite with the patch (in the slot's repo copy, prepared by mutrun with no checks)
        subprocess.run(['/verif/tools/mutrun.sh', f's{slot}', f'{d}/patch.diff'], capture_output=True, text=True)
        env = dict(os.environ, CARGO_NET_OFFLINE='true', CARGO_TARGET_DIR=f'{base}/repo-target')
        t = subprocess.run(['cargo', 'test', '--workspace', '--no-fail-fast', '--offline'], cwd=f'{base}/repo', env=env, capture_output=True, text=True)
        m = re.findall(r'test result: (\w+)\. (\d+) passed; (\d+) failed', t.stdout)
        suite_ok = t.returncode == 0 and any(int(x[1]) == 30 for x in m)
        # 2. the checks
        out = {}
        for p in props:
            r = subprocess.run(['/verif/tools/mutrun.sh', f's{slot}', f'{d}/patch.diff', p], capture_output=True, text=True)
            lines = r.stdout.strip().split('\n')
            out[p] = {"exit": r.returncode, "violations": [l.strip()[:300] for l in lines if re.match(r'\s+\S+:', l) or 'MACHINERY' in l][:6]}
        if props_override and os.path.exists(f'{d}/result.json'):
            # a partial re-run: keep the recorded outcome of the checks that were not re-run
            old = json.load(open(f'{d}/result.json')).get('checks', {})
            out = {**old, **out}
        res = {"own_suite_passes_with_patch": suite_ok, "suite_summary": m[:3], "checks": out, "caught_by": [p for p, v in out.items() if v["exit"] == 1]}
        json.dump(res, open(f'{d}/result.json', 'w'), indent=1)
        print(name, 'suite_ok=%s' % suite_ok, {p: v["exit"] for p, v in out.items()}, flush=True)
    finally:
        with lock: free.append(slot)
with concurrent.futures.ThreadPoolExecutor(slots) as ex:
    list(ex.map(run, names))
