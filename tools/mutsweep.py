#!/usr/bin/env python3
"""Systematic (operator-based) mutation sweep: how many small, test-surviving code changes do the
registered quick checks report?  Complements the hand-made changes under /verif/seeded.

  tools/mutsweep.py gen                      enumerate mutants            -> /var/tmp/mutsweep/mutants.json
  tools/mutsweep.py triage [--slots N]       compile + the repo's own suite -> status nocompile / suite / survivor
  tools/mutsweep.py run [--slots N] [--slot-base B] [--match re]
                                             run the checks of the properties anchored in the mutated file
  tools/mutsweep.py report                   summary -> /verif/seeded/sweep/summary.json (+ survivors list)

Everything happens in scratch copies (/var/tmp/mutsweep, /var/tmp/mutrun); /repo is never patched."""
import json, os as _os0
_os0.environ.setdefault('VERIF_FROM_HEAD', '1')
import json, os, re, subprocess, sys, concurrent.futures, threading, hashlib
W = '/var/tmp/mutsweep'
FILES = ['src/anycache.rs', 'src/asset.rs', 'src/cache.rs', 'src/dirs.rs', 'src/entry.rs', 'src/error.rs', 'src/key.rs',
         'src/local_cache.rs', 'src/hot_reloading/dependencies.rs', 'src/hot_reloading/mod.rs', 'src/hot_reloading/paths.rs',
         'src/hot_reloading/records.rs', 'src/hot_reloading/watcher.rs', 'src/loader/mod.rs', 'src/source/embedded.rs',
         'src/source/filesystem.rs', 'src/source/mod.rs', 'src/source/tar.rs', 'src/source/zip.rs', 'src/utils/bytes.rs',
         'src/utils/cell.rs', 'src/utils/private.rs', 'src/utils/string.rs']
ALLF = 'hot-reloading,utils,zip,zip-deflate,tar,embedded,serde'
def arg(name, default=None):
    for i, a in enumerate(sys.argv):
        if a == name: return sys.argv[i + 1]
    return default
def anchors():
    m = {}
    for l in open('/verif/properties.jsonl'):
        p = json.loads(l)
        for f in p['anchors']['files']: m.setdefault(f, []).append(p['id'])
    return m
SWAPS = [(' == ', ' != '), (' != ', ' == '), (' < ', ' <= '), (' <= ', ' < '), (' > ', ' >= '), (' >= ', ' > '),
         (' && ', ' || '), (' || ', ' && '), (' + 1', ' + 2'), (' - 1', ' - 0'), ('.rev()', ''), ('..=', '..'),
         ('.write()', '.read()'), ('fetch_max', 'fetch_min'), ('fetch_add', 'fetch_sub'), ('fetch_sub(1', 'fetch_sub(2'),
         ('.min(', '.max('), ('.max(', '.min('), ('is_some()', 'is_none()'), ('is_none()', 'is_some()'),
         ('is_ok()', 'is_err()'), ('is_err()', 'is_ok()'), ('is_empty()', 'len() == 1'), ('.first()', '.last()'), ('.last()', '.first()'),
         ('or_insert(', 'or_insert_with(|| '), ('.pop()', '.first().cloned()'), ('AcqRel', 'Relaxed'), ('Ordering::Release', 'Ordering::Relaxed'),
         ('Ordering::Acquire', 'Ordering::Relaxed'), ('SeqCst', 'Relaxed'), ('break', 'continue'), ('continue', 'break'),
         ('.skip(1)', ''), ('.peekable()', '.skip(1).peekable()'), ('strip_prefix', 'strip_suffix'), ('.ok()?', '.ok().or(None)?')]
def gen():
    os.makedirs(W, exist_ok=True)
    muts = []
    for f in FILES:
        lines = open('/repo/' + f).read().split('\n')
        in_test = False; depth_doc = False
        for i, l in enumerate(lines):
            s = l.strip()
            if s.startswith('#[cfg(test)]'): in_test = True
            if in_test: continue
            if not s or s.startswith('//') or s.startswith('#[') or s.startswith('use ') or s.startswith('pub use') or s.startswith('///'): continue
            if any(x in s for x in ('log::', 'write!(', 'f.write', 'debug_struct', 'fmt::', 'f.debug', 'unreachable', 'debug_assert', 'expect(', 'panic!(')): continue
            code = l.split('//')[0]
            cands = []
            for a, b in SWAPS:
                for m in re.finditer(re.escape(a), code):
                    if a in (' < ', ' > ') and re.search(r'(fn |impl|struct|where|->|: |::<)', code): continue
                    cands.append((a.strip() + '->' + (b.strip() or 'del'), code[:m.start()] + b + code[m.end():] + l[len(code):]))
            for a, b in (('true', 'false'), ('false', 'true')):
                for m in re.finditer(r'\b' + a + r'\b', code):
                    if 'const ' in code: continue
                    cands.append((a + '->' + b, code[:m.start()] + b + code[m.end():]))
            m = re.match(r'^(\s*)(\} else )?if (?!let )(.*) \{\s*$', code)
            if m: cands.append(('negate-if', f'{m.group(1)}{m.group(2) or ""}if !({m.group(3)}) {{'))
            # statement deletion: a single-line call statement
            if re.match(r'^\s*(self|[a-z_][a-z0-9_]*)(\.[a-z_][A-Za-z0-9_]*(::<[^>]*>)?(\([^;]*\))?)+\s*;\s*$', code) and '(' in code and not s.startswith('return') and ' = ' not in code:
                cands.append(('del-stmt', re.match(r'^\s*', code).group(0) + '();' if False else ''))
            if re.match(r'^\s*[a-z_][a-z0-9_:]*(::<[^>]*>)?\([^;]*\)\??;\s*$', code) and not s.startswith('return'):
                cands.append(('del-call', ''))
            if re.match(r'^\s*(self|[a-z_][a-z0-9_]*)(\.[a-z_][A-Za-z0-9_]*(::<[^>]*>)?(\([^;]*\))?)+\?;\s*$', code):
                cands.append(('del-stmt?', ''))
            if re.match(r'^\s*\*?(self|[a-z_][a-z0-9_]*)(\.[a-z_0-9]+)*(\[[^\]]*\])? (=|\+=|-=|\|=) [^;]*;\s*$', code) and not s.startswith('let '):
                cands.append(('del-assign', ''))
            mm = re.match(r'^(\s*)let (mut )?(_[a-z][a-z0-9_]*)( = .*;\s*)$', code)
            if mm: cands.append(('guard-dropped-at-once', f'{mm.group(1)}let _{mm.group(4)}'))
            for a, b in ((' += ', ' -= '), (' -= ', ' += '), (' == 0', ' == 1'), (' > 0', ' > 1'), ('[1..]', '[0..]'), ('(1)', '(0)'), ('Some(0)', 'Some(1)')):
                for m2 in re.finditer(re.escape(a), code):
                    cands.append((a.strip() + '->' + b.strip(), code[:m2.start()] + b + code[m2.end():]))
            for m2 in re.finditer(r'(?<![A-Za-z0-9_=!<>])!(?=[a-z(])', code):
                if 'macro' in code or re.search(r'[a-z_]!\(', code[max(0, m2.start() - 12):m2.start() + 1]): continue
                cands.append(('drop-not', code[:m2.start()] + code[m2.end():]))
            # early return dropped
            if re.match(r'^\s*return( [A-Za-z0-9_:()]+)?;\s*$', code) and i > 0 and lines[i - 1].strip().endswith('{'):
                cands.append(('del-return', ''))
            for op, new in cands:
                if new == l: continue
                muts.append({'file': f, 'line': i + 1, 'op': op, 'old': l, 'new': new})
    for k, m in enumerate(muts):
        m['id'] = 'm%04d' % k
    json.dump(muts, open(f'{W}/mutants.json', 'w'), indent=0)
    print(len(muts), 'mutants')
def load(): return json.load(open(f'{W}/mutants.json'))
def save(muts): json.dump(muts, open(f'{W}/mutants.json.tmp', 'w'), indent=0); os.replace(f'{W}/mutants.json.tmp', f'{W}/mutants.json')
def prep_slot(k):
    d = f'{W}/w{k}'
    if not os.path.isdir(d + '/.git'):
        subprocess.run(['git', 'clone', '-q', '/repo', d], check=True)
    subprocess.run(['git', '-C', d, 'fetch', '-q', 'origin'], check=True)
    subprocess.run(['git', '-C', d, 'reset', '-q', '--hard', subprocess.run(['git', '-C', '/repo', 'rev-parse', 'HEAD'], capture_output=True, text=True).stdout.strip()], check=True)
    return d
def apply(d, m):
    p = f"{d}/{m['file']}"
    lines = open(p).read().split('\n')
    assert lines[m['line'] - 1] == m['old'], (m, lines[m['line'] - 1])
    lines[m['line'] - 1] = m['new']
    open(p, 'w').write('\n'.join(lines))
def triage():
    muts = load(); slots = int(arg('--slots', '6')); lock = threading.Lock(); free = list(range(slots))
    for k in range(slots): prep_slot(k)
    os.makedirs(f'{W}/patches', exist_ok=True)
    def one(m):
        if m.get('status'): return
        with lock: k = free.pop()
        try:
            d = f'{W}/w{k}'
            subprocess.run(['git', '-C', d, 'checkout', '-q', '--', '.'], check=True)
            apply(d, m)
            env = dict(os.environ, CARGO_NET_OFFLINE='true', CARGO_TARGET_DIR=f'{W}/t{k}')
            c = subprocess.run(['cargo', 'check', '--offline', '-q', '--features', ALLF], cwd=d, env=env, capture_output=True, text=True)
            if c.returncode != 0: st = 'nocompile'
            else:
                c2 = subprocess.run(['cargo', 'check', '--offline', '-q', '--no-default-features'], cwd=d, env=env, capture_output=True, text=True)
                t = subprocess.run(['cargo', 'test', '--workspace', '--no-fail-fast', '--offline', '-q'], cwd=d, env=env, capture_output=True, text=True, timeout=900)
                r = re.findall(r'test result: (\w+)\. (\d+) passed; (\d+) failed', t.stdout)
                if c2.returncode != 0: st = 'nocompile'
                elif t.returncode == 0 and any(int(x[1]) == 30 for x in r): st = 'survivor'
                else: st = 'suite'
            if st == 'survivor':
                open(f"{W}/patches/{m['id']}.diff", 'w').write(subprocess.run(['git', '-C', d, 'diff'], capture_output=True, text=True).stdout)
            m['status'] = st
            print(m['id'], m['file'], m['line'], m['op'], st, flush=True)
        except subprocess.TimeoutExpired:
            m['status'] = 'suite'  # hangs the suite
        finally:
            subprocess.run(['git', '-C', d, 'checkout', '-q', '--', '.'])
            with lock:
                free.append(k); save(muts)
    with concurrent.futures.ThreadPoolExecutor(slots) as ex: list(ex.map(one, muts))
    save(muts)
def run():
    muts = load(); slots = int(arg('--slots', '4')); base = int(arg('--slot-base', '4')); match = arg('--match', '')
    anc = anchors(); lock = threading.Lock(); free = list(range(base, base + slots))
    todo = [m for m in muts if m.get('status') == 'survivor' and 'checks' not in m and re.search(match, m['id'] + ' ' + m['file'])]
    print(len(todo), 'to run')
    def one(m):
        with lock: k = free.pop()
        try:
            props = anc.get(m['file'], [])
            out = {}
            pref = {'src/anycache.rs': ['C05', 'C02', 'C14', 'C09', 'C10', 'C03'], 'src/entry.rs': ['C07', 'C06', 'C13', 'C18', 'C10'], 'src/cache.rs': ['C02', 'C01', 'C13'],
                    'src/utils/private.rs': ['C02', 'C04', 'C12', 'C08', 'C07'], 'src/hot_reloading/mod.rs': ['C08', 'C15', 'C05', 'C07'],
                    'src/hot_reloading/paths.rs': ['C05', 'C06', 'C07'], 'src/hot_reloading/dependencies.rs': ['C05', 'C06', 'C08'], 'src/asset.rs': ['C03', 'C05', 'C14']}.get(m['file'], [])
            props = [p for p in pref if p in props] + [p for p in props if p not in pref]
            for p in props:
                if any(v['exit'] == 1 for v in out.values()): break   # reported: enough for the sweep
                r = subprocess.run(['/verif/tools/mutrun.sh', f's{k}', f"{W}/patches/{m['id']}.diff", p], capture_output=True, text=True)
                lines = [l.strip()[:240] for l in r.stdout.split('\n') if re.match(r'\s+\S+:', l) or 'MACHINERY' in l or 'PATCH' in l][:4]
                out[p] = {'exit': r.returncode, 'lines': lines}
            m['checks'] = out
            print(m['id'], m['file'], m['line'], m['op'], {p: v['exit'] for p, v in out.items()}, flush=True)
        finally:
            with lock:
                free.append(k); save(muts)
    with concurrent.futures.ThreadPoolExecutor(slots) as ex: list(ex.map(one, todo))
def report():
    muts = load()
    st = {}
    for m in muts: st[m.get('status', 'untriaged')] = st.get(m.get('status', 'untriaged'), 0) + 1
    ran = [m for m in muts if 'checks' in m]
    killed = [m for m in ran if any(v['exit'] == 1 for v in m['checks'].values())]
    mach = [m for m in ran if not any(v['exit'] == 1 for v in m['checks'].values()) and any(v['exit'] not in (0, 1) for v in m['checks'].values())]
    alive = [m for m in ran if all(v['exit'] == 0 for v in m['checks'].values())]
    os.makedirs('/verif/seeded/sweep', exist_ok=True)
    summ = {'mutants': len(muts), 'status': st, 'checked': len(ran), 'reported_by_a_check': len(killed), 'machinery_only': len(mach), 'not_reported': len(alive),
            'not_reported_list': [{k: m[k] for k in ('id', 'file', 'line', 'op', 'old', 'new')} | {'triage': m.get('triage', '')} for m in alive + mach]}
    json.dump(summ, open('/verif/seeded/sweep/summary.json', 'w'), indent=1)
    print({k: v for k, v in summ.items() if k != 'not_reported_list'})
    for m in alive + mach: print(m['id'], m['file'], m['line'], m['op'], '|', m['old'].strip()[:90], '=>', m['new'].strip()[:90], {p: v['exit'] for p, v in m['checks'].items()})
{'gen': gen, 'triage': triage, 'run': run, 'report': report}[sys.argv[1]]()
