#!/bin/bash
# tools/intake.sh Cxx <round>: confirm both changes of an agent (verify_seed), drop the agent's worktree
p=$1; r=$2
for x in A B C; do
  if [ -f /tmp/mut$r-$p/out/$x/patch.diff ]; then python3 /verif/tools/verify_seed.py $p $x $r 2>&1 | tail -3; else echo "$p $x: no patch"; fi
done
git -C /repo worktree remove --force /tmp/mut$r-$p 2>/dev/null; rm -rf /tmp/mut$r-$p; git -C /repo worktree prune
