//! C08 — `hot_reload` always returns; each caller is released by the answer to its own request.
use crate::mem::Mem;
use crate::util::{Exp, Mk};
use assets_manager::{source::OwnedDirEntry, AssetCache};
use detsched as ds;
use serde_json::{json, Value};
use std::sync::Arc;
use vcommon::{Args, SubResult};

pub fn mk_callers(p: &Value) -> Arc<Mk> {
    let n = p["n"].as_u64().unwrap() as usize;
    let calls = p["calls"].as_u64().unwrap() as usize;
    let loader = p["loader"].as_bool().unwrap_or(false);
    let notifier = p["notifier"].as_u64().unwrap_or(0) as usize;
    let preload = p["preload"].as_bool().unwrap_or(false);
    let seed = p["seed"].as_u64().unwrap_or(0);
    let static_mode = p["static"].as_bool().unwrap_or(false);
    Arc::new(move || {
        Box::new(move || {
            ahash::stub_set_seed(seed);
            let m = Mem::new(true);
            m.put("k", "txt", "v1");
            m.put("j", "txt", "w1");
            // leaked: `enhance_hot_reloading` needs a 'static cache (the reloader is torn down with the execution)
            let cache: &'static AssetCache<Mem> = Box::leak(Box::new(AssetCache::with_source(m.clone())));
            ds::adopt(1, "reloader");
            if preload {
                cache.load::<String>("k").unwrap();
            }
            if static_mode {
                // after this, hot_reload is documented to have no effect -- it must still return
                cache.enhance_hot_reloading();
                ds::log("static-mode".into());
            }
            let mut hs = vec![];
            for i in 0..n {
                let c = cache;
                hs.push(ds::spawn(&format!("caller{i}"), move || {
                    for call in 0..calls {
                        c.hot_reload();
                        ds::log(format!("ret caller{i} call{call} ops={}", ds::ops_len()));
                    }
                }));
            }
            if loader {
                let c = cache;
                hs.push(ds::spawn("loader", move || {
                    let v = c.load::<String>("j").map(|h| h.read().clone()).unwrap_or_default();
                    let w = c.get_or_insert::<String>("z", "zz".into()).read().clone();
                    ds::log(format!("loader saw {v} {w}"));
                }));
            }
            if notifier > 0 {
                let m2 = m.clone();
                hs.push(ds::spawn("notifier", move || {
                    for i in 0..notifier {
                        m2.put("k", "txt", &format!("v{}", i + 2));
                        m2.ev(OwnedDirEntry::File("k".into(), "txt".into()));
                    }
                }));
            }
            for h in hs {
                h.join().unwrap();
            }
        })
    })
}

/// "released by its own answer", stated without reference to how answers are published: the call
/// that sent the m-th message on the request channel (FIFO) may return only after the reloader has
/// *taken* that message, and -- unless the cache is in `'static` mode, where the reloader works on its
/// own -- after the last piece of work (source read, write-lock of an entry) the reloader does before
/// it turns to its channels again.  Which mutex, condition variable or flag carries the answer is the
/// implementation's business (an earlier version of this oracle counted `notify_all` calls and
/// raised a false alarm on a mailbox implementation that notifies after releasing the mutex).
pub fn judge_callers(r: &ds::RunResult) -> Option<(String, String)> {
    // the request channel is the one the callers send on
    let ch = r.ops.iter().find_map(|(name, op)| match op {
        ds::Op::Send(c) | ds::Op::SendBounded(c) if name.starts_with("caller") => Some(*c),
        _ => None,
    })?;
    let is_static = r.log.iter().any(|l| l == "static-mode");
    // replay the channel: position of every send, and of the receive that took it
    let mut sends: Vec<(String, usize)> = vec![];
    let mut taken_at: Vec<usize> = vec![];
    for (i, (name, op)) in r.ops.iter().enumerate() {
        match op {
            ds::Op::Send(c) | ds::Op::SendBounded(c) if *c == ch => sends.push((name.clone(), i)),
            ds::Op::TryRecv(c) | ds::Op::Recv(c) if *c == ch && name == "reloader" => {
                if taken_at.len() < sends.len() {
                    taken_at.push(i);
                }
            }
            _ => {}
        }
    }
    for line in &r.log {
        if let Some(rest) = line.strip_prefix("ret ") {
            let mut it = rest.split(' ');
            let who = it.next()?;
            let call: usize = it.next()?.strip_prefix("call")?.parse().ok()?;
            let pos: usize = it.next()?.strip_prefix("ops=")?.parse().ok()?;
            // global index, among all messages on the channel, of this caller's `call`-th request
            let m = sends.iter().enumerate().filter(|(_, (nm, _))| nm == who).nth(call).map(|(gi, _)| gi)?;
            let taken = taken_at.get(m).copied();
            if taken.map(|t| t >= pos).unwrap_or(true) {
                return Some(("early-release".into(), format!("{who} call {call} (message #{m} on the request channel) returned before the reloader had taken its request")));
            }
            if is_static {
                continue;
            }
            let t = taken.unwrap();
            let mut last_work = None;
            for (i, (name, op)) in r.ops.iter().enumerate().skip(t + 1) {
                if name != "reloader" {
                    continue;
                }
                match op {
                    ds::Op::TryRecv(_) | ds::Op::Recv(_) | ds::Op::SelectReady(_) => break,
                    ds::Op::Yield("io") | ds::Op::RwWrite(_) => last_work = Some(i),
                    _ => {}
                }
            }
            if let Some(w) = last_work {
                if w >= pos {
                    return Some(("early-release".into(), format!("{who} call {call} returned while the reloader was still working on its request (operation #{w} of the log, the call returned at #{pos})")));
                }
            }
        }
    }
    None
}

pub fn callers(args: &Args) -> SubResult {
    let mut res = SubResult::new("C08", "c08_callers");
    let thorough = args.thorough();
    let bound = if thorough { 3 } else { 2 };
    res.bound = format!("callers 1..3 x calls 1..2 (+loader, +notifier, preloaded leaf; also after enhance_hot_reloading); preemption bound {bound}; both Select::ready choices; reader admission both policies");
    res.rule = "every schedule within the preemption bound of each harness configuration; distinct = distinct (config, observation log, verdict)".into();
    let mut cases: Vec<(Value, bool, usize)> = vec![];
    for n in 1..=3usize {
        for calls in 1..=2usize {
            for (loader, notifier, preload) in [(false, 0, false), (false, 1, true), (true, 0, true), (true, 1, true), (false, 2, true)] {
                let heavy = n * calls + loader as usize + notifier;
                if !thorough && heavy > 4 {
                    continue;
                }
                for wp in [false, true] {
                    if wp && !(loader || notifier > 0) {
                        continue;
                    }
                    let b = if heavy >= 5 { bound.min(2) } else { bound };
                    cases.push((json!({"n": n, "calls": calls, "loader": loader, "notifier": notifier, "preload": preload, "seed": args.seed % 4}), wp, b));
                    if !wp && (n <= 2 || thorough) {
                        cases.push((json!({"n": n, "calls": calls, "loader": loader, "notifier": notifier, "preload": preload, "seed": args.seed % 4, "static": true}), wp, b.min(2)));
                    }
                }
            }
        }
    }
    let max_exec = if thorough { 400_000 } else { 12_000 };
    let total = cases.len();
    vcommon::run_cases(args, res, total, std::time::Duration::from_secs(if thorough { 3000 } else { 300 }), |idx, res| {
        let (p, wp, b) = &cases[idx];
        let mk = mk_callers(p);
        let mut e = Exp { res, harness: "c08_callers", params: p.clone(), bound: *b, max_exec, cfg: ds::Config { writer_pref: *wp, horizon: 0, record_ops: true } };
        e.run(&*mk, &mut |r| judge_callers(r));
    })
}

// ------------------------------------------------------------------------------------------------
// crash shapes: every directed look-up graph on <= 3 nodes, self-loops and cycles included

fn shape_scripts(n: usize) -> Vec<Vec<String>> {
    // per ordered pair (i, j): 0 = none, 1 = K (get_cached look-up), 2 = J (load; forward only)
    let pairs: Vec<(usize, usize)> = (0..n).flat_map(|i| (0..n).map(move |j| (i, j))).collect();
    let arity: Vec<usize> = pairs.iter().map(|(i, j)| if i < j { 3 } else { 2 }).collect();
    let mut out = vec![];
    let mut idx = vec![0usize; pairs.len()];
    loop {
        let mut scripts = vec![String::from("L:l0"); n];
        for (p, (i, j)) in pairs.iter().enumerate() {
            match idx[p] {
                1 => scripts[*i].push_str(&format!(" K:n{}", j + 1)),
                2 => scripts[*i].push_str(&format!(" J:n{}", j + 1)),
                _ => {}
            }
        }
        out.push(scripts);
        let mut k = 0;
        loop {
            if k == idx.len() {
                return out;
            }
            idx[k] += 1;
            if idx[k] < arity[k] {
                break;
            }
            idx[k] = 0;
            k += 1;
        }
    }
}

/// A chain of `n` assets, each looking up its predecessor (loaded bottom-up, so no load ever nests
/// deeper than one level); the file of the first one is edited and notified, then `hot_reload`.
/// The reload order must be computed with work and stack that do not grow with the depth of the
/// recorded dependencies.  Runs in a child process: an overflow of the reloader's stack kills it.
pub struct Link(pub i64);
impl assets_manager::Compound for Link {
    fn load(cache: assets_manager::AnyCache, id: &assets_manager::SharedString) -> Result<Self, assets_manager::BoxedError> {
        use assets_manager::source::Source;
        let txt = {
            let src = cache.raw_source();
            let raw = src.read(id, "c")?;
            String::from_utf8(raw.as_ref().to_vec())?
        };
        let mut it = txt.split_whitespace();
        let own: i64 = it.next().unwrap_or("0").parse()?;
        let prev = match it.next() {
            Some(p) => cache.get_cached::<Link>(p).map(|h| h.read().0).unwrap_or(-1),
            None => 0,
        };
        Ok(Link(own + prev))
    }
}
pub fn chain_child(n: usize, output: &str) {
    let out: std::sync::Arc<std::sync::Mutex<Vec<String>>> = Default::default();
    let o2 = out.clone();
    let cfg = ds::Config { writer_pref: false, horizon: 50 * n + 10_000, record_ops: false };
    let r = ds::run_one(&[], &cfg, move || {
        let m = crate::mem::Mem::new(true);
        m.0.no_points.store(true, std::sync::atomic::Ordering::SeqCst);
        m.put("k0", "c", "1");
        for i in 1..n {
            m.put(&format!("k{i}"), "c", &format!("1 k{}", i - 1));
        }
        let c = assets_manager::AssetCache::with_source(m.clone());
        ds::adopt(1, "reloader");
        let mut last = 0;
        for i in 0..n {
            last = c.load::<Link>(&format!("k{i}")).map(|h| h.read().0).unwrap_or(-7);
        }
        ds::quiesce();
        m.put("k0", "c", "5");
        m.ev(assets_manager::source::OwnedDirEntry::File("k0".into(), "c".into()));
        ds::quiesce();
        c.hot_reload();
        let top = c.get_cached::<Link>(&format!("k{}", n - 1)).map(|h| h.read().0).unwrap_or(-9);
        o2.lock().unwrap().push(format!("loaded top={last} after reload top={top}"));
    });
    let mut res = SubResult::new("C08", "c08_shapes");
    res.evaluations = 1;
    res.states = r.steps as u64;
    res.transitions = n as u64;
    let log = out.lock().unwrap().clone();
    res.outcome(&("chain", n, &log));
    let replay = json!({"engine": "sysmc", "harness": "chain", "n": n});
    if let Some((k, d)) = crate::util::verdict_violation(&r) {
        res.violation(format!("c08_shapes:chain:{k}"), format!("chain of {n}: {d}"), replay.clone());
    }
    let want = format!("loaded top={} after reload top={}", n, n + 4);
    if log.first() != Some(&want) && r.verdict == ds::Verdict::Ok && r.panicked.is_none() {
        res.violation("c08_shapes:chain:c05:stale".to_string(), format!("chain of {n}: expected `{want}`, got {log:?}"), replay);
    }
    res.write(output);
}

pub fn hist_child(input: &str, output: &str) {
    let v: Value = serde_json::from_slice(&std::fs::read(input).expect("input")).expect("json");
    let cfg: crate::hr::HCfg = serde_json::from_value(v["cfg"].clone()).expect("cfg");
    let ops: Vec<String> = v["ops"].as_array().unwrap().iter().map(|x| x.as_str().unwrap().to_string()).collect();
    let r = crate::hr::run_history(&cfg, &ops, &[]);
    let mut res = SubResult::new("C08", "c08_shapes");
    res.evaluations = 1;
    res.transitions = ops.len() as u64;
    res.states = r.steps as u64;
    res.outcome(&(&r.canon, &r.obs));
    crate::hsearch::report(&mut res, "c08_shapes", &cfg, &ops, &r);
    res.write(output);
}

pub fn shapes(args: &Args) -> SubResult {
    let mut res = SubResult::new("C08", "c08_shapes");
    let mut all: Vec<Vec<String>> = vec![];
    for n in 1..=3 {
        all.extend(shape_scripts(n));
    }
    res.bound = format!("all {} look-up graphs on 1..3 scripted assets (per ordered pair: none / get_cached look-up / (forward only) load), self-loops and cycles included, plus burst shapes, two-wide ladders of 6 and 40 levels and look-up chains of 2 000 / 20 000 (thorough 60 000) assets; each loaded, then a leaf edit and a script touch are notified and hot_reload is called twice; one child process per shape", all.len());
    res.rule = "exhaustive over shapes; each executed on the real crate under detsched in a child process; oracle = child exits normally (no stack overflow / abort), no deadlock, plus the C05/C06 pass oracles; distinct = distinct (canonical state, observations)".into();
    // burst shapes: one reload pass that loads many assets which are not cached yet (an index
    // whose list grew): the reloader registers each of them with itself while it is busy
    let burst_sizes: Vec<usize> = if args.thorough() { vec![40, 300, 1500] } else { vec![40, 300] };
    for n in &burst_sizes {
        all.push(vec![format!("BURST:{n}")]);
    }
    // ladder shapes: k levels of two assets, each looking up / loading both assets of the level below
    // (2^k paths through 2k assets): the reload ordering must be linear in the graph, not in its paths
    for k in [6usize, 40] {
        all.push(vec![format!("LADDER:{k}")]);
    }
    // chain shapes: n assets, each looking its predecessor up (loaded bottom-up): the depth of the
    // recorded dependencies is not bounded, the stack of the reloader thread is
    for n in if args.thorough() { vec![2000usize, 20000, 60000] } else { vec![2000usize, 20000] } {
        all.push(vec![format!("CHAIN:{n}")]);
    }
    let total = all.len();
    let dir = std::env::temp_dir();
    vcommon::run_cases(args, res, total, std::time::Duration::from_secs(600), |idx, res| {
        let scripts = &all[idx];
        let burst: Option<usize> = scripts[0].strip_prefix("BURST:").and_then(|x| x.parse().ok());
        let ladder: Option<usize> = scripts[0].strip_prefix("LADDER:").and_then(|x| x.parse().ok());
        let mut n = scripts.len();
        let mut files = vec!["l0.l=1".to_string()];
        let mut leaves = vec!["l0".to_string()];
        if let Some(k) = burst {
            files.push("n1.n=L:l0".into());
            for i in 0..k {
                files.push(format!("a{i}.l={i}"));
                leaves.push(format!("a{i}"));
            }
        } else if let Some(k) = ladder {
            // n1, n2 = bottom level ... n(2k-1), n(2k) = top level
            for lvl in 0..k {
                for side in 0..2 {
                    let me = 2 * lvl + side + 1;
                    let script = if lvl == 0 { "L:l0".to_string() } else { format!("J:n{} J:n{}", 2 * lvl - 1, 2 * lvl) };
                    files.push(format!("n{me}.n={script}"));
                }
            }
            n = 2 * k;
        } else {
            for (i, s) in scripts.iter().enumerate() {
                files.push(format!("n{}.n={s}", i + 1));
            }
        }
        let cfg = crate::hr::HCfg {
            ctor: "hot".into(),
            seed: (idx as u64 % 2) * 5,
            with_other: false,
            leaves: if burst.is_some() { vec!["l0".into(), "a0".into(), "a1".into()] } else { leaves.clone() },
            nodes: (1..=n).map(|i| format!("n{i}")).collect(),
            dirs: vec![],
            files,
            check_c05: true,
            check_c06: true,
            check_c10: false,
            check_ledger: burst.is_none(),
            check_presence: false,
        };
        let mut ops: Vec<String> = if ladder.is_some() { vec![format!("load N n{}", n - 1), format!("load N n{n}")] } else { (1..=n).map(|i| format!("load N n{i}")).collect() };
        if let Some(k) = burst {
            let script: Vec<String> = (0..k).map(|i| format!("L:a{i}")).collect();
            ops.push(format!("put n1.n {}", script.join(" ")));
            ops.extend(["ev F:n1.n", "hr", "put a0.l 77", "ev F:a0.l", "hr"].iter().map(|s| s.to_string()));
        } else {
            ops.extend(["put l0.l 11", "ev F:l0.l", "hr", "ev F:n1.n", "hr"].iter().map(|s| s.to_string()));
        }
        let inp = dir.join(format!("shape-{}-{idx}.in.json", std::process::id()));
        let outp = dir.join(format!("shape-{}-{idx}.out.json", std::process::id()));
        let chain: Option<usize> = scripts[0].strip_prefix("CHAIN:").and_then(|x| x.parse().ok());
        let (st, replay) = if let Some(k) = chain {
            (vcommon::child_status(&["--chain-child".into(), k.to_string(), outp.display().to_string()], std::time::Duration::from_secs(300)), json!({"engine": "sysmc", "harness": "chain", "n": k}))
        } else {
            std::fs::write(&inp, serde_json::to_vec(&json!({"cfg": cfg, "ops": ops})).unwrap()).unwrap();
            (
                vcommon::child_status(&["--hist-child".into(), inp.display().to_string(), outp.display().to_string()], std::time::Duration::from_secs(60)),
                json!({"engine": "sysmc", "harness": "history", "params": {"cfg": cfg, "ops": ops}, "choices": []}),
            )
        };
        match st {
            Ok(s) if s.success() => {
                let part: SubResult = serde_json::from_slice(&std::fs::read(&outp).unwrap()).unwrap();
                let r = res.cur_rank;
                res.merge(part);
                res.cur_rank = r;
            }
            Ok(s) => {
                res.evaluations += 1;
                use std::os::unix::process::ExitStatusExt;
                let how = match s.signal() {
                    Some(sig) => format!("signal{sig}"),
                    None => format!("exit{}", s.code().unwrap_or(-1)),
                };
                if s.signal() == Some(9) {
                    // SIGKILL comes from outside the process (the kernel's out-of-memory killer on an
                    // exhausted machine, an outer limit): not an observation about the code under test
                    eprintln!("MACHINERY: the child process of shape {scripts:?} was killed from outside (SIGKILL)");
                    std::process::exit(2);
                }
                if s.code() == Some(2) {
                    // the child's own machinery gave up (e.g. the code under test blocks in a primitive the
                    // scheduler does not own): no verdict for this shape, and none is invented
                    eprintln!("MACHINERY: the child process of shape {scripts:?} ended with a machinery failure (exit 2)");
                    std::process::exit(2);
                }
                if s.code() == Some(ds::EXIT_CPU_BURNT) {
                    // the scheduler's watchdog: 45 s of CPU time were burnt without reaching a scheduling point
                    res.violation("c08_shapes:no-progress".to_string(), format!("a thread computed for more than 45 s without reaching any synchronisation or I/O operation while hot-reloading the look-up graph {scripts:?} (unbounded work)"), replay);
                } else {
                    res.violation(format!("c08_shapes:crash[{how}]"), format!("the process died ({s}) while hot-reloading the look-up graph {scripts:?}"), replay);
                }
            }
            Err(e) => {
                res.evaluations += 1;
                res.violation(format!("c08_shapes:hang[{e}]"), format!("child did not finish ({e}) for the look-up graph {scripts:?}"), replay);
            }
        }
        let _ = std::fs::remove_file(&inp);
        let _ = std::fs::remove_file(&outp);
        if res.samples.len() < 2 {
            res.sample(json!({"scripts": scripts, "history": ops}));
        }
    })
}
