//! C08 — `hot_reload` always returns; each caller is released by the answer to its own request.
use crate::mem::Mem;
use crate::util::{Exp, Mk};
use assets_manager::{source::OwnedDirEntry, AssetCache};
use detsched as ds;
use serde_json::{json, Value};
use std::sync::Arc;
use vcommon::{Args, SubResult};

pub fn mk_callers(p: &Value) -> Arc<Mk> {
    let n = p["n"].as_u64().unwrap() as usize;
    let calls = p["calls"].as_u64().unwrap() as usize;
    let loader = p["loader"].as_bool().unwrap_or(false);
    let notifier = p["notifier"].as_u64().unwrap_or(0) as usize;
    let preload = p["preload"].as_bool().unwrap_or(false);
    let seed = p["seed"].as_u64().unwrap_or(0);
    Arc::new(move || {
        Box::new(move || {
            ahash::stub_set_seed(seed);
            let m = Mem::new(true);
            m.put("k", "txt", "v1");
            m.put("j", "txt", "w1");
            let cache = Arc::new(AssetCache::with_source(m.clone()));
            ds::adopt(1, "reloader");
            if preload {
                cache.load::<String>("k").unwrap();
            }
            let mut hs = vec![];
            for i in 0..n {
                let c = cache.clone();
                hs.push(ds::spawn(&format!("caller{i}"), move || {
                    for call in 0..calls {
                        c.hot_reload();
                        ds::log(format!("ret caller{i} call{call} ops={}", ds::ops_len()));
                    }
                }));
            }
            if loader {
                let c = cache.clone();
                hs.push(ds::spawn("loader", move || {
                    let v = c.load::<String>("j").map(|h| h.read().clone()).unwrap_or_default();
                    let w = c.get_or_insert::<String>("z", "zz".into()).read().clone();
                    ds::log(format!("loader saw {v} {w}"));
                }));
            }
            if notifier > 0 {
                let m2 = m.clone();
                hs.push(ds::spawn("notifier", move || {
                    for i in 0..notifier {
                        m2.put("k", "txt", &format!("v{}", i + 2));
                        m2.ev(OwnedDirEntry::File("k".into(), "txt".into()));
                    }
                }));
            }
            for h in hs {
                h.join().unwrap();
            }
        })
    })
}

/// "released by its own answer": the call that issued the k-th request (FIFO channel) may only
/// return after the reloader has published at least k+1 answers.
pub fn judge_callers(r: &ds::RunResult) -> Option<(String, String)> {
    let mut req_pos: Vec<(String, usize)> = vec![]; // (caller name, index in ops) in order
    let mut notif_pos: Vec<usize> = vec![];
    for (i, (name, op)) in r.ops.iter().enumerate() {
        match op {
            ds::Op::Send(_) if name.starts_with("caller") => req_pos.push((name.clone(), i)),
            ds::Op::CondNotifyAll(_) if name == "reloader" => notif_pos.push(i),
            _ => {}
        }
    }
    for line in &r.log {
        if let Some(rest) = line.strip_prefix("ret ") {
            let mut it = rest.split(' ');
            let who = it.next()?;
            let call: usize = it.next()?.strip_prefix("call")?.parse().ok()?;
            let pos: usize = it.next()?.strip_prefix("ops=")?.parse().ok()?;
            // global index of this caller's `call`-th request
            let mut seen = 0;
            let mut k = None;
            for (gi, (nm, _)) in req_pos.iter().enumerate() {
                if nm == who {
                    if seen == call {
                        k = Some(gi);
                        break;
                    }
                    seen += 1;
                }
            }
            let k = k?;
            let answers_before = notif_pos.iter().filter(|p| **p < pos).count();
            if answers_before < k + 1 {
                return Some(("early-release".into(), format!("{who} call {call} (request #{k}) returned after only {answers_before} answers were published")));
            }
        }
    }
    None
}

pub fn callers(args: &Args) -> SubResult {
    let mut res = SubResult::new("C08", "c08_callers");
    let thorough = args.thorough();
    let bound = if thorough { 3 } else { 2 };
    res.bound = format!("callers 1..3 x calls 1..2 (+loader, +notifier, preloaded leaf); preemption bound {bound}; both Select::ready choices; reader admission both policies");
    res.rule = "every schedule within the preemption bound of each harness configuration; distinct = distinct (config, observation log, verdict)".into();
    let mut cases: Vec<(Value, bool, usize)> = vec![];
    for n in 1..=3usize {
        for calls in 1..=2usize {
            for (loader, notifier, preload) in [(false, 0, false), (false, 1, true), (true, 0, true), (true, 1, true), (false, 2, true)] {
                let heavy = n * calls + loader as usize + notifier;
                if !thorough && heavy > 4 {
                    continue;
                }
                for wp in [false, true] {
                    if wp && !(loader || notifier > 0) {
                        continue;
                    }
                    let b = if heavy >= 5 { bound.min(2) } else { bound };
                    cases.push((json!({"n": n, "calls": calls, "loader": loader, "notifier": notifier, "preload": preload, "seed": args.seed % 4}), wp, b));
                }
            }
        }
    }
    let max_exec = if thorough { 400_000 } else { 12_000 };
    let total = cases.len();
    vcommon::run_cases(args, res, total, std::time::Duration::from_secs(if thorough { 3000 } else { 300 }), |idx, res| {
        let (p, wp, b) = &cases[idx];
        let mk = mk_callers(p);
        let mut e = Exp { res, harness: "c08_callers", params: p.clone(), bound: *b, max_exec, cfg: ds::Config { writer_pref: *wp, horizon: 0, record_ops: true } };
        e.run(&*mk, &mut |r| judge_callers(r));
    })
}
