//! In-memory `Source` with hot-reloading support, read accounting and fault injection.
//! `read`/`read_dir` are scheduling points (I/O is where a preemption is natural).
use assets_manager::{
    hot_reloading::EventSender,
    source::{DirEntry, FileContent, OwnedDirEntry, Source},
    BoxedError,
};
use detsched as ds;
use std::collections::{BTreeMap, BTreeSet};
use std::io;
use std::sync::atomic::{AtomicBool, AtomicUsize, Ordering};
use std::sync::{Arc, Mutex};

#[derive(Clone, Copy, Debug, PartialEq, Eq)]
pub enum Fault {
    Io(io::ErrorKind),
}

#[derive(Default)]
pub struct MemInner {
    pub files: Mutex<BTreeMap<(String, String), Vec<u8>>>,
    pub dirs: Mutex<BTreeSet<String>>,
    pub tx: Mutex<Option<EventSender>>,
    /// where `configure_hot_reloading` puts the sender when it is not kept inside the source
    pub ext_tx: Mutex<Option<Arc<Mutex<Option<EventSender>>>>>,
    pub reads: AtomicUsize,
    pub read_log: Mutex<Vec<String>>,
    /// fail the k-th source access (read or read_dir, counted from 0) with this kind
    pub fault_at: Mutex<Option<(usize, io::ErrorKind)>>,
    /// one-shot: the next access of this entry ("F:id.ext" / "D:id") fails
    pub fault_entry: Mutex<Option<(String, io::ErrorKind)>>,
    /// `configure_hot_reloading` succeeds but drops the sender (a source whose watcher died)
    pub drop_sender: AtomicBool,
    /// `configure_hot_reloading` keeps the sender (a first root is already watched) and then reports
    /// a failure (a second root cannot be watched): a source that turns out not to support it
    pub fail_configure: AtomicBool,
    pub hot: AtomicBool,
    pub no_points: AtomicBool,
}

#[derive(Clone, Default)]
pub struct Mem(pub Arc<MemInner>);

pub fn parent_id(id: &str) -> Option<&str> {
    if id.is_empty() {
        None
    } else {
        Some(match id.rfind('.') {
            Some(n) => &id[..n],
            None => "",
        })
    }
}

impl Mem {
    pub fn new(hot: bool) -> Self {
        let m = Mem::default();
        m.0.hot.store(hot, Ordering::SeqCst);
        m
    }
    pub fn put(&self, id: &str, ext: &str, c: &str) {
        self.0.files.lock().unwrap().insert((id.into(), ext.into()), c.as_bytes().to_vec());
    }
    pub fn del(&self, id: &str, ext: &str) {
        self.0.files.lock().unwrap().remove(&(id.to_string(), ext.to_string()));
    }
    pub fn get(&self, id: &str, ext: &str) -> Option<String> {
        self.0.files.lock().unwrap().get(&(id.to_string(), ext.to_string())).map(|b| String::from_utf8_lossy(b).into_owned())
    }
    pub fn mkdir(&self, id: &str) {
        self.0.dirs.lock().unwrap().insert(id.into());
    }
    pub fn snapshot(&self) -> BTreeMap<(String, String), String> {
        self.0.files.lock().unwrap().iter().map(|(k, v)| (k.clone(), String::from_utf8_lossy(v).into_owned())).collect()
    }
    pub fn sender(&self) -> Option<EventSender> {
        if let Some(e) = self.0.ext_tx.lock().unwrap().as_ref() {
            return e.lock().unwrap().clone();
        }
        self.0.tx.lock().unwrap().clone()
    }
    pub fn ev(&self, e: OwnedDirEntry) -> bool {
        match self.sender() {
            Some(tx) => tx.send(e).is_ok(),
            None => false,
        }
    }
    pub fn ev_batch(&self, es: Vec<OwnedDirEntry>) -> bool {
        match self.sender() {
            Some(tx) => tx.send_multiple(es).is_ok(),
            None => false,
        }
    }
    pub fn reads(&self) -> usize {
        self.0.reads.load(Ordering::SeqCst)
    }
    pub fn set_fault(&self, f: Option<(usize, io::ErrorKind)>) {
        *self.0.fault_at.lock().unwrap() = f;
    }
    fn access(&self, what: String) -> io::Result<()> {
        if !self.0.no_points.load(Ordering::Relaxed) {
            ds::yield_now("io");
        }
        let k = self.0.reads.fetch_add(1, Ordering::SeqCst);
        self.0.read_log.lock().unwrap().push(what.clone());
        if let Some((at, kind)) = *self.0.fault_at.lock().unwrap() {
            if at == k {
                return Err(io::Error::new(kind, "injected fault"));
            }
        }
        let mut fe = self.0.fault_entry.lock().unwrap();
        if fe.as_ref().map(|(w, _)| *w == what).unwrap_or(false) {
            let (_, kind) = fe.take().unwrap();
            return Err(io::Error::new(kind, "injected fault"));
        }
        Ok(())
    }
    /// Is `id` a directory (root, explicit, or implied by a file below it)?
    pub fn is_dir(&self, id: &str) -> bool {
        if id.is_empty() || self.0.dirs.lock().unwrap().contains(id) {
            return true;
        }
        let pre = format!("{id}.");
        self.0.files.lock().unwrap().keys().any(|(fid, _)| fid.starts_with(&pre)) || self.0.dirs.lock().unwrap().iter().any(|d| d.starts_with(&pre))
    }
    /// Direct children of directory `id`: (is_dir, id, ext)
    pub fn list(&self, id: &str) -> Option<Vec<(bool, String, String)>> {
        if !self.is_dir(id) {
            return None;
        }
        let mut out: BTreeSet<(bool, String, String)> = BTreeSet::new();
        let child_of = |fid: &str| -> Option<(String, bool)> {
            // returns (direct child id, is_exact)
            let rest = if id.is_empty() { fid } else { fid.strip_prefix(id)?.strip_prefix('.')? };
            if rest.is_empty() {
                return None;
            }
            match rest.find('.') {
                None => Some((fid.to_string(), true)),
                Some(n) => {
                    let c = if id.is_empty() { rest[..n].to_string() } else { format!("{id}.{}", &rest[..n]) };
                    Some((c, false))
                }
            }
        };
        for (fid, ext) in self.0.files.lock().unwrap().keys() {
            if let Some((c, exact)) = child_of(fid) {
                if exact {
                    out.insert((false, c, ext.clone()));
                } else {
                    out.insert((true, c, String::new()));
                }
            }
        }
        for d in self.0.dirs.lock().unwrap().iter() {
            if let Some((c, _)) = child_of(d) {
                out.insert((true, c, String::new()));
            }
        }
        Some(out.into_iter().collect())
    }
}

impl Source for Mem {
    fn read(&self, id: &str, ext: &str) -> io::Result<FileContent> {
        self.access(format!("F:{id}.{ext}"))?;
        match self.0.files.lock().unwrap().get(&(id.to_string(), ext.to_string())) {
            Some(v) => Ok(FileContent::Buffer(v.clone())),
            None => Err(io::ErrorKind::NotFound.into()),
        }
    }
    fn read_dir(&self, id: &str, f: &mut dyn FnMut(DirEntry)) -> io::Result<()> {
        self.access(format!("D:{id}"))?;
        match self.list(id) {
            None => Err(io::ErrorKind::NotFound.into()),
            Some(l) => {
                for (is_dir, cid, ext) in &l {
                    if *is_dir {
                        f(DirEntry::Directory(cid))
                    } else {
                        f(DirEntry::File(cid, ext))
                    }
                }
                Ok(())
            }
        }
    }
    fn exists(&self, e: DirEntry) -> bool {
        match e {
            DirEntry::File(id, ext) => self.0.files.lock().unwrap().contains_key(&(id.to_string(), ext.to_string())),
            DirEntry::Directory(id) => self.is_dir(id),
        }
    }
    fn make_source(&self) -> Option<Box<dyn Source + Send>> {
        if self.0.hot.load(Ordering::SeqCst) {
            Some(Box::new(self.clone()))
        } else {
            None
        }
    }
    fn configure_hot_reloading(&self, ev: EventSender) -> Result<(), BoxedError> {
        if self.0.drop_sender.load(Ordering::SeqCst) {
            return Ok(());
        }
        if let Some(e) = self.0.ext_tx.lock().unwrap().as_ref() {
            *e.lock().unwrap() = Some(ev);
        } else {
            *self.0.tx.lock().unwrap() = Some(ev);
        }
        if self.0.fail_configure.load(Ordering::SeqCst) {
            return Err("second root cannot be watched".into());
        }
        Ok(())
    }
}
