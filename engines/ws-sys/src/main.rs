//! E1 `sysmc`: the real crate + dependency shims under `detsched` (see /verif/DESIGN.md §2.1).
mod c01;
mod futexhook;
mod c02s;
mod c05;
mod c05fs;
mod c07;
mod c08;
mod c09;
mod c10;
mod c13l;
mod c14;
mod c15;
mod c18s;
mod hr;
mod hsearch;
mod mem;
mod util;

use detsched as ds;
use serde_json::Value;
use std::sync::Arc;

fn harness(name: &str, p: &Value) -> (Arc<util::Mk>, Box<dyn FnMut(&ds::RunResult) -> Option<(String, String)>>) {
    match name {
        "c01_race" => (c01::mk_race(p), Box::new(c01::judge_race)),
        "c05_sched" => (c05::mk_sched(p), Box::new(c05::judge_sched)),
        "c07_window" => (c07::mk_window(p), Box::new(c07::judge_window)),
        "c08_callers" => (c08::mk_callers(p), Box::new(c08::judge_callers)),
        "c15_lifecycle" => (c15::mk_lifecycle(p), Box::new(c15::judge_lifecycle)),
        "c13_removal" => (c13l::mk_removal(p), Box::new(c13l::judge_removal)),
        _ => {
            eprintln!("unknown harness {name}");
            std::process::exit(2)
        }
    }
}

fn replay(path: &str) {
    let v: Value = serde_json::from_slice(&std::fs::read(path).expect("replay file")).expect("json");
    let v = if v.get("replay").is_some() { v["replay"].clone() } else { v };
    let name = v["harness"].as_str().unwrap();
    if name == "worker-crash" {
        std::process::exit(crash_replay(&v));
    }
    if name == "chain" {
        let out = std::env::temp_dir().join(format!("chain-replay-{}.json", std::process::id())).display().to_string();
        let n = v["n"].as_u64().unwrap_or(2000).to_string();
        match vcommon::child_status(&["--chain-child".into(), n.clone(), out.clone()], std::time::Duration::from_secs(600)) {
            Ok(s) if s.success() => {
                let part: vcommon::SubResult = serde_json::from_slice(&std::fs::read(&out).unwrap()).unwrap();
                let _ = std::fs::remove_file(&out);
                for v in &part.violations {
                    println!("REPRODUCED {}: {}", v.key, v.desc);
                }
                std::process::exit(if part.violations.is_empty() { 0 } else { 1 });
            }
            Ok(s) => {
                println!("REPRODUCED crash: a chain of {n} look-ups ended the process with {s}");
                std::process::exit(1)
            }
            Err(e) => {
                println!("REPRODUCED hang: {e}");
                std::process::exit(1)
            }
        }
    }
    if name == "c05_fs" {
        std::process::exit(c05fs::replay(&v));
    }
    if name == "history" {
        let cfg: hr::HCfg = serde_json::from_value(v["params"]["cfg"].clone()).expect("cfg");
        let ops: Vec<String> = v["params"]["ops"].as_array().unwrap().iter().map(|x| x.as_str().unwrap().to_string()).collect();
        let r = hr::run_history(&cfg, &ops, &[]);
        println!("world files: {:?}", cfg.files);
        for o in &ops {
            println!("  op  {o}");
        }
        for o in &r.obs {
            println!("  obs {o}");
        }
        println!("verdict={:?} panicked={:?}", r.verdict, r.panicked);
        let mut res = vcommon::SubResult::new("", "replay");
        hsearch::report(&mut res, "replay", &cfg, &ops, &r);
        for v in &res.violations {
            println!("REPRODUCED {}: {}", v.key, v.desc);
        }
        std::process::exit(if res.violations.is_empty() { 0 } else { 1 });
    }
    let (mk, mut judge) = harness(name, &v["params"]);
    let choices: Vec<usize> = v["choices"].as_array().map(|a| a.iter().map(|x| x.as_u64().unwrap() as usize).collect()).unwrap_or_default();
    let cfg = ds::Config { writer_pref: v["writer_pref"].as_bool().unwrap_or(false), horizon: 0, record_ops: true };
    let r = ds::run_one(&choices, &cfg, mk());
    println!("harness={name} params={}", v["params"]);
    println!("choices={choices:?} preemptions={}", r.preemptions());
    println!("decisions (arity, chosen, current-still-enabled, data): {:?}", r.trace.iter().map(|d| (d.n, d.chosen, d.cur_enabled, d.data)).collect::<Vec<_>>());
    for (n, op) in &r.ops {
        println!("  op {n}: {op:?}");
    }
    for l in &r.log {
        println!("  log {l}");
    }
    println!("verdict={:?} panicked={:?}", r.verdict, r.panicked);
    let v = util::verdict_violation(&r).or_else(|| judge(&r));
    match v {
        Some((k, d)) => {
            println!("REPRODUCED {k}: {d}");
            std::process::exit(1)
        }
        None => println!("no violation on this schedule"),
    }
}

fn main() {
    ds::silence_panics();
    let raw: Vec<String> = std::env::args().collect();
    if raw.len() == 4 && raw[1] == "--hist-child" {
        c08::hist_child(&raw[2], &raw[3]);
        return;
    }
    if raw.len() == 4 && raw[1] == "--chain-child" {
        c08::chain_child(raw[2].parse().expect("n"), &raw[3]);
        return;
    }
    if raw.len() >= 3 && raw[1] == "--explore" {
        // debugging aid: explore one harness configuration (a replay-style JSON) and print what was found
        let v: Value = serde_json::from_slice(&std::fs::read(&raw[2]).expect("file")).expect("json");
        let v = if v.get("replay").is_some() { v["replay"].clone() } else { v };
        let name = v["harness"].as_str().unwrap().to_string();
        let (mk, mut judge) = harness(&name, &v["params"]);
        let bound = raw.get(3).and_then(|b| b.parse().ok()).unwrap_or(2);
        let mut res = vcommon::SubResult::new("", "explore");
        let mut e = util::Exp { res: &mut res, harness: &name, params: v["params"].clone(), bound, max_exec: 2_000_000, cfg: ds::Config { writer_pref: v["writer_pref"].as_bool().unwrap_or(false), horizon: 0, record_ops: true } };
        let st = e.run(&*mk, &mut |r| judge(r));
        println!("{st:?}");
        for v in &res.violations {
            println!("{}: {} choices={}", v.key, v.desc, v.replay["choices"]);
        }
        println!("distinct outcomes: {}", res.distinct.len());
        return;
    }
    let args = vcommon::parse_args();
    if let Some(p) = &args.replay {
        replay(p);
        return;
    }
    let res = match args.subcheck.as_str() {
        "c01_race" => c01::run(&args),
        "c02_seeds" => c02s::run(&args),
        "c07_window" => c07::run(&args),
        "c05_sched" => c05::run_sched(&args),
        "c05_fs" => c05fs::run(&args),
        "c05_conv" | "c06_precise" => c05::run(&args, &args.subcheck.clone()),
        "c08_callers" => c08::callers(&args),
        "c08_shapes" => c08::shapes(&args),
        "c09_faults" => c09::run(&args),
        "c10_static" => c10::run(&args),
        "c13_layouts" => c13l::run(&args),
        "c14_attrib" => c14::run(&args),
        "c18_seq" => c18s::run(&args),
        "c15_lifecycle" => c15::lifecycle(&args),
        s => {
            eprintln!("unknown subcheck {s}");
            std::process::exit(2)
        }
    };
    match &args.out {
        Some(o) => res.write(o),
        None => println!("{}", serde_json::to_string_pretty(&res).unwrap()),
    }
}

/// re-run the single case during which a worker process died, in a child process
fn crash_replay(v: &serde_json::Value) -> i32 {
    let args: Vec<String> = vec![
        v["subcheck"].as_str().unwrap_or("").to_string(),
        "--tier".into(),
        v["tier"].as_str().unwrap_or("quick").to_string(),
        "--seed".into(),
        v["seed"].as_u64().unwrap_or(0).to_string(),
        "--only-case".into(),
        v["case"].as_u64().unwrap_or(0).to_string(),
        "--out".into(),
        std::env::temp_dir().join(format!("crash-replay-{}.json", std::process::id())).display().to_string(),
    ];
    match vcommon::child_status(&args, std::time::Duration::from_secs(600)) {
        Ok(s) if s.success() => {
            println!("the case completed normally");
            0
        }
        Ok(s) => {
            println!("REPRODUCED crash: the case ended with {s}");
            1
        }
        Err(e) => {
            println!("REPRODUCED hang: {e}");
            1
        }
    }
}
