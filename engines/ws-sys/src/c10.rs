//! C10 — what is declared non-reloadable is never rewritten: every history (to a depth bound, with
//! state deduplication) mixing load / load_owned / remove / take / clear / get_or_insert on the
//! same key with notified edits of the file that key maps to, for every cache constructor.
use crate::hr::HCfg;
use crate::hsearch::{mv, run_search, Search};
use vcommon::{Args, SubResult};

pub fn run(args: &Args) -> SubResult {
    let mut res = SubResult::new("C10", "c10_static");
    let thorough = args.thorough();
    let depth = if thorough { 6 } else { 5 };
    res.bound = format!("keys k (types L reloadable, LS opt-out, V storable) and j; all histories of depth <= {depth} over 21 operations with deduplication on (source, cache contents, model graph, pinned set); constructors with_source / without_hot_reloading / source without hot-reloading support / source whose configure_hot_reloading keeps the sender and then fails; hash seeds 0,5; plus an 8-operation alphabet (insert / look up from a compound / remove / take / load / notified edit) to depth {} for the static-then-reloadable histories", depth + 1);
    res.rule = "explicit-state BFS to the depth bound; a state is re-reached by replaying its history on a fresh real cache; oracle after every op: pinned values (get_or_insert, opt-out types, caches without reloader) keep value and reload id NEVER".into();
    let moves = vec![
        mv("load L k", &["load L k"]),
        mv("owned L k", &["owned L k"]),
        mv("load LS k", &["load LS k"]),
        mv("goi L k", &["goi L k 77"]),
        mv("goi LS k", &["goi LS k 78"]),
        mv("goi V k", &["goi V k 79"]),
        mv("remove L k", &["remove L k"]),
        mv("take L k", &["take L k"]),
        mv("remove LS k", &["remove LS k"]),
        mv("clear", &["clear"]),
        mv("bump5", &["put k.l 5", "ev F:k.l", "hr"]),
        mv("bump6", &["put k.l 6", "ev F:k.l", "hr"]),
        mv("load N n", &["load N n"]),
        mv("remove N n", &["remove N n"]),
        mv("bump-batch", &["put k.l 8", "evb F:k.l,F:n.n", "hr"]),
        mv("hr", &["hr"]),
        mv("load ALS k", &["load ALS k"]),
        mv("load OLS k", &["load OLS k"]),
        mv("load OOLS k", &["load OOLS k"]),
        mv("goi L k (AnyCache view)", &["agoi L k 74"]),
        mv("goi V k (AnyCache view)", &["agoi V k 75"]),
    ];
    let mut cases = vec![];
    for ctor in ["hot", "nohot", "nosrc", "failcfg"] {
        for seed in [0u64, 5] {
            if ctor != "hot" && seed != 0 {
                continue;
            }
            for nscript in ["L:k", "O:k", "S:k", "C:k"] {
                cases.push((ctor, seed, nscript));
            }
        }
    }
    // a key that is first held as an inserted (static) value, then removed and loaded from the source:
    // what looked it up while it was static must follow it once it is reloadable (small alphabet, deep)
    let small = vec![
        mv("goi L k", &["goi L k 77"]),
        mv("goi L k (AnyCache view)", &["agoi L k 74"]),
        mv("load N n", &["load N n"]),
        mv("remove L k", &["remove L k"]),
        mv("take L k", &["take L k"]),
        mv("load L k", &["load L k"]),
        mv("bump5", &["put k.l 5", "ev F:k.l", "hr"]),
        mv("bump6", &["put k.l 6", "ev F:k.l", "hr"]),
    ];
    let n_main = cases.len();
    for nscript in ["L:k", "C:k", "O:k"] {
        cases.push(("hot", 0u64, nscript));
    }
    let total = cases.len();
    vcommon::run_cases(args, res, total, std::time::Duration::from_secs(if thorough { 3000 } else { 300 }), |idx, res| {
        let (ctor, seed, nscript) = cases[idx];
        let cfg = HCfg {
            ctor: ctor.into(),
            seed,
            with_other: false,
            leaves: vec!["k".into()],
            nodes: vec!["n".into()],
            dirs: vec![],
            files: vec!["k.l=1".into(), format!("n.n={nscript}")],
            check_c05: true,
            check_c06: true,
            check_c10: true,
            check_ledger: true,
            // with these scripts the compound creates no entry besides itself, so presence of every
            // key is exactly what the top-level operations made it (a reload must not re-create a
            // removed key on its own)
            check_presence: nscript == "C:k" || nscript == "O:k",
        };
        if idx >= n_main {
            let s = Search { harness: "c10_static", cfg, init: vec![], moves: vec![small.clone()], depth: depth + 1, dedup: true, max_hist: if thorough { 400_000 } else { 40_000 } };
            run_search(res, &s);
            return;
        }
        let s = Search { harness: "c10_static", cfg, init: vec![], moves: vec![moves.clone()], depth, dedup: true, max_hist: if thorough { 400_000 } else { 30_000 } };
        run_search(res, &s);
    })
}
