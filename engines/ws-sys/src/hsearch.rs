//! Explicit-state search over operation histories of the hrworld (state = the history that reaches
//! it, re-executed on a fresh real cache; canonical form = source + cache contents + model graph).
use crate::hr::{run_history, HCfg};
use detsched as ds;
use serde_json::json;
use std::collections::HashSet;
use vcommon::{h64, SubResult};

#[derive(Clone, Debug)]
pub struct Move {
    pub name: String,
    pub ops: Vec<String>,
}
pub fn mv(name: &str, ops: &[&str]) -> Move {
    Move { name: name.into(), ops: ops.iter().map(|s| s.to_string()).collect() }
}

pub struct Search<'a> {
    pub harness: &'a str,
    pub cfg: HCfg,
    pub init: Vec<String>,
    /// alphabet per depth level (the last one is reused for deeper levels)
    pub moves: Vec<Vec<Move>>,
    pub depth: usize,
    /// stop extending a history whose canonical state was already reached
    pub dedup: bool,
    pub max_hist: usize,
}

pub fn report(res: &mut SubResult, harness: &str, cfg: &HCfg, ops: &[String], r: &crate::hr::HistResult) {
    let replay = json!({"engine": "sysmc", "harness": "history", "params": {"cfg": cfg, "ops": ops}, "choices": []});
    match &r.verdict {
        ds::Verdict::Ok => {}
        ds::Verdict::Horizon => res.cap(format!("{harness}: step horizon hit")),
        ds::Verdict::Diverged(m) => {
            eprintln!("MACHINERY: divergence {m}");
            std::process::exit(2)
        }
        v => {
            let fake = ds::RunResult { trace: vec![], verdict: v.clone(), log: vec![], ops: vec![], steps: 0, panicked: None };
            if let Some((k, d)) = crate::util::verdict_violation(&fake) {
                res.violation(format!("{harness}:{k}"), format!("{d}; history {ops:?}"), replay.clone());
            }
        }
    }
    if let Some(p) = &r.panicked {
        res.violation(format!("{harness}:panic[{}]", p.split(':').next().unwrap_or(p)), format!("harness panicked: {p}; history {ops:?}"), replay.clone());
    }
    for (k, d) in &r.viol {
        // the attribution check (C14) reuses the pass oracles of C05/C06 under its own key space
        let k = if harness.starts_with("c14") { k.replace("c06:", "c14:").replace("c05:", "c14:") } else { k.clone() };
        res.violation(format!("{harness}:{k}"), format!("{d}; history {ops:?}"), replay.clone());
    }
}

pub fn run_search(res: &mut SubResult, s: &Search) {
    let mut seen: HashSet<u64> = HashSet::new();
    let mut frontier: Vec<Vec<usize>> = vec![vec![]];
    let mut n_hist = 0usize;
    for depth in 0..=s.depth {
        let mut next: Vec<Vec<usize>> = vec![];
        for hist in &frontier {
            if s.max_hist != 0 && n_hist >= s.max_hist {
                res.cap(format!("{}: history cap {} hit at depth {depth}", s.harness, s.max_hist));
                return;
            }
            let mut ops = s.init.clone();
            for (lvl, m) in hist.iter().enumerate() {
                let alpha = &s.moves[lvl.min(s.moves.len() - 1)];
                ops.extend(alpha[*m].ops.iter().cloned());
            }
            let r = run_history(&s.cfg, &ops, &[]);
            n_hist += 1;
            res.evaluations += 1;
            res.transitions += ops.len() as u64;
            res.states += r.steps as u64;
            res.outcome(&(s.harness, &r.canon, &r.obs));
            if res.samples.len() < 2 && depth >= 1 {
                res.sample(json!({"harness": s.harness, "world": s.cfg.files, "history": ops, "observations": r.obs, "violations": r.viol}));
            }
            report(res, s.harness, &s.cfg, &ops, &r);
            let fresh = seen.insert(h64(&r.canon));
            if fresh {
                res.add_note_count("canonical_states", 1);
            }
            if depth < s.depth && (fresh || !s.dedup) && r.verdict == ds::Verdict::Ok && r.panicked.is_none() {
                let alpha = &s.moves[depth.min(s.moves.len() - 1)];
                for m in 0..alpha.len() {
                    let mut h = hist.clone();
                    h.push(m);
                    next.push(h);
                }
            }
        }
        frontier = next;
        if frontier.is_empty() {
            break;
        }
    }
}
