//! `hrworld`: the hot-reload world shared by C05/C06/C09/C10/C13/C14 — scripted assets on the real
//! crate, a drop ledger, and a pure reference evaluator (no scheduling, no graph ordering logic).
use crate::mem::Mem;
use assets_manager::{
    asset::NotHotReloaded, loader, source::OwnedDirEntry, AnyCache, Asset, AssetCache, BoxedError, Compound, SharedString, Storable,
};
use detsched as ds;
use std::collections::{BTreeMap, BTreeSet};
use std::fmt::Write as _;
use std::sync::Mutex;

// ------------------------------------------------------------------------------------------------
// drop ledger

#[derive(Default)]
pub struct Ledger {
    next: u64,
    pub live: BTreeSet<u64>,
    pub dropped: BTreeSet<u64>,
    pub double: Vec<u64>,
}
pub static LEDGER: Mutex<Ledger> = Mutex::new(Ledger { next: 0, live: BTreeSet::new(), dropped: BTreeSet::new(), double: Vec::new() });

pub struct Tracked(pub u64);
impl Tracked {
    pub fn new() -> Self {
        let mut l = LEDGER.lock().unwrap_or_else(|e| e.into_inner());
        l.next += 1;
        let id = l.next;
        l.live.insert(id);
        Tracked(id)
    }
}
impl Drop for Tracked {
    fn drop(&mut self) {
        let mut l = LEDGER.lock().unwrap_or_else(|e| e.into_inner());
        if !l.live.remove(&self.0) {
            l.double.push(self.0);
        } else {
            l.dropped.insert(self.0);
        }
    }
}
pub fn ledger_reset() {
    let mut l = LEDGER.lock().unwrap_or_else(|e| e.into_inner());
    *l = Ledger::default();
}
pub fn ledger_live() -> BTreeSet<u64> {
    LEDGER.lock().unwrap_or_else(|e| e.into_inner()).live.clone()
}
pub fn ledger_double() -> Vec<u64> {
    LEDGER.lock().unwrap_or_else(|e| e.into_inner()).double.clone()
}

// ------------------------------------------------------------------------------------------------
// asset types

pub struct L {
    pub v: i64,
    pub t: Tracked,
}
impl From<i64> for L {
    fn from(v: i64) -> L {
        L { v, t: Tracked::new() }
    }
}
impl Asset for L {
    const EXTENSION: &'static str = "l";
    type Loader = loader::LoadFrom<i64, loader::ParseLoader>;
}

/// leaf with a fall-back extension
pub struct L2 {
    pub v: i64,
    pub t: Tracked,
}
impl From<i64> for L2 {
    fn from(v: i64) -> L2 {
        L2 { v, t: Tracked::new() }
    }
}
impl Asset for L2 {
    const EXTENSIONS: &'static [&'static str] = &["m", "l"];
    type Loader = loader::LoadFrom<i64, loader::ParseLoader>;
}

/// leaf that opts out of hot-reloading
pub struct LS {
    pub v: i64,
    pub t: Tracked,
}
impl From<i64> for LS {
    fn from(v: i64) -> LS {
        LS { v, t: Tracked::new() }
    }
}
impl Asset for LS {
    const EXTENSION: &'static str = "l";
    type Loader = loader::LoadFrom<i64, loader::ParseLoader>;
    const HOT_RELOADED: bool = false;
}
impl NotHotReloaded for LS {}

/// leaf whose loader panics on the content "boom"
pub struct P {
    pub v: i64,
    pub t: Tracked,
}
pub struct PLoader;
impl loader::Loader<P> for PLoader {
    fn load(content: std::borrow::Cow<[u8]>, _: &str) -> Result<P, BoxedError> {
        let s = std::str::from_utf8(&content)?.trim().to_string();
        if s == "boom" {
            panic!("loader panic (injected)");
        }
        Ok(P { v: s.parse()?, t: Tracked::new() })
    }
}
impl Asset for P {
    const EXTENSION: &'static str = "p";
    type Loader = PLoader;
}

/// plain storable
pub struct V {
    pub v: i64,
    pub t: Tracked,
}
impl Storable for V {}

/// scripted compound
pub struct N {
    pub text: String,
    pub t: Tracked,
}

#[derive(Clone, Copy, PartialEq, Eq, Hash, PartialOrd, Ord, Debug)]
pub enum Ty {
    L,
    L2,
    LS,
    P,
    N,
    DirL,
    RecL,
    V,
    /// `Arc<LS>`: Arc of a type that opts out of hot-reloading
    ALS,
    /// `OnceInitCell<LS, i64>`: the other wrapper that forwards `HOT_RELOADED`
    OLS,
    /// `OnceInitCell<Option<LS>, i64>`: the `Option` flavour of the same wrapper
    OOLS,
}
impl Ty {
    pub fn reloadable(self) -> bool {
        !matches!(self, Ty::LS | Ty::V | Ty::ALS | Ty::OLS | Ty::OOLS)
    }
    pub fn parse(s: &str) -> Ty {
        match s {
            "L" => Ty::L,
            "L2" => Ty::L2,
            "LS" => Ty::LS,
            "P" => Ty::P,
            "N" => Ty::N,
            "DirL" => Ty::DirL,
            "RecL" => Ty::RecL,
            "V" => Ty::V,
            "ALS" => Ty::ALS,
            "OLS" => Ty::OLS,
            "OOLS" => Ty::OOLS,
            _ => panic!("bad type {s}"),
        }
    }
}
pub type Key = (Ty, String);

#[derive(Clone, PartialEq, Eq, PartialOrd, Ord, Debug, Hash)]
pub enum Dep {
    File(String, String),
    Dir(String),
    Asset(Ty, String),
}

// ------------------------------------------------------------------------------------------------
// script syntax (shared by the real `N::load` and by the reference evaluator)

#[derive(Clone, Debug, PartialEq)]
pub enum Step {
    Op(String, String),
    NoRec(Vec<Step>),
    /// `no_record` called through the AnyCache view of ANOTHER cache, one without a reloader (the
    /// recording that is suspended belongs to the load in progress on this thread, not to that cache);
    /// the inner steps go through the loading cache
    XNoRec(Vec<Step>),
    Thread(Vec<Step>),
    Other(Vec<Step>),
    /// catch_unwind around the inner steps (which may panic); always through the current cache
    Try(Vec<Step>),
}

pub fn parse_script(s: &str) -> Vec<Step> {
    fn block<'a>(it: &mut std::iter::Peekable<impl Iterator<Item = &'a str>>) -> Vec<Step> {
        let mut out = vec![];
        while let Some(t) = it.next() {
            match t {
                "}" => break,
                "norec{" => out.push(Step::NoRec(block(it))),
                "xnorec{" => out.push(Step::XNoRec(block(it))),
                "thread{" => out.push(Step::Thread(block(it))),
                "other{" => out.push(Step::Other(block(it))),
                "try{" => out.push(Step::Try(block(it))),
                _ => {
                    if let Some((k, x)) = t.split_once(':') {
                        out.push(Step::Op(k.to_string(), x.to_string()));
                    }
                }
            }
        }
        out
    }
    block(&mut s.split_whitespace().peekable())
}

thread_local! {
    /// a cache without a reloader, used only to call `no_record` through its AnyCache view
    static NOHOT: AssetCache<Mem> = AssetCache::without_hot_reloading(Mem::new(false));
}
/// pointers to the typed caches for helper-thread / other-cache steps (AnyCache is !Send)
pub static CTX: Mutex<(usize, usize)> = Mutex::new((0, 0));

fn fmt_ids<'a>(ids: impl Iterator<Item = &'a SharedString>) -> String {
    let v: Vec<&str> = ids.map(|s| s.as_str()).collect();
    format!("[{}]", v.join(","))
}

fn exec(cache: AnyCache, steps: &[Step], out: &mut String) -> Result<(), BoxedError> {
    for s in steps {
        match s {
            Step::Op(k, x) => match k.as_str() {
                "L" => {
                    let h = cache.load::<L>(x)?;
                    write!(out, " L:{x}={}", h.read().v).unwrap();
                }
                "G" => {
                    // the same load through the typed cache itself (a global `&'static AssetCache`, as
                    // programs keep one), on the loading thread: recorded like any other load
                    let ptr = CTX.lock().unwrap().0;
                    let c = unsafe { &*(ptr as *const AssetCache<Mem>) };
                    let h = c.load::<L>(x)?;
                    write!(out, " G:{x}={}", h.read().v).unwrap();
                }
                "l" => match cache.load::<L>(x) {
                    Ok(h) => write!(out, " l:{x}={}", h.read().v).unwrap(),
                    Err(_) => write!(out, " l:{x}=!").unwrap(),
                },
                "M" => {
                    let h = cache.load::<L2>(x)?;
                    write!(out, " M:{x}={}", h.read().v).unwrap();
                }
                "S" => {
                    let h = cache.load::<LS>(x)?;
                    write!(out, " S:{x}={}", h.read().v).unwrap();
                }
                "N" => {
                    let h = cache.load::<N>(x)?;
                    write!(out, " N:{x}=({})", h.read().text).unwrap();
                }
                "n" => match cache.load::<N>(x) {
                    Ok(h) => write!(out, " n:{x}=({})", h.read().text).unwrap(),
                    Err(_) => write!(out, " n:{x}=!").unwrap(),
                },
                "C" => match cache.get_cached::<L>(x) {
                    Some(h) => write!(out, " C:{x}={}", h.read().v).unwrap(),
                    None => write!(out, " C:{x}=-").unwrap(),
                },
                "K" => match cache.get_cached::<N>(x) {
                    Some(_) => write!(out, " K:{x}=+").unwrap(),
                    None => write!(out, " K:{x}=-").unwrap(),
                },
                "J" => {
                    // look-up-or-load of another node, not embedding its text (cycle shapes)
                    match cache.load::<N>(x) {
                        Ok(_) => write!(out, " J:{x}=+").unwrap(),
                        Err(_) => write!(out, " J:{x}=!").unwrap(),
                    }
                }
                "O" => {
                    let v = cache.load_owned::<L>(x)?;
                    write!(out, " O:{x}={}", v.v).unwrap();
                }
                "o" => match cache.load_owned::<L>(x) {
                    Ok(v) => write!(out, " o:{x}={}", v.v).unwrap(),
                    Err(_) => write!(out, " o:{x}=!").unwrap(),
                },
                "D" => {
                    let h = cache.load_dir::<L>(x)?;
                    write!(out, " D:{x}={}", fmt_ids(h.read().ids())).unwrap();
                }
                "R" => {
                    let h = cache.load_rec_dir::<L>(x)?;
                    write!(out, " R:{x}={}", fmt_ids(h.read().ids())).unwrap();
                }
                "F" => {
                    use assets_manager::source::Source;
                    match cache.raw_source().read(x, "r") {
                        Ok(c) => write!(out, " F:{x}={}", String::from_utf8_lossy(c.as_ref())).unwrap(),
                        Err(_) => write!(out, " F:{x}=!").unwrap(),
                    }
                }
                "Q" => {
                    use assets_manager::source::Source;
                    let mut n = 0;
                    match cache.raw_source().read_dir(x, &mut |_| n += 1) {
                        Ok(()) => write!(out, " Q:{x}={n}").unwrap(),
                        Err(_) => write!(out, " Q:{x}=!").unwrap(),
                    }
                }
                "X" => {
                    let h = cache.load::<P>(x)?;
                    write!(out, " X:{x}={}", h.read().v).unwrap();
                }
                "p" => {
                    let r = std::panic::catch_unwind(std::panic::AssertUnwindSafe(|| cache.load::<P>(x).map(|h| h.read().v)));
                    match r {
                        Ok(Ok(v)) => write!(out, " p:{x}={v}").unwrap(),
                        Ok(Err(_)) => write!(out, " p:{x}=!").unwrap(),
                        Err(e) => {
                            if e.is::<ds::Aborted>() {
                                std::panic::resume_unwind(e);
                            }
                            write!(out, " p:{x}=panic").unwrap()
                        }
                    }
                }
                _ => return Err(format!("bad step {k}:{x}").into()),
            },
            Step::NoRec(b) => {
                out.push_str(" norec{");
                cache.no_record(|| exec(cache, b, out))?;
                out.push_str(" }");
            }
            Step::XNoRec(b) => {
                out.push_str(" xnorec{");
                let nh = NOHOT.with(|c| c.as_any_cache().no_record(|| exec(cache, b, out)));
                nh?;
                out.push_str(" }");
            }
            Step::Thread(b) => {
                let b = b.clone();
                let ptr = CTX.lock().unwrap().0;
                let h = ds::spawn("helper", move || {
                    let c = unsafe { &*(ptr as *const AssetCache<Mem>) };
                    let mut s = String::new();
                    let r = exec(c.as_any_cache(), &b, &mut s).map_err(|e| e.to_string());
                    (s, r)
                });
                let (s, r) = match h.join() {
                    Ok(x) => x,
                    Err(e) => std::panic::resume_unwind(e),
                };
                write!(out, " thread{{{s} }}").unwrap();
                r?;
            }
            Step::Try(b) => {
                out.push_str(" try{");
                let mut inner = String::new();
                let r = std::panic::catch_unwind(std::panic::AssertUnwindSafe(|| exec(cache, b, &mut inner)));
                out.push_str(&inner);
                match r {
                    Ok(r) => r?,
                    Err(e) => {
                        if e.is::<ds::Aborted>() {
                            std::panic::resume_unwind(e);
                        }
                        out.push_str(" !panic");
                    }
                }
                out.push_str(" }");
            }
            Step::Other(b) => {
                let ptr = CTX.lock().unwrap().1;
                let c = unsafe { &*(ptr as *const AssetCache<Mem>) };
                out.push_str(" other{");
                exec(c.as_any_cache(), b, out)?;
                out.push_str(" }");
            }
        }
    }
    Ok(())
}

impl Compound for N {
    fn load(cache: AnyCache, id: &SharedString) -> Result<N, BoxedError> {
        use assets_manager::source::Source;
        let script = {
            let src = cache.raw_source();
            let raw = src.read(id, "n")?;
            String::from_utf8(raw.as_ref().to_vec())?
        };
        let steps = parse_script(&script);
        let mut out = String::new();
        exec(cache, &steps, &mut out)?;
        Ok(N { text: format!("{} =>{}", script.trim(), out), t: Tracked::new() })
    }
}

// ------------------------------------------------------------------------------------------------
// reference evaluator

pub type Src = BTreeMap<(String, String), String>;

pub fn src_is_dir(src: &Src, dirs: &BTreeSet<String>, id: &str) -> bool {
    if id.is_empty() || dirs.contains(id) {
        return true;
    }
    let pre = format!("{id}.");
    src.keys().any(|(f, _)| f.starts_with(&pre)) || dirs.iter().any(|d| d.starts_with(&pre))
}

/// direct children of `id`: (is_dir, id, ext), sorted
pub fn src_list(src: &Src, dirs: &BTreeSet<String>, id: &str) -> Vec<(bool, String, String)> {
    let mut out = BTreeSet::new();
    let child = |fid: &str| -> Option<(String, bool)> {
        let rest = if id.is_empty() { fid } else { fid.strip_prefix(id)?.strip_prefix('.')? };
        if rest.is_empty() {
            return None;
        }
        match rest.find('.') {
            None => Some((fid.to_string(), true)),
            Some(n) => Some((if id.is_empty() { rest[..n].to_string() } else { format!("{id}.{}", &rest[..n]) }, false)),
        }
    };
    for (fid, ext) in src.keys() {
        if let Some((c, exact)) = child(fid) {
            if exact {
                out.insert((false, c, ext.clone()));
            } else {
                out.insert((true, c, String::new()));
            }
        }
    }
    for d in dirs {
        if let Some((c, _)) = child(d) {
            out.insert((true, c, String::new()));
        }
    }
    out.into_iter().collect()
}

#[derive(Clone, Debug, PartialEq)]
pub enum EvErr {
    Err(String),
    Panic,
}

pub struct View<'a> {
    pub src: &'a Src,
    pub dirs: &'a BTreeSet<String>,
    /// value text of a cached entry of the main cache
    pub cached: &'a dyn Fn(&Key) -> Option<String>,
    pub other_src: &'a Src,
    pub other_cached: &'a dyn Fn(&Key) -> Option<String>,
    /// does the cache have a reloader (recording active at all)?
    pub hot: bool,
    /// fault plan: the k-th source access (counted over this evaluation) fails
    pub fault_at: Option<usize>,
    /// one-shot entry fault ("F:id.ext" / "D:id"): the first access of that entry fails
    pub fault_entry: Option<&'a str>,
    /// keys that `get_cached` look-ups (not loads) must treat as absent: entries that were created
    /// during the pass being judged (a look-up that found nothing "obtained" nothing, so the
    /// property does not say whether the looker sees an entry created later in the same pass)
    pub hidden: &'a BTreeSet<Key>,
    /// non-reloadable keys whose nested load is evaluated as if the entry were absent (used to
    /// compute the *possible* extra dependencies when such an entry was created during a pass:
    /// whichever load created it had its reads attributed to itself)
    pub unpin: &'a BTreeSet<Key>,
}

#[derive(Default)]
pub struct Eval {
    pub overlay: BTreeMap<Key, String>,
    pub overlay_other: BTreeMap<Key, String>,
    /// registrations with the main reloader, in order (key, deps)
    pub regs: Vec<(Key, BTreeSet<Dep>)>,
    pub accesses: usize,
    pub fault_entry_hit: bool,
}

fn parse_ids(s: &str) -> Vec<String> {
    let s = s.trim_start_matches('[').trim_end_matches(']');
    if s.is_empty() {
        vec![]
    } else {
        s.split(',').map(|x| x.to_string()).collect()
    }
}

impl Eval {
    fn access(&mut self, v: &View, other: bool, what: &str) -> Result<(), EvErr> {
        if other {
            return Ok(());
        }
        let k = self.accesses;
        self.accesses += 1;
        if v.fault_at == Some(k) {
            return Err(EvErr::Err("injected".into()));
        }
        if !self.fault_entry_hit && v.fault_entry == Some(what) {
            self.fault_entry_hit = true;
            return Err(EvErr::Err("injected".into()));
        }
        Ok(())
    }
    fn read(&mut self, v: &View, other: bool, id: &str, ext: &str) -> Result<String, EvErr> {
        self.access(v, other, &format!("F:{id}.{ext}"))?;
        let src = if other { v.other_src } else { v.src };
        src.get(&(id.to_string(), ext.to_string())).cloned().ok_or_else(|| EvErr::Err("notfound".into()))
    }

    /// What loading `key` afresh computes and which entries that load itself reads.
    pub fn fresh(&mut self, v: &View, key: &Key, other: bool) -> (Result<String, EvErr>, BTreeSet<Dep>) {
        let mut deps = BTreeSet::new();
        let (ty, id) = key;
        let parse = |s: &str| -> Result<String, EvErr> { s.trim().parse::<i64>().map(|n| n.to_string()).map_err(|_| EvErr::Err("parse".into())) };
        let r = (|| -> Result<String, EvErr> {
            match ty {
                Ty::L | Ty::LS | Ty::ALS | Ty::OLS | Ty::OOLS => {
                    deps.insert(Dep::File(id.clone(), "l".into()));
                    parse(&self.read(v, other, id, "l")?)
                }
                Ty::L2 => {
                    deps.insert(Dep::File(id.clone(), "m".into()));
                    if let Ok(s) = self.read(v, other, id, "m") {
                        if let Ok(x) = parse(&s) {
                            return Ok(x);
                        }
                    }
                    deps.insert(Dep::File(id.clone(), "l".into()));
                    parse(&self.read(v, other, id, "l")?)
                }
                Ty::P => {
                    deps.insert(Dep::File(id.clone(), "p".into()));
                    let s = self.read(v, other, id, "p")?;
                    if s.trim() == "boom" {
                        return Err(EvErr::Panic);
                    }
                    parse(&s)
                }
                Ty::DirL => {
                    deps.insert(Dep::Dir(id.clone()));
                    self.access(v, other, &format!("D:{id}"))?;
                    let src = if other { v.other_src } else { v.src };
                    if !src_is_dir(src, v.dirs, id) {
                        return Err(EvErr::Err("nodir".into()));
                    }
                    let mut ids: Vec<String> = src_list(src, v.dirs, id).into_iter().filter(|(d, _, e)| !*d && e == "l").map(|(_, i, _)| i).collect();
                    ids.sort();
                    ids.dedup();
                    Ok(format!("[{}]", ids.join(",")))
                }
                Ty::RecL => {
                    let this = self.nested(v, Ty::DirL, id, true, other, &mut deps)?;
                    let mut ids = parse_ids(&this);
                    deps.insert(Dep::Dir(id.clone()));
                    self.access(v, other, &format!("D:{id}"))?;
                    let src = if other { v.other_src } else { v.src };
                    if !src_is_dir(src, v.dirs, id) {
                        return Err(EvErr::Err("nodir".into()));
                    }
                    for (is_dir, cid, _) in src_list(src, v.dirs, id) {
                        if is_dir {
                            if let Ok(c) = self.nested(v, Ty::RecL, &cid, true, other, &mut deps) {
                                ids.extend(parse_ids(&c));
                            }
                        }
                    }
                    Ok(format!("[{}]", ids.join(",")))
                }
                Ty::N => {
                    deps.insert(Dep::File(id.clone(), "n".into()));
                    let script = self.read(v, other, id, "n")?;
                    let steps = parse_script(&script);
                    let mut out = String::new();
                    self.steps(v, &steps, true, other, &mut deps, &mut out)?;
                    Ok(format!("{} =>{}", script.trim(), out))
                }
                Ty::V => Err(EvErr::Err("storable".into())),
            }
        })();
        if !v.hot {
            deps.clear();
        }
        (r, deps)
    }

    fn cached(&self, v: &View, key: &Key, other: bool) -> Option<String> {
        if other {
            self.overlay_other.get(key).cloned().or_else(|| (v.other_cached)(key))
        } else {
            self.overlay.get(key).cloned().or_else(|| (v.cached)(key))
        }
    }

    /// `cache.load::<ty>(id)` issued from inside a load; `rec` = the outer record is active for
    /// this cache on this thread.
    fn nested(&mut self, v: &View, ty: Ty, id: &str, rec: bool, other: bool, outer: &mut BTreeSet<Dep>) -> Result<String, EvErr> {
        let key = (ty, id.to_string());
        if ty.reloadable() && rec && !other {
            outer.insert(Dep::Asset(ty, id.to_string()));
        }
        if let Some(val) = self.cached(v, &key, other) {
            if !other && !ty.reloadable() && v.unpin.contains(&key) {
                let (_, d) = self.fresh(v, &key, other);
                if rec {
                    outer.extend(d.iter().cloned());
                }
            }
            return Ok(val);
        }
        let (r, d) = self.fresh(v, &key, other);
        if !ty.reloadable() && rec && !other {
            // a non-reloadable asset has no record of its own: its reads belong to the outer load
            outer.extend(d.iter().cloned());
        }
        let val = r?;
        if other {
            self.overlay_other.insert(key, val.clone());
        } else {
            self.overlay.insert(key.clone(), val.clone());
            if ty.reloadable() && v.hot {
                self.regs.push((key, d));
            }
        }
        Ok(val)
    }

    fn owned(&mut self, v: &View, ty: Ty, id: &str, rec: bool, other: bool, outer: &mut BTreeSet<Dep>) -> Result<String, EvErr> {
        let key = (ty, id.to_string());
        if ty.reloadable() && rec && !other {
            outer.insert(Dep::Asset(ty, id.to_string()));
        }
        let (r, d) = self.fresh(v, &key, other);
        if !ty.reloadable() && rec && !other {
            outer.extend(d.iter().cloned());
        }
        let val = r?;
        if !other && ty.reloadable() && v.hot {
            self.regs.push((key, d));
        }
        Ok(val)
    }

    fn steps(&mut self, v: &View, steps: &[Step], rec: bool, other: bool, deps: &mut BTreeSet<Dep>, out: &mut String) -> Result<(), EvErr> {
        for s in steps {
            match s {
                Step::Op(k, x) => match k.as_str() {
                    "L" => {
                        let val = self.nested(v, Ty::L, x, rec, other, deps)?;
                        write!(out, " L:{x}={val}").unwrap();
                    }
                    "G" => {
                        let val = self.nested(v, Ty::L, x, rec, false, deps)?;
                        write!(out, " G:{x}={val}").unwrap();
                    }
                    "l" => match self.nested(v, Ty::L, x, rec, other, deps) {
                        Ok(val) => write!(out, " l:{x}={val}").unwrap(),
                        Err(EvErr::Panic) => return Err(EvErr::Panic),
                        Err(_) => write!(out, " l:{x}=!").unwrap(),
                    },
                    "M" => {
                        let val = self.nested(v, Ty::L2, x, rec, other, deps)?;
                        write!(out, " M:{x}={val}").unwrap();
                    }
                    "S" => {
                        let val = self.nested(v, Ty::LS, x, rec, other, deps)?;
                        write!(out, " S:{x}={val}").unwrap();
                    }
                    "N" => {
                        let val = self.nested(v, Ty::N, x, rec, other, deps)?;
                        write!(out, " N:{x}=({val})").unwrap();
                    }
                    "n" => match self.nested(v, Ty::N, x, rec, other, deps) {
                        Ok(val) => write!(out, " n:{x}=({val})").unwrap(),
                        Err(EvErr::Panic) => return Err(EvErr::Panic),
                        Err(_) => write!(out, " n:{x}=!").unwrap(),
                    },
                    "J" => match self.nested(v, Ty::N, x, rec, other, deps) {
                        Ok(_) => write!(out, " J:{x}=+").unwrap(),
                        Err(EvErr::Panic) => return Err(EvErr::Panic),
                        Err(_) => write!(out, " J:{x}=!").unwrap(),
                    },
                    "C" => {
                        if rec && !other {
                            deps.insert(Dep::Asset(Ty::L, x.clone()));
                        }
                        let k = (Ty::L, x.clone());
                        match self.cached(v, &k, other).filter(|_| other || !v.hidden.contains(&k)) {
                            Some(val) => write!(out, " C:{x}={val}").unwrap(),
                            None => write!(out, " C:{x}=-").unwrap(),
                        }
                    }
                    "K" => {
                        if rec && !other {
                            deps.insert(Dep::Asset(Ty::N, x.clone()));
                        }
                        let k = (Ty::N, x.clone());
                        match self.cached(v, &k, other).filter(|_| other || !v.hidden.contains(&k)) {
                            Some(_) => write!(out, " K:{x}=+").unwrap(),
                            None => write!(out, " K:{x}=-").unwrap(),
                        }
                    }
                    "O" => {
                        let val = self.owned(v, Ty::L, x, rec, other, deps)?;
                        write!(out, " O:{x}={val}").unwrap();
                    }
                    "o" => match self.owned(v, Ty::L, x, rec, other, deps) {
                        Ok(val) => write!(out, " o:{x}={val}").unwrap(),
                        Err(EvErr::Panic) => return Err(EvErr::Panic),
                        Err(_) => write!(out, " o:{x}=!").unwrap(),
                    },
                    "D" => {
                        let val = self.nested(v, Ty::DirL, x, rec, other, deps)?;
                        write!(out, " D:{x}={val}").unwrap();
                    }
                    "R" => {
                        let val = self.nested(v, Ty::RecL, x, rec, other, deps)?;
                        write!(out, " R:{x}={val}").unwrap();
                    }
                    "F" => {
                        if rec && !other && v.hot {
                            deps.insert(Dep::File(x.clone(), "r".into()));
                        }
                        match self.read(v, other, x, "r") {
                            Ok(c) => write!(out, " F:{x}={c}").unwrap(),
                            Err(_) => write!(out, " F:{x}=!").unwrap(),
                        }
                    }
                    "Q" => {
                        if rec && !other && v.hot {
                            deps.insert(Dep::Dir(x.clone()));
                        }
                        let src = if other { v.other_src } else { v.src };
                        // explicit (empty) directories exist in the main source only
                        let no_dirs = BTreeSet::new();
                        let dirs = if other { &no_dirs } else { v.dirs };
                        let ok = self.access(v, other, &format!("D:{x}")).is_ok() && src_is_dir(src, dirs, x);
                        if ok {
                            write!(out, " Q:{x}={}", src_list(src, dirs, x).len()).unwrap();
                        } else {
                            write!(out, " Q:{x}=!").unwrap();
                        }
                    }
                    "X" => {
                        let val = self.nested(v, Ty::P, x, rec, other, deps)?;
                        write!(out, " X:{x}={val}").unwrap();
                    }
                    "p" => match self.nested(v, Ty::P, x, rec, other, deps) {
                        Ok(val) => write!(out, " p:{x}={val}").unwrap(),
                        Err(EvErr::Panic) => write!(out, " p:{x}=panic").unwrap(),
                        Err(_) => write!(out, " p:{x}=!").unwrap(),
                    },
                    _ => return Err(EvErr::Err(format!("bad step {k}"))),
                },
                Step::NoRec(b) => {
                    out.push_str(" norec{");
                    self.steps(v, b, false, other, deps, out)?;
                    out.push_str(" }");
                }
                Step::XNoRec(b) => {
                    out.push_str(" xnorec{");
                    self.steps(v, b, false, other, deps, out)?;
                    out.push_str(" }");
                }
                Step::Thread(b) => {
                    let mut s = String::new();
                    // another thread: nothing is recorded for the loading asset; always the main cache
                    let r = self.steps(v, b, false, false, deps, &mut s);
                    if let Err(EvErr::Panic) = r {
                        // the helper thread panicked: the join re-raises it, nothing is appended
                        return Err(EvErr::Panic);
                    }
                    write!(out, " thread{{{s} }}").unwrap();
                    r?;
                }
                Step::Try(b) => {
                    out.push_str(" try{");
                    match self.steps(v, b, rec, other, deps, out) {
                        Ok(()) => {}
                        Err(EvErr::Panic) => out.push_str(" !panic"),
                        Err(e) => return Err(e),
                    }
                    out.push_str(" }");
                }
                Step::Other(b) => {
                    out.push_str(" other{");
                    self.steps(v, b, false, true, deps, out)?;
                    out.push_str(" }");
                }
            }
        }
        Ok(())
    }
}

// ------------------------------------------------------------------------------------------------
// the world: real cache + model, executed op by op with the oracle applied after every op

pub enum CacheRef {
    Owned(Box<AssetCache<Mem>>),
    Static(&'static AssetCache<Mem>),
}
impl CacheRef {
    pub fn get(&self) -> &AssetCache<Mem> {
        match self {
            CacheRef::Owned(c) => c,
            CacheRef::Static(c) => c,
        }
    }
}

#[derive(Clone, Debug, serde::Serialize, serde::Deserialize)]
pub struct HCfg {
    /// "hot" (with_source, reloader), "nohot" (without_hot_reloading), "nosrc" (source does not support it)
    pub ctor: String,
    pub seed: u64,
    pub with_other: bool,
    pub leaves: Vec<String>,
    pub nodes: Vec<String>,
    pub dirs: Vec<String>,
    /// initial files: "id.ext=content"
    pub files: Vec<String>,
    pub check_c05: bool,
    pub check_c06: bool,
    pub check_c10: bool,
    pub check_ledger: bool,
    /// compare presence of every universe key with a plain set model after every op (worlds without nested loads)
    #[serde(default)]
    pub check_presence: bool,
}

pub fn split_file(s: &str) -> (String, String) {
    // "a.b.l" -> ("a.b", "l")
    match s.rfind('.') {
        Some(n) => (s[..n].to_string(), s[n + 1..].to_string()),
        None => (s.to_string(), String::new()),
    }
}

pub struct World {
    pub cfg: HCfg,
    pub mem: Mem,
    pub cache: Option<CacheRef>,
    pub other: Option<Box<AssetCache<Mem>>>,
    pub other_mem: Mem,
    pub hot: bool,
    pub is_static: bool,
    // model
    pub graph: BTreeMap<Key, BTreeSet<Dep>>,
    pub known_entries: BTreeSet<Dep>,
    /// possible extra dependencies (see `View::unpin`): the model cannot know which of two loads
    /// created a non-reloadable entry inside a pass, so reloads reached only through these are
    /// allowed but not required
    pub maybe: BTreeMap<Key, BTreeSet<Dep>>,
    /// entry fault armed in the source and not consumed yet (model side)
    pub armed_entry: Option<String>,
    pub present: BTreeSet<Key>,
    pub pending_maybe: BTreeSet<Dep>,
    /// keys that have been present in the cache at some point of this history
    pub ever_cached: BTreeSet<Key>,
    /// per asset: entries whose notification was already pending when the asset was loaded (the change
    /// preceded the load: the load saw it, so it creates no obligation for this asset -- a reload is
    /// allowed, not required)
    pub notified_before_load: BTreeMap<Key, BTreeSet<Dep>>,
    pub pending: BTreeSet<Dep>,
    /// entries whose value must never change: key -> value text (get_or_insert, non-reloadable, no reloader)
    pub pinned: BTreeMap<Key, String>,
    pub viol: Vec<(String, String)>,
    pub obs: Vec<String>,
    pub passes: usize,
}

pub fn entry_of(d: &Dep) -> Option<OwnedDirEntry> {
    match d {
        Dep::File(i, e) => Some(OwnedDirEntry::File(i.as_str().into(), e.as_str().into())),
        Dep::Dir(i) => Some(OwnedDirEntry::Directory(i.as_str().into())),
        Dep::Asset(..) => None,
    }
}
pub fn parse_entry(s: &str) -> Dep {
    // "F:id.ext" | "D:id"
    if let Some(r) = s.strip_prefix("F:") {
        let (i, e) = split_file(r);
        Dep::File(i, e)
    } else if let Some(r) = s.strip_prefix("D:") {
        Dep::Dir(r.to_string())
    } else {
        panic!("bad entry {s}")
    }
}

/// Blank out everything inside `{ ... }` (no_record / thread / other blocks, at any nesting).
pub fn mask_unrecorded(s: &str) -> String {
    // `try{ .. }` is a recorded context: its braces are transparent
    let mut out = String::new();
    let mut stack: Vec<bool> = vec![]; // true = masking block
    let mut word = String::new();
    for c in s.chars() {
        let masked = stack.iter().any(|m| *m);
        match c {
            '{' => {
                let is_try = word == "try";
                if !masked {
                    out.push_str(if is_try { "{" } else { "{.." });
                }
                stack.push(!is_try);
                word.clear();
            }
            '}' => {
                stack.pop();
                if !stack.iter().any(|m| *m) {
                    out.push('}');
                }
                word.clear();
            }
            _ => {
                if c.is_whitespace() {
                    word.clear();
                } else {
                    word.push(c);
                }
                if !masked {
                    out.push(c);
                }
            }
        }
    }
    out
}

fn rid(dbg: String) -> u64 {
    // "ReloadId(3)" -> 3
    dbg.trim_start_matches("ReloadId(").trim_end_matches(')').parse().unwrap_or(u64::MAX)
}

fn os_tids() -> BTreeSet<u64> {
    std::fs::read_dir("/proc/self/task").map(|d| d.filter_map(|e| e.ok()?.file_name().to_str()?.parse().ok()).collect()).unwrap_or_default()
}

impl World {
    pub fn new(cfg: &HCfg) -> World {
        ahash::stub_set_seed(cfg.seed);
        ledger_reset();
        let hot_src = cfg.ctor != "nosrc";
        let mem = Mem::new(hot_src);
        for f in &cfg.files {
            let (name, content) = f.split_once('=').unwrap();
            let (id, ext) = split_file(name);
            mem.put(&id, &ext, content);
        }
        for d in &cfg.dirs {
            mem.mkdir(d);
        }
        if cfg.ctor == "failcfg" {
            mem.0.fail_configure.store(true, std::sync::atomic::Ordering::SeqCst);
        }
        let hot = cfg.ctor == "hot";
        // `thread::Builder::spawn` has returned when the constructor returns, so a reloader thread
        // shows up in /proc/self/task whether or not it has reached its first scheduling point yet
        let before = if hot { BTreeSet::new() } else { os_tids() };
        let cache = match cfg.ctor.as_str() {
            "nohot" => AssetCache::without_hot_reloading(mem.clone()),
            _ => AssetCache::with_source(mem.clone()),
        };
        if hot {
            ds::adopt(1, "reloader");
        } else {
            // a constructor that must not start a reloader: if it did, let that thread run under the
            // scheduler like any other, so that what it does to the values is judged (the model keeps
            // saying that nothing held by this cache may be rewritten)
            let extra = os_tids().difference(&before).count();
            if extra > 0 {
                ds::adopt(extra, "unexpected-reloader");
            }
        }
        let other_mem = Mem::new(true);
        other_mem.put("z0", "l", "100");
        other_mem.put("z1", "l", "101");
        let other = if cfg.with_other {
            let o = Box::new(AssetCache::with_source(other_mem.clone()));
            ds::adopt(1, "reloader-other");
            Some(o)
        } else {
            None
        };
        let mut w = World {
            cfg: cfg.clone(),
            mem,
            cache: Some(CacheRef::Owned(Box::new(cache))),
            other,
            other_mem,
            hot,
            is_static: false,
            graph: BTreeMap::new(),
            known_entries: BTreeSet::new(),
            maybe: BTreeMap::new(),
            armed_entry: None,
            present: BTreeSet::new(),
            pending_maybe: BTreeSet::new(),
            ever_cached: BTreeSet::new(),
            notified_before_load: BTreeMap::new(),
            pending: BTreeSet::new(),
            pinned: BTreeMap::new(),
            viol: vec![],
            obs: vec![],
            passes: 0,
        };
        w.set_ctx();
        w
    }

    fn set_ctx(&mut self) {
        let p = self.cache.as_ref().map(|c| c.get() as *const _ as usize).unwrap_or(0);
        let o = self.other.as_ref().map(|c| &**c as *const _ as usize).unwrap_or(0);
        *CTX.lock().unwrap() = (p, o);
    }

    pub fn cache(&self) -> &AssetCache<Mem> {
        self.cache.as_ref().unwrap().get()
    }

    pub fn universe(&self) -> Vec<Key> {
        let mut u = vec![];
        for l in &self.cfg.leaves {
            for t in [Ty::L, Ty::L2, Ty::LS, Ty::P, Ty::V, Ty::ALS, Ty::OLS, Ty::OOLS] {
                u.push((t, l.clone()));
            }
        }
        for n in &self.cfg.nodes {
            u.push((Ty::N, n.clone()));
        }
        let mut ds_: Vec<String> = self.cfg.dirs.clone();
        ds_.push(String::new());
        for d in ds_ {
            u.push((Ty::DirL, d.clone()));
            u.push((Ty::RecL, d));
        }
        u
    }

    /// (value text, reload id) of a cached entry of `c`, without recording anything
    pub fn peek_in(c: &AssetCache<Mem>, key: &Key) -> Option<(String, u64)> {
        let (ty, id) = key;
        macro_rules! pk {
            ($t:ty, $f:expr) => {
                c.get_cached::<$t>(id).map(|h| {
                    let g = h.read();
                    let f: fn(&$t) -> String = $f;
                    (f(&g), rid(format!("{:?}", h.last_reload_id())))
                })
            };
        }
        match ty {
            Ty::L => pk!(L, |x| x.v.to_string()),
            Ty::L2 => pk!(L2, |x| x.v.to_string()),
            Ty::LS => pk!(LS, |x| x.v.to_string()),
            Ty::P => pk!(P, |x| x.v.to_string()),
            Ty::V => pk!(V, |x| x.v.to_string()),
            Ty::ALS => pk!(std::sync::Arc<LS>, |x| x.v.to_string()),
            Ty::OLS => pk!(assets_manager::OnceInitCell<LS, i64>, |x| x.get_or_init(|seed| seed.v).to_string()),
            Ty::OOLS => pk!(assets_manager::OnceInitCell<Option<LS>, i64>, |x| x.get_or_init(|seed| seed.as_ref().map(|s| s.v).unwrap_or(-1)).to_string()),
            Ty::N => pk!(N, |x| x.text.clone()),
            Ty::DirL => pk!(assets_manager::Directory<L>, |x| fmt_ids(x.ids())),
            Ty::RecL => pk!(assets_manager::RecursiveDirectory<L>, |x| fmt_ids(x.ids())),
        }
    }
    pub fn peek(&self, key: &Key) -> Option<(String, u64)> {
        Self::peek_in(self.cache(), key)
    }

    pub fn snapshot(&self) -> BTreeMap<Key, (String, u64)> {
        self.universe().into_iter().filter_map(|k| self.peek(&k).map(|v| (k, v))).collect()
    }

    fn violation(&mut self, key: impl Into<String>, desc: impl Into<String>) {
        self.viol.push((key.into(), desc.into()));
    }

    /// Evaluate `f` with a model view of the current source + current real cache.
    pub fn with_view<R>(&self, fault_at: Option<usize>, f: impl FnOnce(&View) -> R) -> R {
        self.with_view_hidden(fault_at, &BTreeSet::new(), f)
    }
    pub fn with_view_hidden<R>(&self, fault_at: Option<usize>, hidden: &BTreeSet<Key>, f: impl FnOnce(&View) -> R) -> R {
        self.with_view_full(fault_at, hidden, &BTreeSet::new(), f)
    }
    pub fn with_view_full<R>(&self, fault_at: Option<usize>, hidden: &BTreeSet<Key>, unpin: &BTreeSet<Key>, f: impl FnOnce(&View) -> R) -> R {
        let src = self.mem.snapshot();
        let dirs: BTreeSet<String> = self.mem.0.dirs.lock().unwrap().clone();
        let osrc = self.other_mem.snapshot();
        let cached = |k: &Key| self.peek(k).map(|v| v.0);
        let ocached = |k: &Key| self.other.as_ref().and_then(|o| Self::peek_in(o, k)).map(|v| v.0);
        let v = View { src: &src, dirs: &dirs, cached: &cached, other_src: &osrc, other_cached: &ocached, hot: self.hot, fault_at, fault_entry: self.armed_entry.as_deref(), hidden, unpin };
        f(&v)
    }

    /// a fresh load into the cache (not a reload, not a load_owned next to a cached entry)
    fn mark_fresh_load(&mut self, key: &Key) {
        let deps = self.graph.get(key).cloned().unwrap_or_default();
        let old: BTreeSet<Dep> = deps.into_iter().filter(|d| self.pending.contains(d) || self.pending_maybe.contains(d)).collect();
        if old.is_empty() {
            self.notified_before_load.remove(key);
        } else {
            self.notified_before_load.insert(key.clone(), old);
        }
    }

    fn register(&mut self, key: Key, deps: BTreeSet<Dep>) {
        for d in &deps {
            self.known_entries.insert(d.clone());
        }
        self.maybe.remove(&key);
        self.graph.insert(key, deps);
    }

    /// model sync: every reloadable entry the real cache holds and the model does not know yet
    /// was loaded by a nested load; learn its dependency set by evaluating it now.
    fn sync(&mut self) {
        if !self.hot {
            return;
        }
        for k in self.universe() {
            if k.0.reloadable() && !self.graph.contains_key(&k) && !self.pinned.contains_key(&k) && self.peek(&k).is_some() {
                let (_, deps) = self.with_view(None, |v| Eval::default().fresh(v, &k, false));
                self.register(k.clone(), deps);
                self.mark_fresh_load(&k);
            }
        }
    }

    pub fn quiesce(&mut self) {
        if self.hot || self.other.is_some() {
            ds::quiesce();
        }
    }

    /// assets the model expects the pass to attempt to reload
    pub fn affected(&self) -> BTreeSet<Key> {
        self.affected_with(false)
    }
    /// `may` = also follow the possible extra dependencies
    pub fn affected_with(&self, may: bool) -> BTreeSet<Key> {
        let empty = BTreeSet::new();
        let all = |k: &Key, deps: &BTreeSet<Dep>| -> Vec<Dep> {
            let extra = if may { self.maybe.get(k).unwrap_or(&empty) } else { &empty };
            deps.iter().chain(extra.iter()).cloned().collect()
        };
        let mut s: BTreeSet<Key> = BTreeSet::new();
        for (k, deps) in &self.graph {
            let before = self.notified_before_load.get(k);
            if all(k, deps).iter().any(|d| (self.pending.contains(d) && (may || !before.map_or(false, |b| b.contains(d)))) || (may && self.pending_maybe.contains(d))) {
                s.insert(k.clone());
            }
        }
        // "…or an asset it obtained … is itself reloaded": a dependency through asset X is binding when X
        // is cached as a reloadable entry (it will itself be reloaded), or when X was never in the cache
        // (obtained with load_owned: its reads are effectively the dependent's).  When X was cached
        // and has since been removed / taken / cleared, or sits in the cache as a static
        // (get_or_insert) entry, X cannot be "itself reloaded": following its files is allowed
        // (today's implementation does), not required.
        let binding = |x: &Key| -> bool { may || !self.ever_cached.contains(x) || (self.peek(x).is_some() && !self.pinned.contains_key(x)) };
        loop {
            let mut add = vec![];
            for (k, deps) in &self.graph {
                if !s.contains(k) && all(k, deps).iter().any(|d| matches!(d, Dep::Asset(t, i) if s.contains(&(*t, i.clone())) && binding(&(*t, i.clone())))) {
                    add.push(k.clone());
                }
            }
            if add.is_empty() {
                break;
            }
            s.extend(add);
        }
        s
    }

    /// A reload pass happened between `before` and now: apply the C05/C06/C10 oracles.
    fn judge_pass(&mut self, before: &BTreeMap<Key, (String, u64)>, reads_before: usize, watch: &BTreeMap<Key, (bool, bool)>) {
        let aff = self.affected();
        let aff_may = self.affected_with(true);
        self.notified_before_load.clear();
        self.pending.clear();
        self.pending_maybe.clear();
        self.passes += 1;
        let after = self.snapshot();
        if aff_may.is_empty() && self.mem.reads() != reads_before && self.cfg.check_c06 {
            self.violation("c06:reads-without-notification", format!("source accessed {} times during a pass with nothing notified", self.mem.reads() - reads_before));
        }
        // evaluate affected assets against the current source and the post-pass cache
        let mut learned: Vec<(Key, BTreeSet<Dep>)> = vec![];
        let mut stale: Vec<(Key, BTreeSet<Dep>, String)> = vec![];
        let mut learned_maybe: Vec<(Key, BTreeSet<Dep>)> = vec![];
        for k in self.universe() {
            let (Some(b), Some(a)) = (before.get(&k), after.get(&k)) else { continue };
            let is_pinned = self.pinned.contains_key(&k) || !k.0.reloadable() || !self.hot;
            if is_pinned {
                if (a != b) && self.cfg.check_c10 {
                    self.violation(format!("c10:rewritten:{:?}", k.0), format!("{k:?} must never be reloaded but went from {b:?} to {a:?}"));
                }
                continue;
            }
            let lenient = aff_may.contains(&k) && !aff.contains(&k);
            if lenient && a.1 == b.1 {
                // allowed-but-not-required reload did not happen: nothing may have changed
                if (self.cfg.check_c05 || self.cfg.check_c06) && a != b {
                    self.violation(format!("c06:changed-without-reload:{:?}", k.0), format!("{k:?} changed {b:?} -> {a:?} with an unchanged reload id"));
                }
                continue;
            }
            if aff.contains(&k) || lenient {
                let (r, deps, regs) = self.with_view(None, |v| {
                    let mut e = Eval::default();
                    let (r, d) = e.fresh(v, &k, false);
                    (r, d, e.regs)
                });
                // entries created during this pass: a get_cached look-up made by an asset reloaded
                // earlier in the pass may legitimately have missed them (all subsets tried)
                let newly: Vec<Key> = after.keys().filter(|x| !before.contains_key(*x)).cloned().collect();
                let mut r = r;
                let mut deps = deps;
                let mut regs = regs;
                if let Ok(val) = &r {
                    if mask_unrecorded(&a.0) != mask_unrecorded(val) && !newly.is_empty() && newly.len() <= 4 {
                        for mask in 1u32..(1 << newly.len()) {
                            let hidden: BTreeSet<Key> = newly.iter().enumerate().filter(|(i, _)| mask & (1 << i) != 0).map(|(_, x)| x.clone()).collect();
                            let (r2, d2, g2) = self.with_view_hidden(None, &hidden, |v| {
                                let mut e = Eval::default();
                                let (r, d) = e.fresh(v, &k, false);
                                (r, d, e.regs)
                            });
                            if r2.as_ref().ok().map(|x| mask_unrecorded(x)) == Some(mask_unrecorded(&a.0)) {
                                r = r2;
                                deps = d2;
                                regs = g2;
                                break;
                            }
                        }
                    }
                }
                match r {
                    Ok(val) => {
                        // what was read inside no_record / helper-thread / other-cache blocks is
                        // explicitly untracked: the property cannot demand its freshness
                        if self.cfg.check_c05 && mask_unrecorded(&a.0) != mask_unrecorded(&val) {
                            stale.push((k.clone(), deps.clone(), format!("{k:?} was affected; reloading it from the current source and cache gives {val:?} but the cache holds {:?} (before the pass: {:?})", a.0, b.0)));
                        }
                        // an affected asset whose fresh value equals what it already holds need not be
                        // rewritten (C05 asks for the value, C06 counts rewrites that happened)
                        let no_rewrite_needed = a.1 == b.1 && a.0 == b.0 && mask_unrecorded(&val) == mask_unrecorded(&b.0);
                        if self.cfg.check_c06 && a.1 != b.1 + 1 && !no_rewrite_needed {
                            // two different clauses: the id must GROW with a rewrite (watchers, C05/C06/C14), and
                            // it grows BY ONE (C06 only: judged under C06, filtered out elsewhere)
                            let key = if a.1 > b.1 { "c06:id-jump" } else { "c06:id-not-plus-one" };
                            self.violation(format!("{key}:{:?}", k.0), format!("{k:?} was affected and its reload succeeds, reload id went {} -> {}", b.1, a.1));
                        }
                        // possible extra dependencies through non-reloadable entries created in this pass
                        let unpin: BTreeSet<Key> = newly.iter().filter(|x| !x.0.reloadable()).cloned().collect();
                        if !unpin.is_empty() {
                            let (_, d_alt) = self.with_view_full(None, &BTreeSet::new(), &unpin, |v| Eval::default().fresh(v, &k, false));
                            let extra: BTreeSet<Dep> = d_alt.difference(&deps).cloned().collect();
                            if !extra.is_empty() {
                                learned_maybe.push((k.clone(), extra));
                            }
                        }
                        learned.push((k.clone(), deps));
                        learned.extend(regs);
                    }
                    Err(_) => {
                        if self.cfg.check_c05 && a.0 != b.0 {
                            self.violation(format!("c05:failed-reload-changed-value:{:?}", k.0), format!("{k:?}: its reload fails on the current source, yet the value changed {:?} -> {:?}", b.0, a.0));
                        }
                        if self.cfg.check_c06 && a.1 != b.1 {
                            self.violation(format!("c06:id-bumped-on-failure:{:?}", k.0), format!("{k:?}: its reload fails, reload id went {} -> {}", b.1, a.1));
                        }
                    }
                }
            } else {
                if self.cfg.check_c06 && a != b {
                    self.violation(format!("c06:unaffected-rewritten:{:?}", k.0), format!("{k:?} recorded nothing that was notified, yet went from {b:?} to {a:?}"));
                }
            }
            if self.cfg.check_c06 {
                if let Some((w, g)) = watch.get(&k) {
                    let grew = a.1 > b.1;
                    if *w != grew {
                        self.violation(format!("c06:watcher:{:?}", k.0), format!("{k:?}: ReloadWatcher::reloaded() = {w} but reload id {} -> {}", b.1, a.1));
                    }
                    if *g != grew {
                        self.violation(format!("c06:reloaded_global:{:?}", k.0), format!("{k:?}: reloaded_global() = {g} but reload id {} -> {}", b.1, a.1));
                    }
                }
            }
        }
        // Classify stale assets.  Signature of the recorded finding D8 ("an edge that appears during
        // the pass is not ordered"): the asset's *new* dependency set names an asset that was not
        // among its recorded dependencies before the pass and that was itself reloaded in this
        // pass -- or it depends on an asset that is stale for that reason.
        let mut marked: BTreeSet<Key> = BTreeSet::new();
        loop {
            let mut progress = false;
            for (k, newdeps, _) in &stale {
                if marked.contains(k) {
                    continue;
                }
                let old = self.graph.get(k).cloned().unwrap_or_default();
                let hit = newdeps.iter().any(|d| match d {
                    Dep::Asset(t, i) => {
                        let dk = (*t, i.clone());
                        (!old.contains(d) && aff.contains(&dk)) || marked.contains(&dk)
                    }
                    _ => false,
                });
                if hit {
                    marked.insert(k.clone());
                    progress = true;
                }
            }
            if !progress {
                break;
            }
        }
        for (k, _, desc) in stale {
            if marked.contains(&k) {
                self.violation("c05:stale:new-edge-to-asset-reloaded-in-same-pass".to_string(), desc);
            } else {
                self.violation(format!("c05:stale:{:?}", k.0), desc);
            }
        }
        for (k, d) in learned {
            self.register(k, d);
        }
        for (k, d) in learned_maybe {
            self.maybe.insert(k, d);
        }
        if self.armed_entry.is_some() && self.mem.0.fault_entry.lock().unwrap().is_none() {
            self.armed_entry = None;
        }
        self.sync();
    }

    fn check_pinned(&mut self, what: &str) {
        if !self.cfg.check_c10 {
            return;
        }
        for (k, val) in self.pinned.clone() {
            match self.peek(&k) {
                Some((v, id)) => {
                    if v != val || id != 0 {
                        self.violation(format!("c10:pinned-changed:{:?}", k.0), format!("after `{what}`: {k:?} was stored as {val} and must stay so, now ({v}, reload id {id})"));
                    }
                }
                None => self.violation(format!("c10:pinned-vanished:{:?}", k.0), format!("after `{what}`: {k:?} disappeared")),
            }
            // "References obtained with Handle::get therefore stay valid and constant": for the types that
            // declare themselves NotHotReloaded the lock-free accessor must work and agree with read();
            // and nothing that is never rewritten may ever report a reload
            if k.0 == Ty::LS && self.hot {
                let c = self.cache();
                if let Some(h) = c.get_cached::<LS>(&k.1) {
                    let got = std::panic::catch_unwind(std::panic::AssertUnwindSafe(|| h.get().v.to_string()));
                    let flags = (h.reloaded_global() || h.as_untyped().reloaded_global(), h.reload_watcher().reloaded() || h.as_untyped().reload_watcher().reloaded());
                    match got {
                        Ok(g) if g == val => {}
                        Ok(g) => self.violation("c10:get-differs".to_string(), format!("after `{what}`: Handle::get of {k:?} gives {g}, stored {val}")),
                        Err(_) => self.violation("c10:get-panicked".to_string(), format!("after `{what}`: Handle::get of {k:?} (a NotHotReloaded type in a cache with a reloader) panicked")),
                    }
                    if flags != (false, false) {
                        self.violation("c10:static-entry-reports-reload".to_string(), format!("after `{what}`: {k:?} is never rewritten, yet reloaded_global / a fresh watcher answered {flags:?}"));
                    }
                }
            }
            if k.0 == Ty::V || k.0 == Ty::L {
                // a value stored with get_or_insert: never rewritten, so never reported as reloaded
                let c = self.cache();
                let flags = match k.0 {
                    Ty::V => c.get_cached::<V>(&k.1).map(|h| (h.reloaded_global() || h.as_untyped().reloaded_global(), h.reload_watcher().reloaded() || h.as_untyped().reload_watcher().reloaded())),
                    _ => c.get_cached::<L>(&k.1).map(|h| (h.reloaded_global() || h.as_untyped().reloaded_global(), h.reload_watcher().reloaded() || h.as_untyped().reload_watcher().reloaded())),
                };
                if let Some(f) = flags {
                    if f != (false, false) {
                        self.violation("c10:static-entry-reports-reload".to_string(), format!("after `{what}`: {k:?} is never rewritten, yet reloaded_global / a fresh watcher answered {f:?}"));
                    }
                }
            }
        }
    }

    fn check_ledger(&mut self, what: &str, harness_owned: usize) {
        if !self.cfg.check_ledger {
            return;
        }
        let dbl = ledger_double();
        if !dbl.is_empty() {
            self.violation("c13:double-drop", format!("after `{what}`: tracked values dropped twice: {dbl:?}"));
        }
        // every cached tracked value is alive, and nothing else is
        let mut expect = 0usize;
        for k in self.universe() {
            if matches!(k.0, Ty::DirL | Ty::RecL) {
                continue;
            }
            if matches!(k.0, Ty::OLS | Ty::OOLS) {
                // `peek` initialises the cell, and initialisation consumes (drops) the tracked seed:
                // a cached cell holds no tracked value, so a seed that is still alive is a leak
                let _ = self.peek(&k);
                continue;
            }
            if self.peek(&k).is_some() {
                expect += 1;
            }
        }
        if let Some(o) = &self.other {
            for k in [(Ty::L, "z0".to_string()), (Ty::L, "z1".to_string())] {
                if Self::peek_in(o, &k).is_some() {
                    expect += 1;
                }
            }
        }
        let live = ledger_live().len();
        if live != expect + harness_owned {
            self.violation("c13:ledger-mismatch", format!("after `{what}`: {live} tracked values alive, {expect} cached + {harness_owned} owned by the caller"));
        }
    }

    /// Execute one operation (text form) on the real cache and on the model; apply the oracles.
    pub fn step(&mut self, op: &str) {
        let toks: Vec<&str> = op.split_whitespace().collect();
        let mut owned_alive = 0usize;
        match toks[0] {
            "load" | "owned" => {
                let ty = Ty::parse(toks[1]);
                let id = toks[2].to_string();
                let key = (ty, id.clone());
                let owned = toks[0] == "owned";
                // model prediction first (pure)
                let was_cached = self.peek(&key).is_some();
                let rel = self.mem.0.fault_at.lock().unwrap().and_then(|(at, _)| at.checked_sub(self.mem.reads()));
                let (pred, deps, regs) = self.with_view(rel, |v| {
                    let mut e = Eval::default();
                    let (r, d) = e.fresh(v, &key, false);
                    (r, d, e.regs)
                });
                let c = self.cache();
                macro_rules! go {
                    ($t:ty, $f:expr) => {{
                        let f: fn(&$t) -> String = $f;
                        if owned {
                            std::panic::catch_unwind(std::panic::AssertUnwindSafe(|| c.load_owned::<$t>(&id).map(|x| f(&x)).map_err(|e| format!("{e:?}"))))
                        } else {
                            std::panic::catch_unwind(std::panic::AssertUnwindSafe(|| c.load::<$t>(&id).map(|h| f(&h.read())).map_err(|e| format!("{e:?}"))))
                        }
                    }};
                }
                let real = match ty {
                    Ty::L => go!(L, |x| x.v.to_string()),
                    Ty::L2 => go!(L2, |x| x.v.to_string()),
                    Ty::LS => go!(LS, |x| x.v.to_string()),
                    Ty::P => go!(P, |x| x.v.to_string()),
                    Ty::ALS => go!(std::sync::Arc<LS>, |x| x.v.to_string()),
                    Ty::OLS => go!(assets_manager::OnceInitCell<LS, i64>, |x| x.get_or_init(|seed| seed.v).to_string()),
                    Ty::OOLS => go!(assets_manager::OnceInitCell<Option<LS>, i64>, |x| x.get_or_init(|seed| seed.as_ref().map(|s| s.v).unwrap_or(-1)).to_string()),
                    Ty::N => go!(N, |x| x.text.clone()),
                    Ty::DirL => go!(assets_manager::Directory<L>, |x| fmt_ids(x.ids())),
                    Ty::RecL => go!(assets_manager::RecursiveDirectory<L>, |x| fmt_ids(x.ids())),
                    Ty::V => Ok(Err("storable".into())),
                };
                let real = match real {
                    Ok(r) => r.map_err(|_| EvErr::Err(String::new())),
                    Err(e) => {
                        if e.is::<ds::Aborted>() {
                            std::panic::resume_unwind(e);
                        }
                        Err(EvErr::Panic)
                    }
                };
                self.obs.push(format!("{op} -> {:?}", real.as_ref().map_err(|e| matches!(e, EvErr::Panic))));
                if !owned && real.is_ok() {
                    self.present.insert(key.clone());
                }
                if !was_cached || owned {
                    let same = match (&real, &pred) {
                        (Ok(a), Ok(b)) => a == b,
                        (Err(EvErr::Panic), Err(EvErr::Panic)) => true,
                        (Err(EvErr::Err(_)), Err(EvErr::Err(_))) => true,
                        _ => false,
                    };
                    if !same {
                        self.violation(format!("load-mismatch:{:?}", ty), format!("`{op}` returned {real:?}, the reference evaluation of the current source gives {pred:?}"));
                    }
                    if self.hot && ty.reloadable() && pred.is_ok() {
                        self.register(key.clone(), deps);
                        if !was_cached && !owned {
                            self.mark_fresh_load(&key);
                        }
                    }
                    if self.hot {
                        for (k, d) in regs {
                            let fresh = self.peek(&k).is_some() && !self.graph.contains_key(&k);
                            self.register(k.clone(), d);
                            if fresh {
                                self.mark_fresh_load(&k);
                            }
                        }
                    }
                    if !owned && pred.is_ok() && (!ty.reloadable() || !self.hot) {
                        self.pinned.insert(key.clone(), pred.clone().unwrap());
                    }
                }
                if self.armed_entry.is_some() && self.mem.0.fault_entry.lock().unwrap().is_none() {
                    self.armed_entry = None;
                }
                self.quiesce();
                self.sync();
            }
            "goi" | "agoi" => {
                // agoi: the same insertion through the AnyCache view of the cache
                let ty = Ty::parse(toks[1]);
                let id = toks[2];
                let val: i64 = toks[3].parse().unwrap();
                let key = (ty, id.to_string());
                let was = self.peek(&key).is_some();
                let c = self.cache();
                let got = if toks[0] == "agoi" {
                    let c = c.as_any_cache();
                    match ty {
                        Ty::L => c.get_or_insert::<L>(id, L::from(val)).read().v,
                        Ty::LS => c.get_or_insert::<LS>(id, LS::from(val)).read().v,
                        Ty::V => c.get_or_insert::<V>(id, V { v: val, t: Tracked::new() }).read().v,
                        _ => panic!("goi type"),
                    }
                } else {
                    match ty {
                        Ty::L => c.get_or_insert::<L>(id, L::from(val)).read().v,
                        Ty::LS => c.get_or_insert::<LS>(id, LS::from(val)).read().v,
                        Ty::V => c.get_or_insert::<V>(id, V { v: val, t: Tracked::new() }).read().v,
                        _ => panic!("goi type"),
                    }
                };
                self.obs.push(format!("{op} -> {got}"));
                self.present.insert(key.clone());
                if !was {
                    if got != val {
                        self.violation("goi-mismatch", format!("`{op}` on an absent key returned {got}"));
                    }
                    self.pinned.insert(key, val.to_string());
                }
                self.quiesce();
            }
            "remove" | "take" => {
                let ty = Ty::parse(toks[1]);
                let id = toks[2];
                let key = (ty, id.to_string());
                let was = self.peek(&key).is_some();
                let take = toks[0] == "take";
                let Some(CacheRef::Owned(c)) = self.cache.as_mut() else { panic!("remove on static cache") };
                macro_rules! rm {
                    ($t:ty) => {
                        if take {
                            let v = c.take::<$t>(id);
                            let r = v.is_some();
                            drop(v);
                            r
                        } else {
                            c.remove::<$t>(id)
                        }
                    };
                }
                let r = match ty {
                    Ty::L => rm!(L),
                    Ty::L2 => rm!(L2),
                    Ty::LS => rm!(LS),
                    Ty::P => rm!(P),
                    Ty::V => rm!(V),
                    Ty::ALS => rm!(std::sync::Arc<LS>),
                    Ty::OLS => rm!(assets_manager::OnceInitCell<LS, i64>),
                    Ty::OOLS => rm!(assets_manager::OnceInitCell<Option<LS>, i64>),
                    Ty::N => rm!(N),
                    Ty::DirL => rm!(assets_manager::Directory<L>),
                    Ty::RecL => rm!(assets_manager::RecursiveDirectory<L>),
                };
                self.obs.push(format!("{op} -> {r}"));
                if r != was {
                    self.violation("remove-mismatch", format!("`{op}` returned {r}, entry present before: {was}"));
                }
                self.pinned.remove(&key);
                self.present.remove(&key);
                self.quiesce();
            }
            "clear" => {
                let Some(CacheRef::Owned(c)) = self.cache.as_mut() else { panic!("clear on static cache") };
                c.clear();
                self.pinned.clear();
                self.present.clear();
                self.quiesce();
                self.pending.clear();
                self.obs.push("clear".into());
            }
            "put" => {
                // put id.ext content
                let (id, ext) = split_file(toks[1]);
                self.mem.put(&id, &ext, &toks[2..].join(" "));
            }
            "del" => {
                let (id, ext) = split_file(toks[1]);
                self.mem.del(&id, &ext);
            }
            "ev" | "evb" => {
                // ev F:a.l  |  evb F:a.l,D:d
                let entries: Vec<Dep> = toks[1].split(',').map(parse_entry).collect();
                let before = if self.is_static { Some((self.snapshot(), self.mem.reads())) } else { None };
                if toks[0] == "ev" {
                    for e in &entries {
                        self.mem.ev(entry_of(e).unwrap());
                    }
                } else {
                    self.mem.ev_batch(entries.iter().map(|e| entry_of(e).unwrap()).collect());
                }
                if self.hot {
                    for e in entries {
                        if self.known_entries.contains(&e) {
                            self.pending.insert(e);
                        } else if self.maybe.values().any(|m| m.contains(&e)) {
                            self.pending_maybe.insert(e);
                        }
                    }
                }
                let reads = self.mem.reads();
                self.quiesce();
                if let Some((b, r)) = before {
                    // enhance_hot_reloading: the pass happens by itself
                    self.judge_pass(&b, r, &BTreeMap::new());
                } else if self.cfg.check_c06 && self.mem.reads() != reads {
                    self.violation("c06:reads-outside-pass", "the source was read while taking in a notification (no hot_reload call)".to_string());
                }
            }
            "q" => self.quiesce(),
            "hr" => {
                let before = self.snapshot();
                let reads = self.mem.reads();
                let mut watch: BTreeMap<Key, (bool, bool)> = BTreeMap::new();
                let watcher_viol: Vec<String>;
                {
                    let c = self.cache();
                    // one watcher per cached entry, taken before the pass; drain reloaded_global
                    macro_rules! w {
                        ($t:ty, $k:expr) => {
                            if let Some(h) = c.get_cached::<$t>(&$k.1) {
                                let _ = h.reloaded_global();
                                let mut wt = h.reload_watcher();
                                let first = wt.reloaded();
                                Some((h, wt, first))
                            } else {
                                None
                            }
                        };
                    }
                    let keys: Vec<Key> = before.keys().cloned().collect();
                    let mut ls = vec![];
                    let mut ns = vec![];
                    let mut l2s = vec![];
                    for k in &keys {
                        match k.0 {
                            Ty::L => {
                                if let Some(x) = w!(L, k) {
                                    ls.push((k.clone(), x))
                                }
                            }
                            Ty::N => {
                                if let Some(x) = w!(N, k) {
                                    ns.push((k.clone(), x))
                                }
                            }
                            Ty::L2 => {
                                if let Some(x) = w!(L2, k) {
                                    l2s.push((k.clone(), x))
                                }
                            }
                            _ => {}
                        }
                    }
                    c.hot_reload();
                    let mut tmp: Vec<String> = vec![];
                    macro_rules! fin {
                        ($v:expr) => {
                            for (k, (h, mut wt, first)) in $v {
                                let r1 = wt.reloaded();
                                let r2 = wt.reloaded();
                                let g1 = h.reloaded_global();
                                let g2 = h.reloaded_global();
                                if first {
                                    tmp.push(format!("{k:?}: a freshly taken ReloadWatcher reported a reload"));
                                }
                                if r2 || g2 {
                                    tmp.push(format!("{k:?}: asked twice in a row, the second answer was still true (watcher {r2}, global {g2})"));
                                }
                                watch.insert(k, (r1, g1));
                            }
                        };
                    }
                    fin!(ls);
                    fin!(ns);
                    fin!(l2s);
                    watcher_viol = tmp;
                }
                if self.cfg.check_c06 {
                    for m in watcher_viol {
                        self.viol.push(("c06:watcher-not-once".into(), m));
                    }
                }
                self.obs.push("hr".into());
                if self.hot && !self.is_static {
                    self.judge_pass(&before, reads, &watch);
                } else {
                    // no reloader (or static mode: hot_reload is a no-op): nothing may change
                    let after = self.snapshot();
                    if after != before && (self.cfg.check_c10 || self.cfg.check_c06) {
                        self.violation("c10:changed-without-reloader", format!("hot_reload on a cache that cannot reload changed {before:?} -> {after:?}"));
                    }
                }
            }
            "static" => {
                let c = match self.cache.take().unwrap() {
                    CacheRef::Owned(b) => Box::leak(b),
                    CacheRef::Static(s) => s,
                };
                let c: &'static AssetCache<Mem> = c;
                self.cache = Some(CacheRef::Static(c));
                self.set_ctx();
                let before = self.snapshot();
                let reads = self.mem.reads();
                c.enhance_hot_reloading();
                self.is_static = true;
                self.quiesce();
                // pending events are applied as soon as the static reference arrives
                self.judge_pass(&before, reads, &BTreeMap::new());
            }
            "fault" => {
                // fault <k> <kind>: the k-th access from now fails
                let k: usize = toks[1].parse().unwrap();
                let kind = match toks.get(2).copied().unwrap_or("Other") {
                    "NotFound" => std::io::ErrorKind::NotFound,
                    "PermissionDenied" => std::io::ErrorKind::PermissionDenied,
                    "Interrupted" => std::io::ErrorKind::Interrupted,
                    "UnexpectedEof" => std::io::ErrorKind::UnexpectedEof,
                    "InvalidData" => std::io::ErrorKind::InvalidData,
                    _ => std::io::ErrorKind::Other,
                };
                self.mem.set_fault(Some((self.mem.reads() + k, kind)));
            }
            "faultent" => {
                let kind = match toks.get(2).copied().unwrap_or("Other") {
                    "NotFound" => std::io::ErrorKind::NotFound,
                    "PermissionDenied" => std::io::ErrorKind::PermissionDenied,
                    "Interrupted" => std::io::ErrorKind::Interrupted,
                    "UnexpectedEof" => std::io::ErrorKind::UnexpectedEof,
                    "InvalidData" => std::io::ErrorKind::InvalidData,
                    _ => std::io::ErrorKind::Other,
                };
                *self.mem.0.fault_entry.lock().unwrap() = Some((toks[1].to_string(), kind));
                self.armed_entry = Some(toks[1].to_string());
            }
            "nofault" => {
                self.mem.set_fault(None);
                *self.mem.0.fault_entry.lock().unwrap() = None;
                self.armed_entry = None;
            }
            _ => panic!("bad op {op}"),
        }
        let _ = &mut owned_alive;
        for k in self.universe() {
            if !self.ever_cached.contains(&k) && self.peek(&k).is_some() {
                self.ever_cached.insert(k);
            }
        }
        if self.cfg.check_presence {
            for k in self.universe() {
                let real = self.peek(&k).is_some();
                let want = self.present.contains(&k);
                if real != want {
                    self.violation(format!("c02:presence:{:?}", k.0), format!("after `{op}`: entry {k:?} present={real}, the reference set says {want}"));
                }
            }
        }
        self.check_pinned(op);
        self.check_ledger(op, owned_alive);
    }

    pub fn canon(&self) -> String {
        format!("src={:?} cache={:?} graph={:?} pinned={:?} pending={:?}", self.mem.snapshot(), self.snapshot().into_iter().map(|(k, v)| (k, v.0)).collect::<Vec<_>>(), self.graph, self.pinned, self.pending)
    }

    /// drop the cache(s); the ledger must be empty afterwards
    pub fn finish(mut self) -> (Vec<(String, String)>, Vec<String>, String) {
        let canon = self.canon();
        *CTX.lock().unwrap() = (0, 0);
        let is_static = self.is_static;
        self.cache = None;
        self.other = None;
        if self.cfg.check_ledger && !is_static {
            let live = ledger_live();
            if !live.is_empty() {
                self.viol.push(("c13:leak-at-drop".into(), format!("{} tracked values still alive after the cache was dropped", live.len())));
            }
            let dbl = ledger_double();
            if !dbl.is_empty() {
                self.viol.push(("c13:double-drop".into(), format!("tracked values dropped twice: {dbl:?}")));
            }
        }
        (self.viol, self.obs, canon)
    }
}

/// Run one history on a fresh world under detsched's default schedule; returns
/// (violations, observations, canonical final state) or a machinery/verdict description.
pub struct HistResult {
    pub viol: Vec<(String, String)>,
    pub obs: Vec<String>,
    pub canon: String,
    pub verdict: ds::Verdict,
    pub panicked: Option<String>,
    pub steps: usize,
}

pub fn run_history(cfg: &HCfg, ops: &[String], choices: &[usize]) -> HistResult {
    let cfg2 = cfg.clone();
    let ops2: Vec<String> = ops.to_vec();
    let out: std::sync::Arc<Mutex<Option<(Vec<(String, String)>, Vec<String>, String)>>> = Default::default();
    let out2 = out.clone();
    let r = ds::run_one(choices, &ds::Config { writer_pref: false, horizon: 50_000, record_ops: false }, move || {
        let mut w = World::new(&cfg2);
        for op in &ops2 {
            w.step(op);
        }
        *out2.lock().unwrap() = Some(w.finish());
    });
    let (viol, obs, canon) = out.lock().unwrap().take().unwrap_or_default();
    HistResult { viol, obs, canon, verdict: r.verdict, panicked: r.panicked, steps: r.steps }
}
