//! C18 (sequential part on the REAL crate, no source-text extraction): `ReloadId::update` and the public
//! `AtomicReloadId` operations against a `max` reference, for every sequence of operations up to a
//! bound over real reload ids (obtained by really reloading an asset k times: there is no public
//! constructor).  The interleavings are the loom kernel's business (`c18_reloadid`); this sub-check
//! also runs on trees from which that kernel cannot be extracted.
use crate::mem::Mem;
use assets_manager::{source::OwnedDirEntry, AssetCache, AtomicReloadId, ReloadId};
use detsched as ds;
use serde_json::json;
use vcommon::{Args, SubResult};

fn real_ids(n: usize) -> Vec<ReloadId> {
    let out: std::sync::Arc<std::sync::Mutex<Vec<ReloadId>>> = Default::default();
    let o2 = out.clone();
    ds::run_one(&[], &ds::Config::default(), move || {
        let m = Mem::new(true);
        m.put("k", "txt", "0");
        let c = AssetCache::with_source(m.clone());
        ds::adopt(1, "reloader");
        let h = c.load::<String>("k").unwrap();
        let mut ids = vec![h.last_reload_id()];
        for i in 1..n {
            m.put("k", "txt", &format!("{i}"));
            m.ev(OwnedDirEntry::File("k".into(), "txt".into()));
            ds::quiesce();
            c.hot_reload();
            ids.push(h.last_reload_id());
        }
        *o2.lock().unwrap() = ids;
    });
    let v = out.lock().unwrap().clone();
    v
}

pub fn run(args: &Args) -> SubResult {
    let mut res = SubResult::new("C18", "c18_seq");
    let n = 5usize;
    let depth = if args.thorough() { 4 } else { 3 };
    res.bound = format!("ids = NEVER and the ids of {} real reloads of one asset; every initial value x every sequence of <= {depth} operations over update / fetch_max / swap / store (each with every id) and load on AtomicReloadId, and of update on ReloadId", n - 1);
    res.rule = "sequential reference: update stores max(old, new) and answers new > old; fetch_max stores the max and returns the old value; swap / store replace; load reads; NEVER is the least id; distinct = distinct (initial, operation sequence) classes by outcome".into();
    let ids = real_ids(n);
    let what = |d: String| json!({"engine": "sysmc", "harness": "c18_seq", "case": d});
    if ids.len() != n || ids[0] != ReloadId::NEVER || ids.windows(2).any(|w| !(w[0] < w[1])) {
        res.violation("c18_seq:ids-not-increasing", format!("the ids of successive reloads of one asset are {ids:?} (expected NEVER, then strictly increasing)"), what("ids".into()));
        return res;
    }
    // ops: 0..n update(i) | n..2n fetch_max(i) | 2n..3n swap(i) | 3n..4n store(i) | 4n load
    let nops = 4 * n + 1;
    let mut seq = vec![0usize; depth];
    for init in 0..n {
        for len in 1..=depth {
            let total = nops.pow(len as u32);
            for code in 0..total {
                let mut c = code;
                for s in seq.iter_mut().take(len) {
                    *s = c % nops;
                    c /= nops;
                }
                let a = AtomicReloadId::with_value(ids[init]);
                let mut plain = ids[init];
                let mut model = init;
                let mut plain_model = init;
                let mut bad: Option<String> = None;
                for (step, &op) in seq.iter().take(len).enumerate() {
                    let (kind, x) = (op / n, op % n);
                    match kind {
                        0 => {
                            let r = a.update(ids[x]);
                            let want = x > model;
                            model = model.max(x);
                            if r != want {
                                bad = Some(format!("step {step}: update({x}) answered {r}, stored id was below: {want}"));
                            }
                            // the plain ReloadId follows the update operations only
                            let r2 = plain.update(ids[x]);
                            let want2 = x > plain_model;
                            plain_model = plain_model.max(x);
                            if r2 != want2 || plain != ids[plain_model] {
                                bad = Some(format!("step {step}: ReloadId::update({x}) answered {r2} and left {plain:?}; expected {want2} and {:?}", ids[plain_model]));
                            }
                        }
                        1 => {
                            let r = a.fetch_max(ids[x]);
                            if r != ids[model] {
                                bad = Some(format!("step {step}: fetch_max({x}) returned {r:?}, the stored id was {:?}", ids[model]));
                            }
                            model = model.max(x);
                        }
                        2 => {
                            let r = a.swap(ids[x]);
                            if r != ids[model] {
                                bad = Some(format!("step {step}: swap({x}) returned {r:?}, the stored id was {:?}", ids[model]));
                            }
                            model = x;
                        }
                        3 => {
                            a.store(ids[x]);
                            model = x;
                        }
                        _ => {}
                    }
                    if a.load() != ids[model] && bad.is_none() {
                        bad = Some(format!("step {step}: load() = {:?}, the reference holds {:?}", a.load(), ids[model]));
                    }
                    if bad.is_some() {
                        break;
                    }
                }
                res.evaluations += 1;
                res.transitions += len as u64;
                if let Some(b) = bad {
                    let d = format!("initial id #{init}, operations {:?} (kind = op / {n}: update, fetch_max, swap, store, load; id = op % {n})", &seq[..len]);
                    res.violation("c18_seq:differs-from-max-reference".to_string(), format!("{b}; {d}"), what(d.clone()));
                }
                res.outcome(&(init, len, model, plain_model));
            }
        }
    }
    res.states = res.distinct.len() as u64;
    res.sample(json!({"ids": format!("{ids:?}"), "example": "init #2; update(#1) -> false; fetch_max(#4) -> #2; load -> #4"}));
    res
}
