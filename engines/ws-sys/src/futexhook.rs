//! Interposition of libc's `syscall` (std reaches the futex system call through it): FUTEX_WAIT and
//! FUTEX_WAKE issued by threads of the running exploration are handed to the scheduler's futex model
//! (`detsched::futex_wait` / `futex_wake`), everything else goes to the kernel unchanged.  This is
//! what makes code that blocks in `std::thread::park`, a `std::sync` lock or a `std::sync::mpsc`
//! channel schedulable; x86_64 Linux only (on other targets the symbol is not defined and such code
//! ends in the watchdog's machinery failure).
#![cfg(all(target_os = "linux", target_arch = "x86_64"))]
use std::os::raw::c_long;

const SYS_FUTEX: c_long = 202;
const FUTEX_WAIT: c_long = 0;
const FUTEX_WAKE: c_long = 1;
const FUTEX_WAIT_BITSET: c_long = 9;
const FUTEX_WAKE_BITSET: c_long = 10;

#[inline(always)]
unsafe fn raw(num: c_long, a1: c_long, a2: c_long, a3: c_long, a4: c_long, a5: c_long, a6: c_long) -> c_long {
    let ret: c_long;
    std::arch::asm!("syscall", inlateout("rax") num => ret, in("rdi") a1, in("rsi") a2, in("rdx") a3, in("r10") a4, in("r8") a5, in("r9") a6, lateout("rcx") _, lateout("r11") _, options(nostack));
    if (-4095..0).contains(&ret) {
        *libc::__errno_location() = (-ret) as i32;
        -1
    } else {
        ret
    }
}

extern "C" {
    static __executable_start: u8;
    static _end: u8;
}
/// Words inside the executable's own image are statics; those of std (the lock around the
/// alternate-signal-stack bookkeeping taken at every thread start and exit, the stdout lock, the
/// environment lock) are contended in the short windows in which OS threads really overlap (a thread
/// starting up or running its exit path while the next one already runs), i.e. nondeterministically:
/// they stay with the kernel.  Everything the code under test blocks on at run time -- a thread's
/// parker, a lock or channel inside an object -- lives on the heap or on a stack.
#[inline]
fn is_static(addr: usize) -> bool {
    let (lo, hi) = unsafe { (&__executable_start as *const u8 as usize, &_end as *const u8 as usize) };
    addr >= lo && addr < hi
}

/// Same contract as glibc's variadic `syscall(2)` wrapper (six register arguments on x86_64).
#[no_mangle]
pub unsafe extern "C" fn syscall(num: c_long, a1: c_long, a2: c_long, a3: c_long, a4: c_long, a5: c_long, a6: c_long) -> c_long {
    if num == SYS_FUTEX && !is_static(a1 as usize) {
        match a2 & 0x7f {
            FUTEX_WAIT | FUTEX_WAIT_BITSET if a4 == 0 => {
                if detsched::futex_wait(a1 as usize, a3 as u32).is_some() {
                    *libc::__errno_location() = libc::EAGAIN;
                    return -1;
                }
            }
            FUTEX_WAKE | FUTEX_WAKE_BITSET => {
                if let Some(n) = detsched::futex_wake(a1 as usize, a3 as usize) {
                    return n as c_long;
                }
            }
            _ => {}
        }
    }
    raw(num, a1, a2, a3, a4, a5, a6)
}

/// `pthread_join` (what `std::thread::JoinHandle::join` calls): when a registered thread joins another
/// thread of the execution, the wait becomes the scheduling operation `Join` (enabled once the target's
/// model thread has finished); afterwards the real join only reaps an OS thread that is on its way out.
#[no_mangle]
pub unsafe extern "C" fn pthread_join(thread: libc::pthread_t, retval: *mut *mut libc::c_void) -> libc::c_int {
    type Real = unsafe extern "C" fn(libc::pthread_t, *mut *mut libc::c_void) -> libc::c_int;
    static REAL: std::sync::OnceLock<usize> = std::sync::OnceLock::new();
    let real = *REAL.get_or_init(|| libc::dlsym(libc::RTLD_NEXT, b"pthread_join\0".as_ptr() as *const libc::c_char) as usize);
    if real == 0 {
        return libc::EINVAL;
    }
    let _ = detsched::join_wait(thread as usize);
    let f: Real = std::mem::transmute(real);
    f(thread, retval)
}
