//! C01/C02 (configurations: "every per-cache hash seed") — the ahash shim makes the seed a parameter,
//! so the seeds for which two keys with the SAME id and DIFFERENT types fall into the same shard
//! and carry the same 7-bit hash tag (the only case in which the map compares them) are searched
//! for and every short history over those two keys is run under them (and under non-colliding
//! seeds).
use crate::hr::{HCfg, Ty, L, L2, LS, P, V};
use crate::hsearch::{mv, run_search, Move, Search};
use vcommon::{Args, SubResult};

fn full_hash(ty: Ty, id: &str, seed: u64) -> u64 {
    use std::any::TypeId;
    use std::hash::{BuildHasher, Hash, Hasher};
    ahash::stub_set_seed(seed);
    let mut h = ahash::RandomState::new().build_hasher();
    let t = match ty {
        Ty::L => TypeId::of::<L>(),
        Ty::L2 => TypeId::of::<L2>(),
        Ty::LS => TypeId::of::<LS>(),
        Ty::P => TypeId::of::<P>(),
        Ty::V => TypeId::of::<V>(),
        Ty::ALS => TypeId::of::<std::sync::Arc<LS>>(),
        Ty::OLS => TypeId::of::<assets_manager::OnceInitCell<LS, i64>>(),
        Ty::OOLS => TypeId::of::<assets_manager::OnceInitCell<Option<LS>, i64>>(),
        _ => unreachable!(),
    };
    t.hash(&mut h);
    id.hash(&mut h);
    h.finish()
}

/// same shard (4 or 64 shards) and same control-byte tag (top 7 bits)
fn collide(a: Ty, b: Ty, id: &str, seed: u64) -> bool {
    let (x, y) = (full_hash(a, id, seed), full_hash(b, id, seed));
    (x & 63) == (y & 63) && (x >> 57) == (y >> 57)
}

fn ops_for(t: Ty) -> Vec<Move> {
    let n = format!("{t:?}");
    let mut v = vec![];
    if matches!(t, Ty::L | Ty::LS | Ty::V) {
        v.push(mv(&format!("goi {n}"), &[&format!("goi {n} k 7{}", n.len())]));
    }
    if t != Ty::V {
        v.push(mv(&format!("load {n}"), &[&format!("load {n} k")]));
    }
    v.push(mv(&format!("remove {n}"), &[&format!("remove {n} k")]));
    v.push(mv(&format!("take {n}"), &[&format!("take {n} k")]));
    v
}

pub fn run(args: &Args) -> SubResult {
    let mut res = SubResult::new("C02", "c02_seeds");
    let thorough = args.thorough();
    let types = [Ty::L, Ty::LS, Ty::V, Ty::L2, Ty::P, Ty::ALS];
    let mut cases: Vec<(Ty, Ty, u64, bool, &str)> = vec![];
    let mut n_coll = 0;
    for i in 0..types.len() {
        for j in (i + 1)..types.len() {
            let (a, b) = (types[i], types[j]);
            let mut coll = vec![];
            let mut free = None;
            for seed in 0..200_000u64 {
                if collide(a, b, "k", seed) {
                    coll.push(seed);
                    if coll.len() >= if thorough { 3 } else { 1 } {
                        break;
                    }
                } else if free.is_none() {
                    free = Some(seed);
                }
            }
            n_coll += coll.len();
            for s in coll {
                for ctor in ["nohot", "hot"] {
                    cases.push((a, b, s, true, ctor));
                }
            }
            if let Some(s) = free {
                cases.push((a, b, s, false, "nohot"));
            }
        }
    }
    res.bound = format!("all 15 pairs of 6 types under one id; per pair {} hash seed(s) (found by search over the shim hasher) that put both keys in the same shard with the same 7-bit tag, plus one non-colliding seed; every history of depth <= 3 over get_or_insert / load / remove / take of the two keys (+ clear), caches with and without reloader; {} colliding (pair, seed) cases", if thorough { 3 } else { 1 }, n_coll);
    res.rule = "explicit-state search (history replayed on a fresh real cache built with the chosen seed); oracle after every op: presence of every (type, id) equals a plain set model, returned values, pinned values; a panic of the cache (wrong handle type) is a violation; distinct = distinct (pair, seed, canonical state, observations)".into();
    res.note("colliding_pair_seeds", serde_json::json!(n_coll));
    let total = cases.len();
    vcommon::run_cases(args, res, total, std::time::Duration::from_secs(600), |idx, res| {
        let (a, b, seed, _coll, ctor) = cases[idx];
        let mut moves = ops_for(a);
        moves.extend(ops_for(b));
        moves.push(mv("clear", &["clear"]));
        let cfg = HCfg {
            ctor: ctor.into(),
            seed,
            with_other: false,
            leaves: vec!["k".into()],
            nodes: vec![],
            dirs: vec![],
            files: vec!["k.l=1".into(), "k.m=2".into(), "k.p=3".into()],
            check_c05: false,
            check_c06: false,
            check_c10: true,
            check_ledger: true,
            check_presence: true,
        };
        let s = Search { harness: "c02_seeds", cfg, init: vec![], moves: vec![moves], depth: 3, dedup: false, max_hist: 0 };
        run_search(res, &s);
    })
}
