//! C13 (layout part on the reloader thread): a reload swaps the stored value byte-wise
//! (`swap_any`); zero-sized, 1-byte, heap-owning and 64-byte-aligned values must each be replaced
//! and the old one dropped exactly once, through every later removal path.
use crate::mem::Mem;
use assets_manager::{loader, source::OwnedDirEntry, Asset, AssetCache};
use detsched as ds;
use serde_json::json;
use std::sync::atomic::{AtomicI64, Ordering};
use vcommon::{Args, SubResult};

static MADE: [AtomicI64; 4] = [AtomicI64::new(0), AtomicI64::new(0), AtomicI64::new(0), AtomicI64::new(0)];
static GONE: [AtomicI64; 4] = [AtomicI64::new(0), AtomicI64::new(0), AtomicI64::new(0), AtomicI64::new(0)];

macro_rules! ty {
    ($name:ident, $idx:expr, $ext:expr, $def:item, $mk:expr, $sig:expr) => {
        $def
        impl From<i64> for $name {
            fn from(v: i64) -> Self {
                MADE[$idx].fetch_add(1, Ordering::SeqCst);
                let f: fn(i64) -> $name = $mk;
                f(v)
            }
        }
        impl Drop for $name {
            fn drop(&mut self) {
                GONE[$idx].fetch_add(1, Ordering::SeqCst);
            }
        }
        impl Asset for $name {
            const EXTENSION: &'static str = $ext;
            type Loader = loader::LoadFrom<i64, loader::ParseLoader>;
        }
        impl Sig for $name {
            const IDX: usize = $idx;
            fn sig(&self) -> String {
                let f: fn(&$name) -> String = $sig;
                f(self)
            }
        }
    };
}
trait Sig {
    const IDX: usize;
    fn sig(&self) -> String;
}
ty!(Z, 0, "z", pub struct Z;, |_| Z, |_| "Z".to_string());
ty!(U1, 1, "u", pub struct U1(u8);, |v| U1(v as u8), |x| format!("{}", x.0));
ty!(H, 2, "h", pub struct H(String);, |v| H(format!("heap-{v}-{}", "x".repeat(v as usize))), |x| x.0.clone());
ty!(A64, 3, "a", #[repr(align(64))] pub struct A64([i64; 3]);, |v| A64([v, v + 1, v + 2]), |x| format!("{:?}@{}", x.0, (x as *const A64 as usize) % 64));

fn scenario<T: Asset + Sig>(res: &mut SubResult, ext: &'static str, path: &'static str, reloads: usize) {
    let name = std::any::type_name::<T>().rsplit("::").next().unwrap().to_string();
    let out: std::sync::Arc<std::sync::Mutex<Vec<String>>> = Default::default();
    let o2 = out.clone();
    let made0 = MADE[T::IDX].load(Ordering::SeqCst);
    let gone0 = GONE[T::IDX].load(Ordering::SeqCst);
    let r = ds::run_one(&[], &ds::Config::default(), move || {
        let mut log = vec![];
        let m = Mem::new(true);
        m.put("k", ext, "1");
        m.put("j", ext, "5");
        let mut c = AssetCache::with_source(m.clone());
        ds::adopt(1, "reloader");
        log.push(format!("load {}", c.load::<T>("k").map(|h| h.read().sig()).unwrap_or("ERR".into())));
        let _ = c.load::<T>("j");
        for i in 0..reloads {
            m.put("k", ext, &format!("{}", 2 + i));
            m.ev(OwnedDirEntry::File("k".into(), ext.into()));
            ds::quiesce();
            let live_before = MADE[T::IDX].load(Ordering::SeqCst) - GONE[T::IDX].load(Ordering::SeqCst);
            c.hot_reload();
            let live_after = MADE[T::IDX].load(Ordering::SeqCst) - GONE[T::IDX].load(Ordering::SeqCst);
            let h = c.get_cached::<T>("k").unwrap();
            log.push(format!("reload{i} value={} id={:?} live {live_before}->{live_after}", h.read().sig(), h.last_reload_id()));
        }
        match path {
            "remove" => log.push(format!("remove {}", c.remove::<T>("k"))),
            "take" => {
                let v = c.take::<T>("k");
                log.push(format!("take {}", v.as_ref().map(|v| v.sig()).unwrap_or("-".into())));
                drop(v);
            }
            "clear" => c.clear(),
            _ => {}
        }
        ds::quiesce();
        drop(c);
        *o2.lock().unwrap() = log;
    });
    let log = out.lock().unwrap().clone();
    let made = MADE[T::IDX].load(Ordering::SeqCst) - made0;
    let gone = GONE[T::IDX].load(Ordering::SeqCst) - gone0;
    res.evaluations += 1;
    res.transitions += (3 + reloads) as u64;
    res.states += r.steps as u64;
    res.outcome(&(&name, path, reloads, &log));
    let what = json!({"engine": "sysmc", "harness": "c13_layouts", "type": name, "path": path, "reloads": reloads});
    let mut bad: Option<String> = None;
    if r.verdict != ds::Verdict::Ok || r.panicked.is_some() {
        bad = Some(format!("verdict {:?} panic {:?}", r.verdict, r.panicked));
    }
    for (i, l) in log.iter().enumerate() {
        if let Some(rest) = l.strip_prefix(&format!("reload{} ", i.wrapping_sub(1))) {
            // value must be the new one, alignment respected, id = i, live count unchanged by the pass
            // (which id a reload gets is C06's business, not C13's)
            if !rest.ends_with("live 2->2") || (name == "A64" && !rest.contains("@0 ")) {
                bad = Some(format!("after reload {i}: {rest}"));
            }
            let v = 1 + i as i64;
            let want = match name.as_str() {
                "Z" => "Z".to_string(),
                "U1" => format!("{v}"),
                "H" => format!("heap-{v}-{}", "x".repeat(v as usize)),
                _ => format!("[{}, {}, {}]", v, v + 1, v + 2),
            };
            if !rest.contains(&format!("value={want}")) {
                bad = Some(format!("after reload {i}: expected value {want}, got: {rest}"));
            }
        }
    }
    if made != gone {
        bad = Some(format!("{made} values created, {gone} dropped after the cache was dropped; log {log:?}"));
    }
    if let Some(b) = bad {
        res.violation(format!("c13_layouts:{name}:{path}"), format!("{b} ({reloads} reloads)"), what);
    }
    if res.samples.len() < 3 {
        res.sample(json!({"type": name, "path": path, "reloads": reloads, "log": log}));
    }
}

// ------------------------------------------------------------------------------------------------
// schedules: a value is removed / taken / cleared / dropped with its cache right after hot_reload
// returned -- "never while a handle or read guard can still reach it" includes the reloader's own
// handle: whatever the reloader thread was doing when hot_reload returned, every value is dropped
// exactly once and nothing is touched after it was freed

pub fn mk_removal(p: &serde_json::Value) -> std::sync::Arc<crate::util::Mk> {
    let path = p["path"].as_str().unwrap().to_string();
    let calls = p["calls"].as_u64().unwrap_or(1) as usize;
    std::sync::Arc::new(move || {
        let path = path.clone();
        Box::new(move || {
            let made0 = MADE[2].load(Ordering::SeqCst);
            let gone0 = GONE[2].load(Ordering::SeqCst);
            let m = Mem::new(true);
            m.put("k", "h", "1");
            let mut c = AssetCache::with_source(m.clone());
            ds::adopt(1, "reloader");
            let v0 = c.load::<H>("k").map(|h| h.read().sig()).unwrap_or("ERR".into());
            ds::log(format!("load {v0}"));
            m.put("k", "h", "2");
            m.ev(OwnedDirEntry::File("k".into(), "h".into()));
            ds::quiesce();
            for _ in 0..calls {
                c.hot_reload();
            }
            match path.as_str() {
                "remove" => ds::log(format!("remove {}", c.remove::<H>("k"))),
                "take" => {
                    let v = c.take::<H>("k");
                    ds::log(format!("take {}", v.as_ref().map(|v| v.sig()).unwrap_or("-".into())));
                    drop(v);
                }
                "clear" => c.clear(),
                "read" => ds::log(format!("read {}", c.get_cached::<H>("k").map(|h| h.read().sig()).unwrap_or("-".into()))),
                _ => {}
            }
            // let the reloader finish whatever it still has to do, with the entry gone
            ds::quiesce();
            drop(c);
            ds::quiesce();
            ds::log(format!("made {} dropped {}", MADE[2].load(Ordering::SeqCst) - made0, GONE[2].load(Ordering::SeqCst) - gone0));
        })
    })
}
pub fn judge_removal(r: &ds::RunResult) -> Option<(String, String)> {
    let last = r.log.last().cloned().unwrap_or_default();
    let nums: Vec<i64> = last.split_whitespace().filter_map(|t| t.parse().ok()).collect();
    if !last.starts_with("made ") || nums.len() != 2 {
        return Some(("incomplete".into(), format!("the execution did not reach its end: log {:?}", r.log)));
    }
    if nums[0] != nums[1] {
        return Some(("drop-count".into(), format!("{} values were created and {} dropped by the time the cache and the reloader were gone; log {:?}", nums[0], nums[1], r.log)));
    }
    for l in &r.log {
        if (l.starts_with("take ") || l.starts_with("read ")) && !(l.ends_with("heap-2-xx") || l.ends_with("heap-1-x")) {
            return Some(("torn-or-freed-value".into(), format!("a value read after hot_reload returned is neither the old nor the new one: {l}")));
        }
    }
    None
}

pub fn run(args: &Args) -> SubResult {
    let mut res = run_default(args);
    let thorough = args.thorough();
    for path in ["remove", "take", "clear", "drop", "read"] {
        for calls in [1usize, 2] {
            let params = json!({"path": path, "calls": calls});
            let mk = mk_removal(&params);
            let mut e = crate::util::Exp { res: &mut res, harness: "c13_removal", params, bound: if thorough { 3 } else { 2 }, max_exec: if thorough { 200_000 } else { 4000 }, cfg: ds::Config::default() };
            e.run(&*mk, &mut |r| judge_removal(r));
        }
    }
    res.bound += " || schedules: load; edit; notify; quiesce; hot_reload x1..2; then remove / take / clear / drop of the cache / read, every schedule with <= 2 (thorough 3) deviations (preemptions, time-outs firing)";
    res
}

fn run_default(_args: &Args) -> SubResult {
    let mut res = SubResult::new("C13", "c13_layouts");
    res.bound = "asset types {zero-sized, 1 byte, heap-owning, 64-byte aligned} x 0..3 reloads on the real reloader thread x removal path {remove, take, clear, cache drop}".into();
    res.rule = "exhaustive product under detsched's default schedule with quiescence barriers; oracle: value and alignment after each byte-wise swap, reload id, live-count unchanged by a pass (old value dropped exactly once), created == dropped at the end".into();
    for path in ["drop", "remove", "take", "clear"] {
        for reloads in 0..=3 {
            scenario::<Z>(&mut res, "z", path, reloads);
            scenario::<U1>(&mut res, "u", path, reloads);
            scenario::<H>(&mut res, "h", path, reloads);
            scenario::<A64>(&mut res, "a", path, reloads);
        }
    }
    res
}
