//! C15 — the reloader is quiet when idle and goes away with its cache.
use crate::mem::Mem;
use crate::util::{Exp, Mk};
use assets_manager::{source::OwnedDirEntry, AssetCache};
use detsched as ds;
use serde_json::{json, Value};
use std::sync::{Arc, Mutex};
use vcommon::{Args, SubResult};

fn tmp_root() -> std::path::PathBuf {
    let d = std::env::temp_dir().join(format!("c15fs-{}", std::process::id()));
    let _ = std::fs::create_dir_all(d.join("sub"));
    let _ = std::fs::write(d.join("k.txt"), "v1");
    d
}

fn state_tag(name: &str) -> String {
    match ds::thread_state(name) {
        ds::ThState::Finished => "finished".into(),
        ds::ThState::Blocked(op) => format!("blocked:{}", format!("{op:?}").split('(').next().unwrap()),
        ds::ThState::Enabled(op) => format!("enabled:{op:?}"),
        ds::ThState::Running => "running".into(),
        ds::ThState::Unknown => "unknown".into(),
    }
}

pub fn mk_lifecycle(p: &Value) -> Arc<Mk> {
    let kind = p["kind"].as_str().unwrap().to_string();
    let ops: Vec<String> = p["ops"].as_array().unwrap().iter().map(|v| v.as_str().unwrap().to_string()).collect();
    let cycles = p["cycles"].as_u64().unwrap_or(1) as usize;
    let unnameable_late = p["unnameable_late"].as_bool().unwrap_or(false);
    Arc::new(move || {
        let kind = kind.clone();
        let ops = ops.clone();
        Box::new(move || {
            notify::stub_reset();
            for cyc in 0..cycles {
                let name = format!("reloader{cyc}");
                let ext: Arc<Mutex<Option<assets_manager::hot_reloading::EventSender>>> = Arc::new(Mutex::new(None));
                enum C {
                    M(AssetCache<Mem>, Mem),
                    F(AssetCache<assets_manager::source::FileSystem>, std::path::PathBuf),
                }
                let c = match kind.as_str() {
                    "fs" => {
                        let root = tmp_root();
                        let c = AssetCache::new(&root).unwrap();
                        C::F(c, root)
                    }
                    k => {
                        let m = Mem::new(true);
                        if k == "mem_ext" {
                            *m.0.ext_tx.lock().unwrap() = Some(ext.clone());
                        }
                        if k == "mem_drop" {
                            m.0.drop_sender.store(true, std::sync::atomic::Ordering::SeqCst);
                        }
                        m.put("k", "txt", "v1");
                        C::M(AssetCache::with_source(m.clone()), m)
                    }
                };
                ds::adopt(1, &name);
                for op in &ops {
                    match (op.as_str(), &c) {
                        ("load", C::M(c, _)) => drop(c.load::<String>("k").unwrap()),
                        ("load", C::F(c, _)) => drop(c.load::<String>("k").unwrap()),
                        ("hot_reload", C::M(c, _)) => c.hot_reload(),
                        ("hot_reload", C::F(c, _)) => c.hot_reload(),
                        ("event", C::M(_, m)) => {
                            m.put("k", "txt", "v2");
                            m.ev(OwnedDirEntry::File("k".into(), "txt".into()));
                        }
                        ("event", C::F(_, root)) => {
                            let p = root.join("k.txt");
                            std::fs::write(&p, "v2").unwrap();
                            notify::stub_inject(cyc, notify::Event { kind: notify::EventKind::Modify(notify::ModifyKind::Data(notify::event::DataChange::Any)), paths: vec![p], attrs: Default::default() });
                        }
                        ("drop_sender", C::M(_, _)) => {
                            // the source's watcher goes away while the cache lives
                            *ext.lock().unwrap() = None;
                        }
                        ("quiesce", _) => {
                            ds::quiesce();
                            let s = state_tag(&name);
                            ds::log(format!("idle {name} {s}"));
                        }
                        _ => {}
                    }
                }
                let survivor = match c {
                    C::M(c, m) => {
                        drop(c);
                        Some(m)
                    }
                    C::F(c, _) => {
                        drop(c);
                        None
                    }
                };
                ds::quiesce();
                ds::log(format!("after-drop {name} {}", state_tag(&name)));
                // "sleeps for good": whatever can still send events must not wake the reloader up
                let steps = ds::thread_steps(&name);
                if let Some(m) = &survivor {
                    m.ev(OwnedDirEntry::File("k".into(), "txt".into()));
                    ds::quiesce();
                    ds::log(format!("late-event {name} woke={}", ds::thread_steps(&name) - steps));
                }
                drop(survivor);
                if kind == "fs" {
                    // a later filesystem event is what lets the watcher notice the reloader is gone
                    // the late activity is either on an asset file or on a path that maps to no id at all
                    let p = if unnameable_late { tmp_root().join(".cache.d").join("state.tmp.1") } else { tmp_root().join("k.txt") };
                    notify::stub_inject(cyc, notify::Event { kind: notify::EventKind::Modify(notify::ModifyKind::Data(notify::event::DataChange::Any)), paths: vec![p], attrs: Default::default() });
                    ds::quiesce();
                    ds::log(format!("after-late-event {name} {}", state_tag(&name)));
                    // ... and so must an event for a path that maps to no asset id (a dotted name):
                    // the watcher of a dropped cache has to notice that nobody listens any more
                                        ds::log(format!("watcher {name} alive-after-late-event={}", notify::stub_alive(cyc)));
                    ds::log(format!("late-event {name} woke={}", ds::thread_steps(&name) - steps));
                }
                drop(ext);
            }
        })
    })
}

pub fn judge_lifecycle(r: &ds::RunResult) -> Option<(String, String)> {
    for l in &r.log {
        // idle = blocked in whatever the thread waits with (a select, a plain receive, a condition
        // variable, a parked thread ...); enabled or running is what costs CPU
        if l.starts_with("idle ") && !(l.contains(" blocked:") || l.ends_with("finished")) {
            return Some(("busy-when-idle".into(), format!("reloader is not blocked while nothing changes: {l}")));
        }
        if l.starts_with("watcher ") && l.ends_with("alive-after-late-event=true") {
            return Some(("watcher-not-released".into(), format!("the filesystem watcher of a dropped cache survives later activity in the directory (its thread and inotify instance accumulate): {l}")));
        }
        if l.starts_with("late-event ") && !l.ends_with("woke=0") {
            return Some(("woken-after-drop".into(), format!("the reloader of a dropped cache still reacts to events (it does not sleep for good): {l}")));
        }
        if l.starts_with("after-drop ") && !(l.ends_with("finished") || l.contains("blocked:")) {
            return Some(("alive-after-drop".into(), format!("reloader neither exited nor sleeps after its cache was dropped: {l}")));
        }
    }
    None
}

pub fn lifecycle(args: &Args) -> SubResult {
    let mut res = SubResult::new("C15", "c15_lifecycle");
    let thorough = args.thorough();
    res.bound = format!("1..{} create/use/drop cycles x source kinds {{sender inside source, sender held externally (and dropped mid-way), sender dropped at configuration, FileSystem over notify stub}} x every sequence of <= {} ops from {{load, hot_reload, event, quiesce, drop_sender}} then drop, then a late event through whatever sender survives; preemption bound 1 (+ both Select::ready choices)", if thorough { 3 } else { 2 }, if thorough { 3 } else { 2 });
    res.rule = "every op sequence x every schedule within the bound; violation = spin verdict (sole enabled thread, recurring world) or reloader enabled when it must be idle".into();
    let alphabet = ["load", "hot_reload", "event", "quiesce", "drop_sender"];
    let maxlen = if thorough { 3 } else { 2 };
    let mut seqs: Vec<Vec<&str>> = vec![vec![]];
    let mut frontier: Vec<Vec<&str>> = vec![vec![]];
    for _ in 0..maxlen {
        let mut next = vec![];
        for s in &frontier {
            for a in alphabet {
                let mut t = s.clone();
                t.push(a);
                next.push(t);
            }
        }
        seqs.extend(next.iter().cloned());
        frontier = next;
    }
    let mut cases = vec![];
    for kind in ["mem_in", "mem_ext", "mem_drop", "fs"] {
        for s in &seqs {
            if s.contains(&"drop_sender") && kind != "mem_ext" {
                continue;
            }
            for cycles in 1..=(if thorough { 3 } else { 2 }) {
                if cycles > 1 && s.len() > 2 {
                    continue;
                }
                cases.push(json!({"kind": kind, "ops": s, "cycles": cycles}));
                if kind == "fs" {
                    cases.push(json!({"kind": kind, "ops": s, "cycles": cycles, "unnameable_late": true}));
                }
            }
        }
    }
    let total = cases.len();
    vcommon::run_cases(args, res, total, std::time::Duration::from_secs(if thorough { 1800 } else { 300 }), |idx, res| {
        let p = &cases[idx];
        let mk = mk_lifecycle(p);
        let mut e = Exp { res, harness: "c15_lifecycle", params: p.clone(), bound: 1, max_exec: 5000, cfg: ds::Config { writer_pref: false, horizon: 4000, record_ops: false } };
        e.run(&*mk, &mut |r| judge_lifecycle(r));
    })
}
