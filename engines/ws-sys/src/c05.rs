//! C05 (convergence) and C06 (precision, exactly-once reporting): explicit-state search over
//! hrworld histories: every DAG of scripted nodes from a menu x every sequence of rounds of edits,
//! each round notified in several ways, then `hot_reload` (or by itself in static mode).
use crate::hr::HCfg;
use crate::hsearch::{run_search, Move, Search};
use vcommon::{Args, SubResult};

fn base_files() -> Vec<String> {
    ["l0.l=1", "l1.l=2", "f.m=3", "f.l=4", "d.a.l=5", "d.b.l=6", "d.sub.c.l=7"].iter().map(|s| s.to_string()).collect()
}

pub fn worlds(thorough: bool) -> Vec<(Vec<String>, [String; 3])> {
    let m3: Vec<&str> = if thorough { vec!["L:l0", "L:l1", "L:l0 L:l1", "C:l1", "O:l1", "D:d", "M:f", "R:d", "G:l0"] } else { vec!["L:l0", "D:d", "M:f", "C:l1", "G:l0"] };
    let m2: Vec<&str> = if thorough { vec!["L:l1", "N:n3", "N:n3 L:l0", "O:l1", "N:n3 C:l0", "D:d", "M:f", "L:l0"] } else { vec!["L:l1", "N:n3", "N:n3 L:l0", "O:l1"] };
    let m1: Vec<&str> = if thorough { vec!["N:n2", "N:n2 N:n3", "L:l0 L:l1", "N:n3", "N:n2 L:l1", "C:l0 N:n2", "R:d N:n2"] } else { vec!["N:n2", "N:n2 N:n3", "L:l0 L:l1"] };
    let mut out = vec![];
    for a in &m1 {
        for b in &m2 {
            for c in &m3 {
                let mut f = base_files();
                f.push(format!("n1.n={a}"));
                f.push(format!("n2.n={b}"));
                f.push(format!("n3.n={c}"));
                out.push((f, [a.to_string(), b.to_string(), c.to_string()]));
            }
        }
    }
    out
}

struct Edit {
    name: String,
    ops: Vec<String>,
    entries: Vec<String>,
}

fn edits(round: usize, thorough: bool) -> Vec<Edit> {
    let r = round + 1;
    let e = |name: &str, ops: &[String], entries: &[&str]| Edit { name: name.into(), ops: ops.to_vec(), entries: entries.iter().map(|s| s.to_string()).collect() };
    let mut v = vec![
        e("l0=new", &[format!("put l0.l {r}1")], &["F:l0.l"]),
        e("l1=garbage", &["put l1.l zz".to_string()], &["F:l1.l"]),
        e("l1=new", &[format!("put l1.l {r}2")], &["F:l1.l"]),
        e("l0=deleted", &["del l0.l".to_string()], &["F:l0.l"]),
        e("f.m=deleted", &["del f.m".to_string()], &["F:f.m"]),
        e("f.m=new", &[format!("put f.m {r}3")], &["F:f.m"]),
        e("f.l=new", &[format!("put f.l {r}4")], &["F:f.l"]),
        e("d+=c", &[format!("put d.c.l {r}5")], &["D:d", "F:d.c.l"]),
        e("d-=a", &["del d.a.l".to_string()], &["D:d"]),
    ];
    let rew: Vec<(&str, Vec<&str>)> = if thorough {
        vec![("n1", vec!["N:n2", "L:l0", "N:n3", "N:n2 N:n3", "C:l1"]), ("n2", vec!["N:n3", "L:l1", "L:l0", "O:l0"]), ("n3", vec!["L:l0", "L:l1", "D:d"])]
    } else {
        vec![("n1", vec!["N:n2", "L:l0", "N:n3"]), ("n2", vec!["N:n3", "L:l1"]), ("n3", vec!["L:l0", "L:l1"])]
    };
    for (n, scripts) in rew {
        for s in scripts {
            v.push(Edit { name: format!("{n}:={s}"), ops: vec![format!("put {n}.n {s}")], entries: vec![format!("F:{n}.n")] });
        }
    }
    v
}

/// Notification modes: singly; one batch; batch with duplicates and unrelated / unknown noise.
fn notify_ops(entries: &[String], mode: usize) -> Vec<String> {
    match mode {
        0 => entries.iter().map(|e| format!("ev {e}")).collect(),
        1 => vec![format!("evb {}", entries.join(","))],
        _ => {
            let mut v: Vec<String> = vec![];
            for e in entries {
                v.push(e.clone());
                v.push(e.clone());
            }
            v.insert(1, "F:zz.l".into());
            v.push("D:nowhere".into());
            v.push("F:l0.txt".into());
            vec![format!("evb {}", v.join(","))]
        }
    }
}

pub fn round_moves(round: usize, thorough: bool, pairs: bool, static_mode: bool, c06_extras: bool) -> Vec<Move> {
    let es = edits(round, thorough);
    let mut out = vec![];
    let fin: Vec<String> = if static_mode { vec![] } else { vec!["hr".to_string()] };
    for e in &es {
        for mode in [0usize, 2] {
            let mut ops = e.ops.clone();
            ops.extend(notify_ops(&e.entries, mode));
            ops.extend(fin.iter().cloned());
            out.push(Move { name: format!("{}|m{mode}", e.name), ops });
        }
    }
    if pairs {
        for i in 0..es.len() {
            for j in (i + 1)..es.len() {
                // two edits of the same file in one round collapse to the second: skip same-target pairs
                if es[i].entries.last() == es[j].entries.last() {
                    continue;
                }
                for mode in [0usize, 1, 2] {
                    let mut ops = es[i].ops.clone();
                    ops.extend(es[j].ops.iter().cloned());
                    let mut entries = es[i].entries.clone();
                    entries.extend(es[j].entries.iter().cloned());
                    ops.extend(notify_ops(&entries, mode));
                    ops.extend(fin.iter().cloned());
                    out.push(Move { name: format!("{}+{}|m{mode}", es[i].name, es[j].name), ops });
                }
            }
        }
    }
    if !static_mode {
        // enhance_hot_reloading called while notified changes are still pending (no hot_reload in between):
        // "or by itself after enhance_hot_reloading" -- the switch itself must apply them
        for e in &es {
            let mut ops = e.ops.clone();
            ops.extend(notify_ops(&e.entries, 0));
            ops.push("static".into());
            out.push(Move { name: format!("{}|late-enhance", e.name), ops });
        }
    }
    if static_mode {
        // after enhance_hot_reloading, hot_reload is documented to have no effect: it must still return
        out.push(Move { name: "static-hot_reload".into(), ops: vec![format!("put l0.l {}7", round + 1), "ev F:l0.l".into(), "hr".into(), "hr".into()] });
    }
    if c06_extras {
        // an edit that is never notified; unrelated/unknown notifications only; two passes in a row
        out.push(Move { name: "silent-edit".into(), ops: vec![format!("put l0.l {}9", round + 1), "hr".into()] });
        out.push(Move { name: "noise-only".into(), ops: vec!["evb F:zz.l,D:nowhere,F:l0.txt,F:n1.l".into(), "hr".into()] });
        out.push(Move { name: "two-passes".into(), ops: vec![format!("put l1.l {}8", round + 1), "ev F:l1.l".into(), "hr".into(), "hr".into()] });
        out.push(Move { name: "silent-rewire".into(), ops: vec!["put n2.n L:l0".into(), "hr".into()] });
    }
    out
}

fn cfg_for(files: Vec<String>, seed: u64, c05: bool, c06: bool) -> HCfg {
    HCfg {
        ctor: "hot".into(),
        seed,
        with_other: false,
        leaves: vec!["l0".into(), "l1".into(), "f".into(), "d.a".into(), "d.b".into(), "d.c".into()],
        nodes: vec!["n1".into(), "n2".into(), "n3".into()],
        dirs: vec!["d".into(), "d.sub".into()],
        files,
        check_c05: c05,
        check_c06: c06,
        check_c10: false,
        check_ledger: true,
            check_presence: false,
    }
}

pub fn run(args: &Args, which: &str) -> SubResult {
    let c06 = which == "c06_precise";
    let mut res = SubResult::new(if c06 { "C06" } else { "C05" }, which);
    let thorough = args.thorough();
    let ws = worlds(thorough);
    let seeds: Vec<u64> = if thorough { vec![0, 5, 4, 7] } else { vec![0, 5] };
    res.bound = format!(
        "{} initial dependency graphs (3 scripted nodes from menus, 2 leaves + fall-back leaf + directory) x hash seeds {:?} x rounds: depth 1 = every 1- and 2-edit round x {{single events, one batch, batch with duplicates+noise}}, depth 2 = every single-edit round after every {} round; hot_reload mode and enhance_hot_reloading mode; quiescence barrier after every operation; C06 additionally: an orphan-entry world (raw file reads, rewiring, late first load) to depth 5/6",
        ws.len(), seeds, if thorough { "first" } else { "single-edit first" }
    );
    res.rule = "explicit-state search: state = history re-executed on a fresh real cache under detsched (default schedule + quiesce barrier); canonical state = (source map, cached values, model dependency graph); oracle after every pass = reference evaluator on current source and current real cache; distinct = distinct (canonical state, observations)".into();
    // cases: (world, seed, mode)
    let mut cases = vec![];
    for (wi, _) in ws.iter().enumerate() {
        for (si, s) in seeds.iter().enumerate() {
            // every world with the first seed; the other seeds on a rotating subset (quick) or all (thorough)
            if si > 0 && !thorough && (wi + args.seed as usize) % 3 != 0 {
                continue;
            }
            cases.push((wi, *s, false));
        }
        if thorough || (wi + args.seed as usize) % 4 == 0 {
            cases.push((wi, 0, true));
        }
    }
    // orphan-entry world (C06 only): raw file reads make it possible for an entry to stay known to the
    // reloader while nothing depends on it any more; a notification for it must be consumed by the
    // next pass and never resurface when some asset starts reading that entry later
    let orphan_moves: Vec<Move> = vec![
        Move { name: "t->r1".into(), ops: vec!["put t.n F:r1".into(), "ev F:t.n".into(), "hr".into()] },
        Move { name: "t->r0".into(), ops: vec!["put t.n F:r0".into(), "ev F:t.n".into(), "hr".into()] },
        Move { name: "r0!".into(), ops: vec!["put r0.r x1".into(), "ev F:r0.r".into(), "hr".into()] },
        Move { name: "r1!".into(), ops: vec!["put r1.r y1".into(), "ev F:r1.r".into(), "hr".into()] },
        Move { name: "load u".into(), ops: vec!["load N u".into()] },
        Move { name: "remove u".into(), ops: vec!["remove N u".into()] },
        Move { name: "hr".into(), ops: vec!["hr".into()] },
        Move { name: "r0 (no pass)".into(), ops: vec!["put r0.r x2".into(), "ev F:r0.r".into()] },
        // a key that is removed and loaded again under another script: the second incarnation must
        // be judged by what *it* recorded (edges of the first incarnation may not survive in the graph)
        Move { name: "u->r1 (silent)".into(), ops: vec!["put u.n F:r1".into()] },
        Move { name: "u->r0 (silent)".into(), ops: vec!["put u.n F:r0".into()] },
        Move { name: "take u".into(), ops: vec!["take N u".into()] },
    ];
    let n_orphan = if c06 { orphan_moves.len() } else { 0 };
    let total = cases.len() + n_orphan;
    let n_main = cases.len();
    vcommon::run_cases(args, res, total, std::time::Duration::from_secs(if thorough { 3400 } else { 400 }), |idx, res| {
        if idx >= n_main {
            // one worker per first move
            let first = idx - n_main;
            let cfg = HCfg {
                ctor: "hot".into(),
                seed: (first as u64 % 2) * 5,
                with_other: false,
                leaves: vec![],
                nodes: vec!["t".into(), "u".into()],
                dirs: vec![],
                files: vec!["r0.r=x0".into(), "r1.r=y0".into(), "t.n=F:r0".into(), "u.n=F:r0".into()],
                check_c05: true,
                check_c06: true,
                check_c10: false,
                check_ledger: true,
                check_presence: false,
            };
            let s = Search { harness: which, cfg, init: vec!["load N t".into()], moves: vec![vec![orphan_moves[first].clone()], orphan_moves.clone()], depth: if thorough { 6 } else { 5 }, dedup: true, max_hist: 0 };
            run_search(res, &s);
            return;
        }
        let (wi, seed, static_mode) = cases[idx];
        let (files, _) = &ws[wi];
        let cfg = cfg_for(files.clone(), seed, !c06, c06);
        let mut init: Vec<String> = vec!["load N n1".into(), "load N n2".into(), "load N n3".into()];
        if static_mode {
            init.push("static".into());
        }
        // depth-1: all rounds incl. pairs; depth-2: singles after (quick: singles / thorough: everything)
        let full = round_moves(0, thorough, true, static_mode, c06 && !static_mode);
        let s1 = Search { harness: which, cfg: cfg.clone(), init: init.clone(), moves: vec![full.clone()], depth: 1, dedup: false, max_hist: 0 };
        run_search(res, &s1);
        let deep_all = thorough || (wi + args.seed as usize) % 5 == 0;
        let first = if thorough { full } else { round_moves(0, false, false, static_mode, false) };
        if deep_all || !static_mode {
            let first = if deep_all { first } else { first.into_iter().step_by(3).collect() };
            let second = round_moves(1, thorough, false, static_mode, c06 && !static_mode);
            let s2 = Search { harness: which, cfg, init, moves: vec![first, second], depth: 2, dedup: true, max_hist: if thorough { 40_000 } else { 1500 } };
            run_search(res, &s2);
        }
    })
}

// ------------------------------------------------------------------------------------------------
// schedules: "the change has been notified" must be enough whatever the reloader was doing when
// the asset was loaded (messages of the cache are taken before events)

use crate::hr::{L, N};
use crate::mem::Mem;
use crate::util::{Exp, Mk};
use assets_manager::{source::OwnedDirEntry, AssetCache};
use detsched as ds;
use serde_json::{json, Value};
use std::sync::Arc;

pub fn mk_sched(p: &Value) -> Arc<Mk> {
    let variant = p["variant"].as_str().unwrap().to_string();
    let seed = p["seed"].as_u64().unwrap_or(0);
    let batch = p["batch"].as_bool().unwrap_or(false);
    Arc::new(move || {
        let variant = variant.clone();
        Box::new(move || {
            ahash::stub_set_seed(seed);
            crate::hr::ledger_reset();
            let m = Mem::new(true);
            m.put("k", "l", "1");
            m.put("j", "l", "2");
            m.put("j2", "l", "3");
            m.put("t", "n", "L:k");
            // the source may be handed to the cache through the std wrappers: hot-reloading must work the same
            if variant == "arc-source" {
                let cache: &'static AssetCache<Arc<Mem>> = Box::leak(Box::new(AssetCache::with_source(Arc::new(m.clone()))));
                return wrapped_body(cache, &m);
            }
            if variant == "box-source" {
                let cache: &'static AssetCache<Box<Mem>> = Box::leak(Box::new(AssetCache::with_source(Box::new(m.clone()))));
                return wrapped_body(cache, &m);
            }
            if variant == "ref-source" {
                let mr: &'static Mem = Box::leak(Box::new(m.clone()));
                let cache: &'static AssetCache<&'static Mem> = Box::leak(Box::new(AssetCache::with_source(mr)));
                return wrapped_body(cache, &m);
            }
            let cache: &'static AssetCache<Mem> = Box::leak(Box::new(AssetCache::with_source(m.clone())));
            ds::adopt(1, "reloader");
            let file = |id: &str| OwnedDirEntry::File(id.into(), "l".into());
            let mut expect: Vec<(String, String)> = vec![];
            match variant.as_str() {
                "leaf" | "static" | "traffic" | "node" | "two" => {
                    let traffic = if variant == "traffic" {
                        Some(ds::spawn("loader", move || {
                            let _ = cache.load::<L>("j");
                            let _ = cache.load::<L>("j2");
                        }))
                    } else {
                        None
                    };
                    if variant == "node" {
                        cache.load::<N>("t").unwrap();
                    } else {
                        cache.load::<L>("k").unwrap();
                    }
                    if variant == "two" {
                        cache.load::<L>("j").unwrap();
                    }
                    if variant == "static" {
                        cache.enhance_hot_reloading();
                    }
                    // the change is made and notified after the load call returned
                    m.put("k", "l", "11");
                    if variant == "two" {
                        m.put("j", "l", "12");
                        if batch {
                            m.ev_batch(vec![file("k"), file("j")]);
                        } else {
                            m.ev(file("k"));
                            m.ev(file("j"));
                        }
                        expect.push(("j".into(), "12".into()));
                    } else {
                        m.ev(file("k"));
                    }
                    expect.push(("k".into(), "11".into()));
                    if let Some(t) = traffic {
                        t.join().unwrap();
                    }
                    ds::quiesce();
                    if variant != "static" {
                        cache.hot_reload();
                    }
                    for (id, want) in &expect {
                        let got = cache.get_cached::<L>(id).map(|h| h.read().v.to_string()).unwrap_or("-".into());
                        ds::log(format!("value {id} got={got} want={want}"));
                    }
                    if variant == "node" {
                        let t = cache.get_cached::<N>("t").unwrap().read().text.clone();
                        ds::log(format!("value t got={t} want=L:k => L:k=11"));
                    }
                }
                _ => panic!("variant"),
            }
        })
    })
}

/// load; edit; notify; quiesce; hot_reload through a wrapped source
fn wrapped_body<S: assets_manager::source::Source + Sync>(cache: &'static AssetCache<S>, m: &Mem) {
    if !cache.as_any_cache().is_hot_reloaded() {
        ds::log("value k got=no-reloader want=11".to_string());
        return;
    }
    ds::adopt(1, "reloader");
    cache.load::<L>("k").unwrap();
    m.put("k", "l", "11");
    m.ev(OwnedDirEntry::File("k".into(), "l".into()));
    ds::quiesce();
    cache.hot_reload();
    let got = cache.get_cached::<L>("k").map(|h| h.read().v.to_string()).unwrap_or("-".into());
    ds::log(format!("value k got={got} want=11"));
}

pub fn judge_sched(r: &ds::RunResult) -> Option<(String, String)> {
    for l in &r.log {
        if let Some(rest) = l.strip_prefix("value ") {
            let got = rest.split(" got=").nth(1)?.split(" want=").next()?;
            let want = rest.split(" want=").nth(1)?;
            if got != want {
                return Some(("c05:notified-change-lost".into(), format!("the change was notified after the load returned and taken in before hot_reload, yet: {rest}")));
            }
        }
    }
    None
}

pub fn run_sched(args: &Args) -> SubResult {
    let mut res = SubResult::new("C05", "c05_sched");
    let thorough = args.thorough();
    let bound = if thorough { 3 } else { 2 };
    res.bound = format!("variants {{leaf, node over leaf, enhance_hot_reloading, two assets (single events / one batch), concurrent loader traffic, source handed over as Arc / Box / &'static}} x hash seeds 0,5: load; edit; notify; quiesce; hot_reload with NO barrier between the load and the notification; every schedule with <= {bound} preemptions and both Select::ready answers");
    res.rule = "every schedule within the bound; oracle: after the pass the cached value is the edited one; distinct = distinct (variant, observation log)".into();
    let mut cases = vec![];
    for v in ["leaf", "node", "static", "two", "traffic", "arc-source", "box-source", "ref-source"] {
        for seed in [0u64, 5] {
            for batch in [false, true] {
                if batch && v != "two" {
                    continue;
                }
                cases.push(json!({"variant": v, "seed": seed, "batch": batch}));
            }
        }
    }
    let total = cases.len();
    vcommon::run_cases(args, res, total, std::time::Duration::from_secs(if thorough { 3000 } else { 300 }), |idx, res| {
        let p = &cases[idx];
        let mk = mk_sched(p);
        let mut e = Exp { res, harness: "c05_sched", params: p.clone(), bound, max_exec: if thorough { 300_000 } else { 20_000 }, cfg: ds::Config { writer_pref: false, horizon: 0, record_ops: false } };
        e.run(&*mk, &mut |r| judge_sched(r));
    })
}
