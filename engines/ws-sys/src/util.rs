//! Exploration wrapper shared by the E1 harnesses.
use detsched as ds;
use serde_json::{json, Value};
use vcommon::SubResult;

pub type Mk = dyn Fn() -> Box<dyn FnOnce() + Send + 'static>;

pub fn verdict_violation(r: &ds::RunResult) -> Option<(String, String)> {
    match &r.verdict {
        ds::Verdict::Ok | ds::Verdict::Horizon => {}
        ds::Verdict::Deadlock(b) => {
            let mut parts: Vec<String> = b.iter().map(|(n, op)| format!("{}:{}", role(n), op.split('(').next().unwrap_or(op))).collect();
            parts.sort();
            parts.dedup();
            return Some((format!("deadlock[{}]", parts.join(",")), format!("deadlock: {b:?}")));
        }
        ds::Verdict::Spin(n) => return Some((format!("spin[{}]", role(n)), format!("thread {n} spins: it is the only enabled thread and the world state recurs"))),
        ds::Verdict::Monitor(m) => return Some((format!("monitor[{}]", m.split(':').next().unwrap_or(m)), m.clone())),
        ds::Verdict::Diverged(m) => {
            eprintln!("MACHINERY: replay divergence: {m}");
            std::process::exit(2);
        }
    }
    if let Some(p) = &r.panicked {
        return Some((format!("panic[{}]", p.split(':').next().unwrap_or(p)), format!("harness panicked: {p}")));
    }
    None
}

/// thread role = its name without trailing digits
pub fn role(n: &str) -> String {
    n.trim_end_matches(|c: char| c.is_ascii_digit()).to_string()
}

pub struct Exp<'a> {
    pub res: &'a mut SubResult,
    pub harness: &'a str,
    pub params: Value,
    pub bound: usize,
    pub max_exec: usize,
    pub cfg: ds::Config,
}

impl Exp<'_> {
    /// Explore all schedules of `mk` within the bound; `judge` inspects each complete execution
    /// (after the generic verdict check) and may return (key, description) of a violation.
    pub fn run(&mut self, mk: &Mk, judge: &mut dyn FnMut(&ds::RunResult) -> Option<(String, String)>) -> ds::Stats {
        let harness = self.harness.to_string();
        let params = self.params.clone();
        let cfg = self.cfg.clone();
        let mut found: Vec<(Vec<usize>, String, String)> = vec![];
        let mut n_samples = 0;
        let res = &mut *self.res;
        let stats = ds::explore(self.bound, self.max_exec, &cfg, mk, &mut |choices, r| {
            res.outcome(&(harness.as_str(), params.to_string(), &r.log, format!("{:?}", r.verdict)));
            if n_samples < 1 && res.samples.len() < 6 {
                n_samples += 1;
                res.sample(json!({"harness": harness, "params": params, "choices": choices, "preemptions": r.preemptions(), "log": r.log, "verdict": format!("{:?}", r.verdict)}));
            }
            let v = verdict_violation(r).or_else(|| judge(r));
            if let Some((key, desc)) = v {
                if !found.iter().any(|f| f.1 == key) {
                    found.push((choices.to_vec(), key, desc));
                }
                if found.len() >= 8 {
                    return false;
                }
            }
            true
        });
        res.states += stats.points as u64;
        res.transitions += stats.decisions as u64;
        res.evaluations += stats.executions as u64;
        if stats.capped {
            res.cap(format!("{harness}: execution cap {} hit", self.max_exec));
        }
        if stats.horizon_hits > 0 {
            res.cap(format!("{harness}: step horizon hit in {} executions", stats.horizon_hits));
        }
        for (choices, key, desc) in found {
            // trust but verify: the schedule must reproduce the same observation twice
            match ds::confirm(&choices, &cfg, mk) {
                Ok(r) => {
                    res.traces_validated += 2;
                    let again = verdict_violation(&r).or_else(|| judge(&r));
                    if again.as_ref().map(|a| &a.0) != Some(&key) {
                        eprintln!("MACHINERY: violation {key} of {harness} did not reproduce on replay ({again:?})");
                        std::process::exit(2);
                    }
                    res.violation(
                        format!("{harness}:{key}"),
                        format!("{desc} [preemptions={}]", r.preemptions()),
                        json!({"engine": "sysmc", "harness": harness, "params": params, "choices": choices, "writer_pref": cfg.writer_pref, "log": r.log}),
                    );
                }
                Err(e) => {
                    eprintln!("MACHINERY: {e}");
                    std::process::exit(2);
                }
            }
        }
        stats
    }
}
