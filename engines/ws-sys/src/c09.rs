//! C09 — faults while loading are contained: for every scenario, a fault at every source access
//! index (every io::ErrorKind of a representative set) and at every loader invocation (Err / panic),
//! during initial loads (caller thread) and during reloads (reloader thread), then repair + retry +
//! one edit round per file (which checks that dependency recording was restored).
use crate::hr::{run_history, HCfg};
use crate::hsearch::report;
use serde_json::json;
use vcommon::{Args, SubResult};

struct Scn {
    name: &'static str,
    files: Vec<&'static str>,
    loads: Vec<&'static str>,
    /// files the scenario reads (edited one by one at the end; also the entry-fault targets)
    touched: Vec<&'static str>,
}

fn scenarios() -> Vec<Scn> {
    vec![
        Scn { name: "S1-leaf", files: vec!["l0.l=1"], loads: vec!["load L l0"], touched: vec!["l0.l"] },
        Scn { name: "S1b-fallback-leaf", files: vec!["f.m=3", "f.l=4"], loads: vec!["load L2 f"], touched: vec!["f.m", "f.l"] },
        Scn { name: "S2-node-two-leaves", files: vec!["l0.l=1", "l1.l=2", "t.n=L:l0 L:l1"], loads: vec!["load N t"], touched: vec!["t.n", "l0.l", "l1.l"] },
        Scn { name: "S4-chain", files: vec!["l1.l=2", "m.n=L:l1", "t.n=N:m"], loads: vec!["load N t"], touched: vec!["t.n", "m.n", "l1.l"] },
        Scn { name: "S5-caught-nested-failure", files: vec!["l0.l=1", "l1.l=2", "t.n=l:l0 L:l1"], loads: vec!["load N t"], touched: vec!["t.n", "l0.l", "l1.l"] },
        Scn { name: "S6-dir", files: vec!["l0.l=1", "d.a.l=5", "t.n=D:d L:l0"], loads: vec!["load N t"], touched: vec!["t.n", "l0.l"] },
        Scn { name: "S7-panicking-leaf", files: vec!["b.p=7", "l0.l=1", "t.n=X:b L:l0"], loads: vec!["load N t"], touched: vec!["t.n", "b.p", "l0.l"] },
        Scn { name: "S8-caught-panic", files: vec!["b.p=7", "l1.l=2", "t.n=p:b L:l1"], loads: vec!["load N t"], touched: vec!["t.n", "b.p", "l1.l"] },
        Scn { name: "S14-panicking-leaf-and-independent-assets", files: vec!["b.p=7", "l0.l=1", "l1.l=2", "t.n=L:l1"], loads: vec!["load P b", "load L l0", "load N t"], touched: vec!["b.p", "l0.l", "l1.l", "t.n"] },
        Scn { name: "S15-wide-node", files: vec!["l0.l=1", "l1.l=2", "l9.l=9", "f.m=3", "f.l=4", "d.a.l=5", "m.n=L:l1 O:l9", "t.n=N:m L:l0 D:d M:f"], loads: vec!["load N t"], touched: vec!["t.n", "m.n", "l0.l", "l1.l", "l9.l", "f.m", "f.l"] },
        Scn { name: "S16-three-level-chain", files: vec!["l0.l=1", "m.n=L:l0", "t.n=N:m", "u.n=N:t l:nope"], loads: vec!["load N u"], touched: vec!["u.n", "t.n", "m.n", "l0.l"] },
        Scn { name: "S17-two-roots-sharing-a-leaf", files: vec!["l0.l=1", "l1.l=2", "t.n=L:l0 L:l1", "m.n=L:l0"], loads: vec!["load N t", "load N m"], touched: vec!["t.n", "m.n", "l0.l", "l1.l"] },
        Scn { name: "S9-recdir", files: vec!["d.a.l=5", "d.sub.c.l=7"], loads: vec!["load RecL d"], touched: vec![] },
        Scn { name: "S10-owned", files: vec!["l0.l=1"], loads: vec!["owned L l0"], touched: vec!["l0.l"] },
        Scn { name: "S12-two-owned-in-node", files: vec!["l0.l=1", "l1.l=2", "t.n=O:l0 O:l1"], loads: vec!["load N t"], touched: vec!["t.n", "l0.l", "l1.l"] },
        Scn { name: "S13-raw-reads", files: vec!["r0.r=a", "r1.r=b", "l0.l=1", "t.n=F:r0 O:l0 F:r1"], loads: vec!["load N t"], touched: vec!["t.n", "r0.r", "l0.l", "r1.r"] },
        Scn { name: "S11-owned-in-node", files: vec!["l0.l=1", "l1.l=2", "t.n=O:l0 L:l1"], loads: vec!["load N t"], touched: vec!["t.n", "l0.l", "l1.l"] },
    ]
}

const KINDS: [&str; 6] = ["NotFound", "PermissionDenied", "Interrupted", "UnexpectedEof", "InvalidData", "Other"];

fn cfg_for(s: &Scn, seed: u64) -> HCfg {
    HCfg {
        ctor: "hot".into(),
        seed,
        with_other: false,
        // (every file of a scenario is read by exactly one asset per pass, so a one-shot entry fault is unambiguous)
        leaves: vec!["l0".into(), "l1".into(), "l9".into(), "f".into(), "b".into(), "d.a".into(), "d.sub.c".into()],
        nodes: vec!["t".into(), "m".into(), "u".into()],
        dirs: vec!["d".into(), "d.sub".into()],
        files: s.files.iter().map(|x| x.to_string()).collect(),
        check_c05: true,
        check_c06: true,
        check_c10: true,
        check_ledger: true,
            check_presence: false,
    }
}

fn good(file: &str, n: usize) -> String {
    if file.ends_with(".n") {
        // touching a script: keep it, the notification alone must reload it
        String::new()
    } else {
        format!("put {file} {}", 40 + n)
    }
}

/// one edit round per touched file: checks that attribution (recording) is intact afterwards
fn tail(s: &Scn) -> Vec<String> {
    let mut v = vec![];
    for (i, f) in s.touched.iter().enumerate() {
        let g = good(f, i);
        if !g.is_empty() {
            v.push(g);
        }
        v.push(format!("ev F:{f}"));
        v.push("hr".into());
    }
    v
}

pub fn run(args: &Args) -> SubResult {
    let args = args.clone();
    let args = &args;
    let mut res = SubResult::new("C09", "c09_faults");
    let scs = scenarios();
    res.bound = format!("{} scenarios x (every source access index of the initial load x 6 io::ErrorKinds; every file made undecodable / panicking before the initial load; every file's read faulted x 6 kinds during a reload; every file made undecodable / panicking before a reload), each followed by repair, retry / re-notification, and one notified edit per file; thorough: also every pair (k, j) of fault positions on the first attempt and on the retry", scs.len());
    res.rule = "fault enumeration is exhaustive over access indices (counted on a fault-free run) and files of each scenario; executed on the real cache under detsched (reloads on the real reloader thread); oracle = reference evaluator with the same fault plan + deadlock/spin detection; distinct = distinct (canonical state, observations)".into();
    let total = scs.len();
    vcommon::run_cases(args, res, total, std::time::Duration::from_secs(300), |idx, res| {
        let s = &scs[idx];
        let cfg = cfg_for(s, ((idx as u64 + args.seed) % 2) * 5);
        let loads: Vec<String> = s.loads.iter().map(|x| x.to_string()).collect();
        let mut run = |res: &mut SubResult, ops: Vec<String>, what: String| {
            let r = run_history(&cfg, &ops, &[]);
            res.evaluations += 1;
            res.transitions += ops.len() as u64;
            res.states += r.steps as u64;
            res.outcome(&(s.name, &r.canon, &r.obs));
            if res.samples.len() < 2 {
                res.sample(json!({"scenario": s.name, "fault": what, "history": ops, "observations": r.obs}));
            }
            report(res, "c09_faults", &cfg, &ops, &r);
            r
        };
        // fault-free run: count accesses
        let mut ops0 = loads.clone();
        ops0.extend(tail(s));
        let _ = run(res, ops0, "none".into());
        // number of source accesses of the initial load, measured on the real source
        let n_access = {
            let cfg2 = cfg.clone();
            let loads2 = loads.clone();
            let out = std::sync::Arc::new(std::sync::Mutex::new(0usize));
            let o2 = out.clone();
            detsched::run_one(&[], &detsched::Config::default(), move || {
                let mut w = crate::hr::World::new(&cfg2);
                let before = w.mem.reads();
                for l in &loads2 {
                    w.step(l);
                }
                *o2.lock().unwrap() = w.mem.reads() - before;
                let _ = w.finish();
            });
            let n = *out.lock().unwrap();
            n
        };
        res.add_note_count("access_indices", n_access as u64);
        // A. index faults during the initial load
        for k in 0..n_access {
            for kind in KINDS {
                let mut ops = vec![format!("fault {k} {kind}")];
                ops.extend(loads.iter().cloned());
                ops.push("nofault".into());
                ops.extend(loads.iter().cloned()); // retry
                ops.extend(tail(s));
                run(res, ops, format!("initial load, access #{k} fails with {kind}"));
            }
        }
        // A2 (thorough). fault SEQUENCES: the first attempt faults at access k, the retry at access j,
        // the third attempt is clean
        if args.thorough() {
            for k in 0..n_access {
                for j in 0..n_access {
                    for kind in ["Other", "NotFound"] {
                        let mut ops = vec![format!("fault {k} {kind}")];
                        ops.extend(loads.iter().cloned());
                        ops.push("nofault".into());
                        ops.push(format!("fault {j} {kind}"));
                        ops.extend(loads.iter().cloned());
                        ops.push("nofault".into());
                        ops.extend(loads.iter().cloned());
                        ops.extend(tail(s));
                        run(res, ops, format!("initial load: access #{k} fails, the retry fails at access #{j} ({kind})"));
                    }
                }
            }
        }
        // B. loader faults during the initial load (undecodable / panicking content), then repair
        for (i, f) in s.touched.iter().enumerate() {
            let mut bads = vec!["zz"];
            if f.ends_with(".p") {
                bads.push("boom");
            }
            if f.ends_with(".n") {
                bads = vec!["Q:bad"]; // a script step the compound rejects (its own load fn errors)
            }
            for bad in bads {
                let orig = s.files.iter().find(|x| x.starts_with(&format!("{f}="))).map(|x| x.split_once('=').unwrap().1.to_string()).unwrap_or_default();
                let mut ops = vec![format!("put {f} {bad}")];
                ops.extend(loads.iter().cloned());
                let rep = if f.ends_with(".n") { format!("put {f} {orig}") } else { format!("put {f} {}", 30 + i) };
                ops.push(rep);
                ops.extend(loads.iter().cloned());
                ops.extend(tail(s));
                run(res, ops, format!("initial load with {f} = {bad}"));
            }
        }
        // C. entry faults during a reload, D. loader faults during a reload
        for (i, f) in s.touched.iter().enumerate() {
            if s.loads[0].starts_with("owned") {
                continue;
            }
            for kind in KINDS {
                let mut ops = loads.clone();
                let g = good(f, 10 + i);
                if !g.is_empty() {
                    ops.push(g);
                }
                ops.push(format!("faultent F:{f} {kind}"));
                ops.push(format!("ev F:{f}"));
                ops.push("hr".into());
                ops.push("nofault".into());
                ops.push(format!("ev F:{f}"));
                ops.push("hr".into());
                ops.extend(tail(s));
                run(res, ops, format!("reload: read of {f} fails with {kind}"));
            }
            // a loader panic inside a BATCH: the other notified assets of the same pass must still be
            // reloaded (the panic is contained per asset, not per pass)
            if f.ends_with(".p") {
                for order in 0..2 {
                    let mut ops = loads.clone();
                    ops.push(format!("put {f} boom"));
                    let mut entries = vec![format!("F:{f}")];
                    for (j, f2) in s.touched.iter().enumerate() {
                        if f2 != f {
                            let g = good(f2, 70 + j);
                            if !g.is_empty() {
                                ops.push(g);
                            }
                            entries.push(format!("F:{f2}"));
                        }
                    }
                    if order == 1 {
                        entries.reverse();
                    }
                    ops.push(format!("evb {}", entries.join(",")));
                    ops.push("hr".into());
                    ops.push(format!("put {f} 9"));
                    ops.push(format!("ev F:{f}"));
                    ops.push("hr".into());
                    run(res, ops, format!("reload: {f} panics inside a batch with the other entries (order {order})"));
                }
            }
            // the fault is transient and NOT followed by a new notification of the faulted entry:
            // every other entry the assets read must still trigger them (later entries first)
            for kind in ["Other", "NotFound"] {
                let mut ops = loads.clone();
                let g = good(f, 20 + i);
                if !g.is_empty() {
                    ops.push(g);
                }
                ops.push(format!("faultent F:{f} {kind}"));
                ops.push(format!("ev F:{f}"));
                ops.push("hr".into());
                ops.push("nofault".into());
                for (j, f2) in s.touched.iter().enumerate().rev() {
                    if f2 == f {
                        continue;
                    }
                    let g = good(f2, 60 + j);
                    if !g.is_empty() {
                        ops.push(g);
                    }
                    ops.push(format!("ev F:{f2}"));
                    ops.push("hr".into());
                }
                run(res, ops, format!("reload: transient {kind} on {f}, then the other entries change"));
            }
            let mut bads = vec!["zz"];
            if f.ends_with(".p") {
                bads.push("boom");
            }
            if f.ends_with(".n") {
                bads = vec!["Q:bad"];
            }
            for bad in bads {
                let orig = s.files.iter().find(|x| x.starts_with(&format!("{f}="))).map(|x| x.split_once('=').unwrap().1.to_string()).unwrap_or_default();
                let mut ops = loads.clone();
                ops.push(format!("put {f} {bad}"));
                ops.push(format!("ev F:{f}"));
                ops.push("hr".into());
                // while broken: another pass and a load of something else must still work
                ops.push("hr".into());
                let rep = if f.ends_with(".n") { format!("put {f} {orig}") } else { format!("put {f} {}", 50 + i) };
                ops.push(rep);
                ops.push(format!("ev F:{f}"));
                ops.push("hr".into());
                ops.extend(tail(s));
                run(res, ops, format!("reload with {f} = {bad}"));
            }
        }
    })
}
