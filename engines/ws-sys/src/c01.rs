//! C01 — one stable handle per (id, type) whatever the interleaving: 2–3 threads race
//! load / get_or_insert / get_cached / contains on one key (plus a neighbour key in the same or
//! another shard), through AssetCache and AnyCache, with and without a reloader.
use crate::hr::{ledger_double, ledger_live, ledger_reset, Tracked, L, V};
use crate::mem::Mem;
use crate::util::{Exp, Mk};
use assets_manager::AssetCache;
use detsched as ds;
use serde_json::{json, Value};
use std::sync::Arc;
use vcommon::{Args, SubResult};

/// shard index exactly as `AssetMap::get_shard` computes it (BorrowedKey derives Hash: type_id, id)
fn shard_of<T: 'static>(id: &str, seed: u64, shards: usize) -> usize {
    use std::hash::{BuildHasher, Hash, Hasher};
    ahash::stub_set_seed(seed);
    let mut h = ahash::RandomState::new().build_hasher();
    std::any::TypeId::of::<T>().hash(&mut h);
    id.hash(&mut h);
    (h.finish() as usize) & (shards - 1)
}


/// seeds for which keys (L,"k") and (L,"j") do / do not share a shard (4 shards)
pub fn seeds_collide() -> (u64, u64) {
    let mut same = None;
    let mut diff = None;
    for s in 0..64u64 {
        let c = shard_of::<L>("k", s, 4) == shard_of::<L>("j", s, 4);
        if c && same.is_none() {
            same = Some(s);
        }
        if !c && diff.is_none() {
            diff = Some(s);
        }
    }
    (same.unwrap_or(0), diff.unwrap_or(1))
}

/// addresses -> small indices in order of first appearance (addresses differ between runs)
static ADDRS: std::sync::Mutex<Vec<usize>> = std::sync::Mutex::new(Vec::new());
fn norm_addr(a: usize) -> usize {
    let mut v = ADDRS.lock().unwrap();
    match v.iter().position(|x| *x == a) {
        Some(p) => 1000 + p,
        None => {
            v.push(a);
            1000 + v.len() - 1
        }
    }
}

/// tracked ids of the values that were reachable through a handle returned to a racer
static REACHED: std::sync::Mutex<Vec<u64>> = std::sync::Mutex::new(Vec::new());
/// Address of a returned handle; the value behind it is looked at only through the entry the map
/// currently holds, and only if that is the same entry (a handle that differs from the map's may be
/// dangling: it is reported by address, never dereferenced).
fn hl(cache: &AssetCache<Mem>, key: &str, h: &assets_manager::Handle<L>) -> usize {
    let a = h as *const _ as usize;
    if let Some(g) = cache.get_cached::<L>(key) {
        if g as *const _ as usize == a {
            let id = g.read().t.0;
            REACHED.lock().unwrap().push(id);
        }
    }
    a
}
fn hv(cache: &AssetCache<Mem>, key: &str, h: &assets_manager::Handle<V>) -> usize {
    let a = h as *const _ as usize;
    if let Some(g) = cache.get_cached::<V>(key) {
        if g as *const _ as usize == a {
            let id = g.read().t.0;
            REACHED.lock().unwrap().push(id);
        }
    }
    a
}

fn run_op(cache: &AssetCache<Mem>, any: bool, op: &str, tid: usize, i: usize) -> String {
    let start = ds::now();
    let val = 100 * (tid as i64 + 1) + i as i64;
    let r = match (op, any) {
        ("load", false) => cache.load::<L>("k").map(|h| hl(cache, "k", h)).ok(),
        ("load", true) => cache.as_any_cache().load::<L>("k").map(|h| hl(cache, "k", h)).ok(),
        ("goiL", false) => Some(hl(cache, "k", cache.get_or_insert::<L>("k", L::from(val)))),
        ("goiL", true) => Some(hl(cache, "k", cache.as_any_cache().get_or_insert::<L>("k", L::from(val)))),
        ("goiV", false) => Some(hv(cache, "k", cache.get_or_insert::<V>("k", V { v: val, t: Tracked::new() }))),
        ("goiV", true) => Some(hv(cache, "k", cache.as_any_cache().get_or_insert::<V>("k", V { v: val, t: Tracked::new() }))),
        ("cached", false) => cache.get_cached::<L>("k").map(|h| hl(cache, "k", h)),
        ("cached", true) => cache.as_any_cache().get_cached::<L>("k").map(|h| hl(cache, "k", h)),
        ("cachedV", _) => cache.get_cached::<V>("k").map(|h| hv(cache, "k", h)),
        ("contains", false) => cache.contains::<L>("k").then_some(1),
        ("contains", true) => cache.as_any_cache().contains::<L>("k").then_some(1),
        ("loadj", _) => cache.load::<L>("j").map(|h| hl(cache, "j", h)).ok(),
        _ => panic!("bad op {op}"),
    };
    let end = ds::now();
    let r = r.map(|a| if a == 1 { 1 } else { norm_addr(a) });
    let ty = if op.ends_with('V') { "V" } else if op == "loadj" { "J" } else { "L" };
    let kind = if op == "contains" { "bool" } else { "handle" };
    format!("op t{tid} {op} ty={ty} kind={kind} start={start} end={end} res={}", r.map(|x| x.to_string()).unwrap_or("none".into()))
}

pub fn mk_race(p: &Value) -> Arc<Mk> {
    let progs: Vec<Vec<String>> = p["progs"].as_array().unwrap().iter().map(|a| a.as_array().unwrap().iter().map(|x| x.as_str().unwrap().to_string()).collect()).collect();
    let any = p["any"].as_bool().unwrap();
    let hot = p["hot"].as_bool().unwrap();
    let seed = p["seed"].as_u64().unwrap();
    Arc::new(move || {
        let progs = progs.clone();
        Box::new(move || {
            ahash::stub_set_seed(seed);
            ledger_reset();
            ADDRS.lock().unwrap().clear();
            REACHED.lock().unwrap().clear();
            let m = Mem::new(true);
            m.put("k", "l", "1");
            m.put("j", "l", "2");
            let cache = Arc::new(if hot { AssetCache::with_source(m.clone()) } else { AssetCache::without_hot_reloading(m.clone()) });
            if hot {
                ds::adopt(1, "reloader");
            }
            let mut hs = vec![];
            for (t, prog) in progs.iter().enumerate() {
                let c = cache.clone();
                let prog = prog.clone();
                hs.push(ds::spawn(&format!("racer{t}"), move || {
                    let mut lines = vec![];
                    for (i, op) in prog.iter().enumerate() {
                        lines.push(run_op(&c, any, op, t, i));
                    }
                    lines
                }));
            }
            for h in hs {
                for l in h.join().unwrap() {
                    ds::log(l);
                }
            }
            // final reads through the (single) entries
            let lv = cache.get_cached::<L>("k").map(|h| (norm_addr(h as *const _ as usize), h.read().v));
            let vv = cache.get_cached::<V>("k").map(|h| (norm_addr(h as *const _ as usize), h.read().v));
            ds::log(format!("final L={lv:?} V={vv:?} lval={}", lv.map(|x| x.1).unwrap_or(1)));
            let expect_live = lv.is_some() as usize + vv.is_some() as usize + cache.contains::<L>("j") as usize;
            ds::log(format!("ledger live={} expect={} double={}", ledger_live().len(), expect_live, ledger_double().len()));
            // a value that was handed out through a handle must still be alive while the cache is borrowed
            let live = ledger_live();
            let dead = REACHED.lock().unwrap().iter().filter(|id| !live.contains(id)).count();
            ds::log(format!("reachable dead={dead}"));
            if hot {
                ds::quiesce();
            }
            drop(cache);
            ds::log(format!("after-drop live={} double={}", ledger_live().len(), ledger_double().len()));
        })
    })
}

pub fn judge_race(r: &ds::RunResult) -> Option<(String, String)> {
    #[derive(Debug)]
    struct O {
        ty: String,
        kind: String,
        start: usize,
        end: usize,
        res: Option<usize>,
        line: String,
    }
    let mut ops = vec![];
    let mut fin = String::new();
    for l in &r.log {
        if let Some(rest) = l.strip_prefix("op ") {
            let f = |k: &str| rest.split(' ').find_map(|t| t.strip_prefix(k)).unwrap_or("").to_string();
            ops.push(O { ty: f("ty="), kind: f("kind="), start: f("start=").parse().unwrap_or(0), end: f("end=").parse().unwrap_or(0), res: f("res=").parse().ok(), line: l.clone() });
        } else if l.starts_with("final ") {
            fin = l.clone();
        } else if let Some(rest) = l.strip_prefix("ledger ") {
            let f = |k: &str| rest.split(' ').find_map(|t| t.strip_prefix(k)).and_then(|x| x.parse::<usize>().ok()).unwrap_or(usize::MAX);
            if f("double=") != 0 {
                return Some(("double-drop".into(), format!("a tracked value was dropped twice: {l}")));
            }
            if f("live=") != f("expect=") {
                return Some(("loser-not-dropped".into(), format!("after the race exactly one value per entry must be alive: {l}")));
            }
        } else if let Some(rest) = l.strip_prefix("reachable ") {
            if rest != "dead=0" {
                return Some(("reachable-value-dropped".into(), format!("a value reachable through a returned handle was dropped while the cache was still shared-borrowed ({rest})")));
            }
        } else if let Some(rest) = l.strip_prefix("after-drop ") {
            if rest != "live=0 double=0" {
                return Some(("leak-at-drop".into(), format!("after dropping the cache: {rest}")));
            }
        }
    }
    for ty in ["L", "V", "J"] {
        // (i) one address
        let addrs: std::collections::BTreeSet<usize> = ops.iter().filter(|o| o.ty == ty && o.kind == "handle").filter_map(|o| o.res).collect();
        if addrs.len() > 1 {
            return Some(("two-handles".into(), format!("several handles for one ({ty}) entry: {:?}", ops.iter().filter(|o| o.ty == ty).map(|o| &o.line).collect::<Vec<_>>())));
        }
        // final handle is that address
        if ty != "J" {
            if let Some(a) = addrs.iter().next() {
                if !fin.contains(&format!("{ty}=Some(({a},")) {
                    return Some(("final-handle-differs".into(), format!("handles returned during the race differ from the entry found afterwards: {fin} vs {a}")));
                }
            }
        }
        // (iii) presence never flips back: an op that started after a 'present' op ended must see present
        for a in ops.iter().filter(|o| o.ty == ty && o.res.is_some()) {
            for b in ops.iter().filter(|o| o.ty == ty && o.res.is_none()) {
                if b.start > a.end {
                    return Some(("presence-flipped".into(), format!("`{}` saw the entry, a later `{}` did not", a.line, b.line)));
                }
            }
        }
    }
    // (ii) winner is one of the offered values (file value 1, or an offered 100*(t+1)+i)
    if let Some(v) = fin.split(' ').find_map(|t| t.strip_prefix("lval=")).and_then(|x| x.parse::<i64>().ok()) {
        if !(v == 1 || (100..1000).contains(&v)) {
            return Some(("alien-value".into(), format!("final value {v} was never offered: {fin}")));
        }
    }
    None
}

pub fn run(args: &Args) -> SubResult {
    let mut res = SubResult::new("C01", "c01_race");
    let thorough = args.thorough();
    let bound = if thorough { 3 } else { 2 };
    let (same, diff) = seeds_collide();
    let p1: Vec<Vec<&str>> = vec![vec!["load"], vec!["goiL"], vec!["goiV"], vec!["cached"], vec!["contains"], vec!["loadj"]];
    let p2: Vec<Vec<&str>> = vec![vec!["cached", "load"], vec!["contains", "goiL"], vec!["load", "cached"], vec!["goiL", "contains"], vec!["loadj", "load"], vec!["goiV", "cachedV"], vec!["load", "load"], vec!["goiL", "goiL"]];
    let mut progs: Vec<Vec<&str>> = p1.clone();
    progs.extend(p2.clone());
    let mut cases: Vec<(Value, usize)> = vec![];
    for i in 0..progs.len() {
        for j in i..progs.len() {
            // at least one creating op, otherwise nothing can collide
            let creating = |p: &Vec<&str>| p.iter().any(|o| o.starts_with("load") || o.starts_with("goi"));
            if !creating(&progs[i]) && !creating(&progs[j]) {
                continue;
            }
            for any in [false, true] {
                for hot in [false, true] {
                    let uses_j = progs[i].contains(&"loadj") || progs[j].contains(&"loadj");
                    let seeds: Vec<u64> = if uses_j { vec![same, diff] } else { vec![same] };
                    if !thorough && (any != hot) && !(progs[i].len() == 1 && progs[j].len() == 1) {
                        continue;
                    }
                    for seed in seeds {
                        cases.push((json!({"progs": [progs[i], progs[j]], "any": any, "hot": hot, "seed": seed}), bound));
                    }
                }
            }
        }
    }
    if thorough {
        for a in &p1 {
            for b in &p1 {
                for c in &p1 {
                    if a <= b && b <= c {
                        cases.push((json!({"progs": [a, b, c], "any": false, "hot": true, "seed": same}), 2));
                    }
                }
            }
        }
    } else {
        for (a, b, c) in [("load", "load", "load"), ("load", "goiL", "cached"), ("goiL", "goiL", "contains"), ("load", "loadj", "goiL")] {
            cases.push((json!({"progs": [[a], [b], [c]], "any": false, "hot": false, "seed": same}), 2));
        }
    }
    res.bound = format!("{} harness configurations: all pairs of 14 thread programs (1–2 ops of load/get_or_insert<L|V>/get_cached/contains on key k, load of neighbour key j in the same (seed {same}) / another (seed {diff}) of 4 shards) x {{AssetCache, AnyCache}} x {{with, without reloader}}, plus 3-thread configurations; preemption bound {bound} (3 threads: 2); source reads are scheduling points", cases.len());
    res.rule = "every schedule within the preemption bound; oracle: one address per entry, winner among offered values, presence monotone along the scheduler's total step order, drop ledger (exactly one offered value alive per entry, losers dropped once, nothing alive after the cache is dropped); distinct = distinct (config, observation log)".into();
    let max_exec = if thorough { 300_000 } else { 6_000 };
    let total = cases.len();
    vcommon::run_cases(args, res, total, std::time::Duration::from_secs(if thorough { 3400 } else { 300 }), |idx, res| {
        let (p, b) = &cases[idx];
        let mk = mk_race(p);
        let mut e = Exp { res, harness: "c01_race", params: p.clone(), bound: *b, max_exec, cfg: ds::Config { writer_pref: idx % 2 == 1, horizon: 0, record_ops: false } };
        e.run(&*mk, &mut |r| judge_race(r));
    })
}
