//! C07 (system level) — values change only while some thread is inside `hot_reload`, and
//! `hot_reload` does not return before the reloads it triggered are finished; a held read guard
//! pins value and reload id.  A scheduler-level monitor is evaluated at every scheduling decision.
use crate::hr::L;
use crate::mem::Mem;
use crate::util::{Exp, Mk};
use assets_manager::{source::OwnedDirEntry, AssetCache};
use detsched as ds;
use serde_json::{json, Value};
use std::sync::atomic::{AtomicUsize, Ordering};
use std::sync::Arc;
use vcommon::{Args, SubResult};

static IN_HOT_RELOAD: AtomicUsize = AtomicUsize::new(0);

/// two-word self-checking value whose `Clone` has a scheduling point between its halves: a copy
/// made without the read lock held (e.g. `Handle::cloned` dropping its guard too early) can tear
pub struct W {
    a: i64,
    b: i64,
}
impl From<i64> for W {
    fn from(v: i64) -> W {
        W { a: v, b: v }
    }
}
impl Clone for W {
    fn clone(&self) -> W {
        // volatile: with a shared reference the optimiser may otherwise merge or move the two loads
        // across the call, hiding exactly the unsynchronised copy this type exists to expose
        let a = unsafe { std::ptr::read_volatile(&self.a) };
        ds::yield_now("clone-mid");
        let b = unsafe { std::ptr::read_volatile(&self.b) };
        W { a, b }
    }
}
impl assets_manager::Asset for W {
    const EXTENSION: &'static str = "l";
    type Loader = assets_manager::loader::LoadFrom<i64, assets_manager::loader::ParseLoader>;
}

pub fn mk_window(p: &Value) -> Arc<Mk> {
    let callers = p["callers"].as_u64().unwrap() as usize;
    let calls = p["calls"].as_u64().unwrap_or(1) as usize;
    let notifs = p["notifs"].as_u64().unwrap() as usize;
    let reader = p["reader"].as_str().unwrap_or("none").to_string();
    let pre_event = p["pre_event"].as_bool().unwrap_or(false);
    let seed = p["seed"].as_u64().unwrap_or(0);
    Arc::new(move || {
        let reader = reader.clone();
        Box::new(move || {
            ahash::stub_set_seed(seed);
            IN_HOT_RELOAD.store(0, Ordering::SeqCst);
            let m = Mem::new(true);
            m.put("k", "l", "1");
            let cache = Arc::new(AssetCache::with_source(m.clone()));
            ds::adopt(1, "reloader");
            let h = cache.load::<L>("k").unwrap();
            let _ = cache.load::<W>("k").unwrap();
            let hp = h as *const assets_manager::Handle<L> as usize;
            ds::quiesce();
            if pre_event {
                m.put("k", "l", "2");
                m.ev(OwnedDirEntry::File("k".into(), "l".into()));
                ds::quiesce();
            }
            let mut last = format!("{:?}", h.last_reload_id());
            ds::set_monitor(Box::new(move || {
                let h = unsafe { &*(hp as *const assets_manager::Handle<L>) };
                let now = format!("{:?}", h.last_reload_id());
                if now != last {
                    let inside = IN_HOT_RELOAD.load(Ordering::SeqCst);
                    let msg = format!("reload id went {last} -> {now} while {inside} threads were inside hot_reload");
                    last = now;
                    if inside == 0 {
                        return Some(format!("changed-outside-hot_reload: {msg}"));
                    }
                }
                None
            }));
            let mut hs = vec![];
            for i in 0..callers {
                let c = cache.clone();
                hs.push(ds::spawn(&format!("caller{i}"), move || {
                    for _ in 0..calls {
                        IN_HOT_RELOAD.fetch_add(1, Ordering::SeqCst);
                        c.hot_reload();
                        IN_HOT_RELOAD.fetch_sub(1, Ordering::SeqCst);
                    }
                }));
            }
            if notifs > 0 {
                let m2 = m.clone();
                hs.push(ds::spawn("notifier", move || {
                    for i in 0..notifs {
                        m2.put("k", "l", &format!("{}", 10 + i));
                        m2.ev(OwnedDirEntry::File("k".into(), "l".into()));
                    }
                }));
            }
            if reader != "none" {
                let c = cache.clone();
                let mode = reader.clone();
                hs.push(ds::spawn("reader", move || {
                    let h = c.get_cached::<L>("k").unwrap();
                    if mode == "cloned" {
                        // the convenience readers must be as isolated as a guard
                        let hw = c.get_cached::<W>("k").unwrap();
                        for _ in 0..2 {
                            let w = hw.cloned();
                            if w.a != w.b {
                                ds::log(format!("GUARD-BROKEN torn clone {} / {}", w.a, w.b));
                            }
                        }
                        return;
                    }
                    for _ in 0..2 {
                        if mode == "mapped" {
                            let g = assets_manager::AssetReadGuard::map(h.read(), |l| &l.v);
                            let a = unsafe { std::ptr::read_volatile(&*g) };
                            let id1 = format!("{:?}", h.last_reload_id());
                            ds::yield_now("hold");
                            let b = unsafe { std::ptr::read_volatile(&*g) };
                            let id2 = format!("{:?}", h.last_reload_id());
                            if a != b || id1 != id2 {
                                ds::log(format!("GUARD-BROKEN value {a}->{b} id {id1}->{id2}"));
                            }
                        } else {
                            let g = h.read();
                            let a = unsafe { std::ptr::read_volatile(&g.v) };
                            let id1 = format!("{:?}", h.last_reload_id());
                            ds::yield_now("hold");
                            let b = unsafe { std::ptr::read_volatile(&g.v) };
                            let id2 = format!("{:?}", h.last_reload_id());
                            if a != b || id1 != id2 {
                                ds::log(format!("GUARD-BROKEN value {a}->{b} id {id1}->{id2}"));
                            }
                        }
                    }
                }));
            }
            for h in hs {
                h.join().unwrap();
            }
            ds::quiesce();
            ds::log(format!("final v={} id={:?} reads={}", h.read().v, h.last_reload_id(), m.reads()));
            ds::clear_monitor();
        })
    })
}

pub fn judge_window(r: &ds::RunResult) -> Option<(String, String)> {
    for l in &r.log {
        if l.starts_with("GUARD-BROKEN") {
            return Some(("guard-not-pinning".into(), l.clone()));
        }
    }
    None
}

pub fn run(args: &Args) -> SubResult {
    let mut res = SubResult::new("C07", "c07_window");
    let thorough = args.thorough();
    let bound = if thorough { 3 } else { 2 };
    let mut cases = vec![];
    for callers in 1..=2usize {
        for calls in 1..=(if thorough { 2 } else { 1 }) {
            for notifs in 0..=2usize {
                for reader in ["none", "plain", "mapped", "cloned"] {
                    for pre in [false, true] {
                        if notifs == 0 && !pre {
                            continue;
                        }
                        let heavy = callers * calls + notifs + (reader != "none") as usize * 2;
                        if !thorough && heavy > 4 {
                            continue;
                        }
                        for wp in [false, true] {
                            if wp && reader == "none" {
                                continue;
                            }
                            cases.push((json!({"callers": callers, "calls": calls, "notifs": notifs, "reader": reader, "pre_event": pre, "seed": 0}), wp, if heavy >= 5 { 2 } else { bound }));
                        }
                    }
                }
            }
        }
    }
    res.bound = format!("{} configurations: 1–2 hot_reload callers (x1–2 calls), notifier with 0–2 edit+event bursts, an event taken in before the calls or not, reader holding a plain / mapped guard across a yield or using Handle::cloned on a value whose Clone yields between its halves; preemption bound {bound}; both Select::ready choices; both reader-admission policies", cases.len());
    res.rule = "every schedule within the bound; a monitor evaluated at every scheduling decision asserts that the handle's reload id changes only while >= 1 thread is inside hot_reload; readers assert value and id are pinned while a guard is held; distinct = distinct (config, observation log)".into();
    let max_exec = if thorough { 300_000 } else { 8_000 };
    let total = cases.len();
    vcommon::run_cases(args, res, total, std::time::Duration::from_secs(if thorough { 3400 } else { 300 }), |idx, res| {
            let (p, wp, b) = &cases[idx];
        let mk = mk_window(p);
        let mut e = Exp { res, harness: "c07_window", params: p.clone(), bound: *b, max_exec, cfg: ds::Config { writer_pref: *wp, horizon: 0, record_ops: false } };
        e.run(&*mk, &mut |r| judge_window(r));
    })
}
