//! C14 — dependencies are attributed to the asset being loaded, and only to it: every script up
//! to a nesting bound over load / owned / cached / dir / non-reloadable / nested node / caught
//! failure / caught panic / raw read, inside no_record, helper-thread and other-cache blocks;
//! for every file the script can touch: edit it, notify exactly it, hot_reload; the set of
//! handles whose reload id grew must be the model's attribution closure.
use crate::hr::HCfg;
use crate::hsearch::{run_search, Move, Search};
use vcommon::{Args, SubResult};

fn items(thorough: bool) -> Vec<String> {
    let atoms = ["L:l0", "O:l1", "C:l0", "D:d", "S:s0", "N:m", "p:b", "F:r0", "l:x"];
    let mut v: Vec<String> = atoms.iter().map(|s| s.to_string()).collect();
    for a in atoms {
        v.push(format!("norec{{ {a} }}"));
        v.push(format!("thread{{ {a} }}"));
    }
    v.push("other{ L:z0 }".into());
    // the same load through the typed cache (a global `&AssetCache`) on the loading thread; no_record
    // called through the AnyCache view of a cache that has no reloader
    v.push("G:l0".into());
    v.push("xnorec{ L:l1 }".into());
    v.push("xnorec{ F:r0 }".into());
    // raw directory listings: directly, unrecorded, and through the other cache (same id `d`)
    v.push("Q:d".into());
    v.push("norec{ Q:d }".into());
    v.push("other{ Q:d }".into());
    v.push("other{ Q:d L:z0 }".into());
    // a panic unwinding out of a no_record block / a nested load, caught inside the same load
    v.push("try{ norec{ X:b } }".into());
    v.push("try{ X:b }".into());
    v.push("try{ norec{ L:l1 X:b } }".into());
    v.push("try{ thread{ X:b } }".into());
    v.push("other{ C:z1 L:z1 }".into());
    for a in ["L:l0", "N:m", "D:d", "S:s0"] {
        v.push(format!("norec{{ thread{{ {a} }} }}"));
        v.push(format!("thread{{ norec{{ {a} }} }}"));
    }
    if thorough {
        for (a, b) in [("L:l0", "O:l1"), ("p:b", "L:l0"), ("l:x", "L:l1"), ("N:m", "C:l0")] {
            v.push(format!("norec{{ {a} {b} }}"));
            v.push(format!("thread{{ {a} {b} }}"));
            v.push(format!("norec{{ {a} }} {b}"));
        }
        v.push("other{ L:z0 } L:l0".into());
        v.push("thread{ other{ L:z0 } L:l1 }".into());
    }
    v
}

pub fn scripts(thorough: bool) -> Vec<String> {
    let it = items(thorough);
    let mut v: Vec<String> = it.clone();
    for a in &it {
        for b in &it {
            v.push(format!("{a} {b}"));
        }
    }
    if thorough {
        let small = ["L:l0", "norec{ L:l1 }", "thread{ L:l1 }", "p:b", "l:x", "other{ L:z0 }", "N:m", "S:s0", "norec{ S:s0 }", "D:d", "C:l1", "O:l0"];
        for a in small {
            for b in small {
                for c in small {
                    v.push(format!("{a} {b} {c}"));
                }
            }
        }
    }
    v
}

fn edits() -> Vec<Move> {
    let e = |name: &str, ops: &[&str]| Move { name: name.into(), ops: ops.iter().map(|s| s.to_string()).collect() };
    vec![
        e("l0", &["put l0.l 11", "ev F:l0.l", "hr"]),
        e("l1", &["put l1.l 12", "ev F:l1.l", "hr"]),
        e("l0 again", &["put l0.l 21", "ev F:l0.l", "hr"]),
        e("s0", &["put s0.l 13", "ev F:s0.l", "hr"]),
        e("d+", &["put d.c.l 14", "ev D:d", "hr"]),
        e("d.a", &["put d.a.l 15", "ev F:d.a.l", "hr"]),
        e("m.n", &["put m.n L:l0", "ev F:m.n", "hr"]),
        e("b.p", &["put b.p 16", "ev F:b.p", "hr"]),
        e("r0", &["put r0.r changed", "ev F:r0.r", "hr"]),
        e("x", &["put x.l 17", "ev F:x.l", "hr"]),
        e("t.n-touch", &["ev F:t.n", "hr"]),
        // the leaf whose load failed inside the script is created and loaded by somebody else (no pass):
        // the script's asset asked for it, so it must follow that leaf's later reloads
        e("x created+loaded", &["put x.l 19", "load L x"]),
        // the main cache's OWN asset with the id that scripts look up through the other cache
        e("z0(main)", &["put z0.l 51", "ev F:z0.l", "hr"]),
    ]
}

pub fn run(args: &Args) -> SubResult {
    let mut res = SubResult::new("C14", "c14_attrib");
    let thorough = args.thorough();
    let sc = scripts(thorough);
    res.bound = format!("{} scripts (sequences of <= {} items; items = 9 atoms, each also inside no_record / helper-thread blocks, other-cache blocks, depth-2 nestings) x 13 moves (12 single-entry edits + creation and top-level load of the leaf whose nested load failed), each followed by a second edit round (depth 2); two caches; hash seeds 0/5 alternating", sc.len(), if thorough { 3 } else { 2 });
    res.rule = "per script: history = load; edit one entry; notify exactly it; quiesce; hot_reload (x every entry, then x every second entry with deduplication); oracle = reference evaluator's attribution rules closed under dependents vs. the set of handles whose reload id grew (and their values); distinct = distinct (canonical state, observations)".into();
    let total = sc.len();
    vcommon::run_cases(args, res, total, std::time::Duration::from_secs(if thorough { 3000 } else { 300 }), |idx, res| {
        let script = &sc[idx];
        let cfg = HCfg {
            ctor: "hot".into(),
            seed: if idx % 2 == 0 { 0 } else { 5 },
            with_other: true,
            leaves: vec!["l0".into(), "l1".into(), "s0".into(), "b".into(), "x".into(), "d.a".into(), "d.c".into(), "z0".into()],
            nodes: vec!["t".into(), "m".into()],
            dirs: vec!["d".into()],
            files: vec!["l0.l=1".into(), "l1.l=2".into(), "s0.l=3".into(), "d.a.l=4".into(), "m.n=L:l1".into(), "b.p=boom".into(), "r0.r=raw".into(), "z0.l=50".into(), format!("t.n={script}")],
            check_c05: true,
            check_c06: true,
            check_c10: true,
            check_ledger: true,
            check_presence: false,
        };
        let deep = thorough || (idx + args.seed as usize) % 7 == 0 || (script.contains("l:x") && script.split_whitespace().count() <= 3) || script == "G:l0";
        let s = Search { harness: "c14_attrib", cfg, init: vec!["load L z0".into(), "load N t".into()], moves: vec![edits()], depth: if deep { 2 } else { 1 }, dedup: true, max_hist: 0 };
        run_search(res, &s);
    })
}
