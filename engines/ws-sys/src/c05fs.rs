//! C05 end-to-end on the real `FileSystem` source: real files, the crate's own notify event handler
//! (fed by the notify stub with the events inotify produces for each action), the real reloader
//! under detsched.  Differential oracle, no hand-written expectation: after every action +
//! notification + quiescence + hot_reload, every cached asset must equal what a FRESH cache over the
//! same directory loads (or keep its previous value if that fresh load fails).
use crate::hr::{L, L2, N};
use assets_manager::{AssetCache, Directory, RecursiveDirectory};
use detsched as ds;
use notify::{CreateKind, Event, EventKind, ModifyKind, RemoveKind, RenameMode};
use serde_json::json;
use std::collections::{BTreeMap, HashSet};
use std::path::{Path, PathBuf};
use vcommon::{h64, Args, SubResult};

const INIT: &[(&str, &str)] = &[("l0.l", "1"), ("f.m", "3"), ("f.l", "4"), ("d/a.l", "5"), ("d/b.l", "6"), ("d/sub/c.l", "7"), ("t.n", "L:l0 D:d M:f"), ("u.n", "R:")];

fn actions() -> Vec<&'static str> {
    vec![
        "write l0.l 11", "write f.m 13", "write f.l 14", "write d/a.l 15", "write d/sub/c.l 17",
        "create top.l 21", "create d/n.l 22", "create d/sub/n.l 23", "create f.m 24",
        "delete l0.l", "delete f.m", "delete d/a.l", "delete d/sub/c.l",
        "rename d/a.l d/z.l", "rename l0.l l9.l", "rename d/b.l b.l", "rename f.m f.q",
        "mkdir e", "mkdir d/e2", "write t.n L:l0", "garbage l0.l", "garbage f.m",
        "rmdir-empty d/sub",
    ]
}

fn ev(kind: EventKind, paths: Vec<PathBuf>) {
    notify::stub_inject(0, Event { kind, paths, attrs: Default::default() });
}

/// perform the action on disk and deliver the notifications inotify produces for it
fn perform(root: &Path, a: &str) -> bool {
    let t: Vec<&str> = a.split(' ').collect();
    let p = |r: &str| root.join(r);
    match t[0] {
        "write" | "garbage" => {
            if !p(t[1]).exists() {
                return false;
            }
            std::fs::write(p(t[1]), if t[0] == "garbage" { "zz" } else { t[2] }).unwrap();
            ev(EventKind::Modify(ModifyKind::Data(notify::event::DataChange::Any)), vec![p(t[1])]);
            ev(EventKind::Access(notify::AccessKind::Close(notify::event::AccessMode::Write)), vec![p(t[1])]);
        }
        "create" => {
            if p(t[1]).exists() || !p(t[1]).parent().unwrap().is_dir() {
                return false;
            }
            std::fs::write(p(t[1]), t[2]).unwrap();
            ev(EventKind::Create(CreateKind::File), vec![p(t[1])]);
            ev(EventKind::Modify(ModifyKind::Data(notify::event::DataChange::Any)), vec![p(t[1])]);
        }
        "delete" => {
            if !p(t[1]).is_file() {
                return false;
            }
            std::fs::remove_file(p(t[1])).unwrap();
            ev(EventKind::Remove(RemoveKind::File), vec![p(t[1])]);
        }
        "rename" => {
            if !p(t[1]).is_file() || p(t[2]).exists() {
                return false;
            }
            std::fs::rename(p(t[1]), p(t[2])).unwrap();
            ev(EventKind::Modify(ModifyKind::Name(RenameMode::From)), vec![p(t[1])]);
            ev(EventKind::Modify(ModifyKind::Name(RenameMode::To)), vec![p(t[2])]);
            ev(EventKind::Modify(ModifyKind::Name(RenameMode::Both)), vec![p(t[1]), p(t[2])]);
        }
        "mkdir" => {
            if p(t[1]).exists() {
                return false;
            }
            std::fs::create_dir(p(t[1])).unwrap();
            ev(EventKind::Create(CreateKind::Folder), vec![p(t[1])]);
        }
        "rmdir-empty" => {
            let d = p(t[1]);
            if !d.is_dir() {
                return false;
            }
            for e in std::fs::read_dir(&d).unwrap().flatten() {
                let f = e.path();
                if f.is_file() {
                    std::fs::remove_file(&f).unwrap();
                    ev(EventKind::Remove(RemoveKind::File), vec![f]);
                }
            }
            if std::fs::remove_dir(&d).is_err() {
                return false;
            }
            ev(EventKind::Remove(RemoveKind::Folder), vec![d]);
        }
        _ => panic!("action {a}"),
    }
    true
}

fn ids<'a>(it: impl Iterator<Item = &'a assets_manager::SharedString>) -> String {
    let mut v: Vec<&str> = it.map(|s| s.as_str()).collect();
    v.sort();
    format!("{v:?}")
}

/// values of the watched assets in `c` (loading them if `load`), as text
fn view<S: assets_manager::source::Source>(c: &AssetCache<S>, load: bool) -> BTreeMap<String, Result<String, ()>> {
    let mut m = BTreeMap::new();
    macro_rules! one {
        ($name:expr, $t:ty, $id:expr, $f:expr) => {{
            let f: fn(&$t) -> String = $f;
            let r = if load { c.load::<$t>($id).ok() } else { c.get_cached::<$t>($id) };
            m.insert($name.to_string(), r.map(|h| f(&h.read())).ok_or(()));
        }};
    }
    one!("L l0", L, "l0", |x| x.v.to_string());
    one!("L2 f", L2, "f", |x| x.v.to_string());
    one!("L d.a", L, "d.a", |x| x.v.to_string());
    one!("Dir root", Directory<L>, "", |x| ids(x.ids()));
    one!("Dir d", Directory<L>, "d", |x| ids(x.ids()));
    one!("Rec root", RecursiveDirectory<L>, "", |x| ids(x.ids()));
    one!("N t", N, "t", |x| x.text.clone());
    m
}

/// what the script of node `id` evaluates to against the current source (its own file) and the
/// current cache contents (nested assets, all cached in this world)
fn node_expected<S: assets_manager::source::Source>(c: &AssetCache<S>, root: &Path, id: &str) -> Option<String> {
    use std::fmt::Write;
    let script = std::fs::read_to_string(root.join(format!("{id}.n"))).ok()?;
    let mut out = String::new();
    for step in script.split_whitespace() {
        let (k, x) = step.split_once(':')?;
        match k {
            "L" => write!(out, " L:{x}={}", c.get_cached::<L>(x)?.read().v).ok()?,
            "M" => write!(out, " M:{x}={}", c.get_cached::<L2>(x)?.read().v).ok()?,
            "D" => {
                let h = c.get_cached::<Directory<L>>(x)?;
                let g = h.read();
                let v: Vec<&str> = g.ids().map(|s| s.as_str()).collect();
                write!(out, " D:{x}=[{}]", v.join(",")).ok()?
            }
            _ => return None,
        }
    }
    Some(format!("{} =>{}", script.trim(), out))
}

/// a custom source built the documented way: reads through `FileSystem`, hot-reloading through
/// `FsWatcherBuilder` watching the path AS GIVEN (here: through a symbolic link)
pub struct SymSrc {
    fs: assets_manager::source::FileSystem,
    watch: PathBuf,
}
impl assets_manager::source::Source for SymSrc {
    fn read(&self, id: &str, ext: &str) -> std::io::Result<assets_manager::source::FileContent> {
        self.fs.read(id, ext)
    }
    fn read_dir(&self, id: &str, f: &mut dyn FnMut(assets_manager::source::DirEntry)) -> std::io::Result<()> {
        self.fs.read_dir(id, f)
    }
    fn exists(&self, e: assets_manager::source::DirEntry) -> bool {
        self.fs.exists(e)
    }
    fn make_source(&self) -> Option<Box<dyn assets_manager::source::Source + Send>> {
        Some(Box::new(self.fs.clone()))
    }
    fn configure_hot_reloading(&self, events: assets_manager::hot_reloading::EventSender) -> Result<(), assets_manager::BoxedError> {
        let mut w = assets_manager::hot_reloading::FsWatcherBuilder::new()?;
        w.watch(self.watch.clone())?;
        w.build(events);
        Ok(())
    }
}

pub struct FsRun {
    pub viol: Vec<(String, String)>,
    pub canon: String,
    pub applied: Vec<bool>,
    pub verdict: ds::Verdict,
    pub panicked: Option<String>,
    pub steps: usize,
}

pub fn run_fs(hist: &[String], tag: &str) -> FsRun {
    run_fs_mode(hist, tag, false)
}

/// `symlink`: the asset directory is reached (and watched) through a symbolic link
pub fn run_fs_mode(hist: &[String], tag: &str, symlink: bool) -> FsRun {
    let base = std::env::temp_dir().join(format!("c05fs-{}-{tag}", std::process::id()));
    let _ = std::fs::remove_dir_all(&base);
    let root = if symlink {
        std::fs::create_dir_all(base.join("storage/mods-v1")).unwrap();
        std::os::unix::fs::symlink("storage/mods-v1", base.join("mods")).unwrap();
        base.join("mods")
    } else {
        base.clone()
    };
    for (f, c) in INIT {
        let p = root.join(f);
        std::fs::create_dir_all(p.parent().unwrap()).unwrap();
        std::fs::write(p, c).unwrap();
    }
    let out: std::sync::Arc<std::sync::Mutex<(Vec<(String, String)>, String, Vec<bool>)>> = Default::default();
    let o2 = out.clone();
    let hist2 = hist.to_vec();
    let root2 = root.clone();
    let r = ds::run_one(&[], &ds::Config { writer_pref: false, horizon: 100_000, record_ops: false }, move || {
        notify::stub_reset();
        crate::hr::ledger_reset();
        // (the branches only differ in the source type)
        if symlink {
            let src = SymSrc { fs: assets_manager::source::FileSystem::new(&root2).unwrap(), watch: root2.clone() };
            let c = AssetCache::with_source(src);
            ds::adopt(1, "reloader");
            let r = body(&c, &root2, &hist2);
            *o2.lock().unwrap() = r;
            return;
        }
        let c = AssetCache::new(&root2).unwrap();
        ds::adopt(1, "reloader");
        let r = body(&c, &root2, &hist2);
        *o2.lock().unwrap() = r;
    });
    let _ = std::fs::remove_dir_all(&base);
    let (viol, canon, applied) = out.lock().unwrap().clone();
    FsRun { viol, canon, applied, verdict: r.verdict, panicked: r.panicked, steps: r.steps }
}

fn body<S: assets_manager::source::Source + Sync>(c: &AssetCache<S>, root2: &Path, hist2: &[String]) -> (Vec<(String, String)>, String, Vec<bool>) {
    {
        let c = c;
        let _ = view(c, true);
        ds::quiesce();
        let mut viol = vec![];
        let mut applied = vec![];
        for a in hist2 {
            let before = view(c, false);
            let ok = perform(root2, a);
            applied.push(ok);
            ds::quiesce();
            c.hot_reload();
            let after = view(c, false);
            let fresh = {
                let f = AssetCache::without_hot_reloading(assets_manager::source::FileSystem::new(root2).unwrap());
                view(&f, true)
            };
            for (k, v) in &after {
                let mut want = match &fresh[k] {
                    Ok(x) => Ok(x.clone()),
                    Err(()) => before[k].clone(), // a reload that fails keeps the previous value
                };
                if k == "N t" {
                    // a compound is evaluated against the current CACHE: its nested assets may
                    // legitimately hold a previous value (their own reload failed)
                    want = match node_expected(c, root2, "t") {
                        Some(x) => Ok(x),
                        None => before[k].clone(),
                    };
                }
                if *v != want {
                    let class = a.split(' ').next().unwrap();
                    viol.push((format!("c05fs:{class}:{}", k.split(' ').next().unwrap()), format!("after `{a}` (+ its notifications, quiescence, hot_reload): cached {k} = {v:?}, a fresh cache over the same directory gives {:?} (before: {:?})", fresh[k], before[k])));
                }
            }
        }
        let canon = format!("{:?}", view(c, false));
        (viol, canon, applied)
    }
}

pub fn run(args: &Args) -> SubResult {
    let mut res = SubResult::new("C05", "c05_fs");
    let acts = actions();
    let depth = if args.thorough() { 3 } else { 2 };
    res.bound = format!("real temporary directory (7 files, 2 sub-directories, scripted nodes) behind FileSystem + the crate's notify handler (stub delivers the inotify event sequence of each action); every sequence of <= {depth} of {} actions (write / garbage / create / delete / rename within and across directories / mkdir / empty-and-remove directory) with canonical-state deduplication; the same through a symlinked root watched by a custom FsWatcherBuilder source (depth 1); watched assets: leaf, fall-back leaf, nested leaf, Directory root/d, RecursiveDirectory root, scripted node", acts.len());
    res.rule = "explicit-state BFS, history replayed on a fresh directory + cache under detsched (default schedule, quiescence barrier); differential oracle: cached value == value a fresh cache loads from the same directory, or the previous value when that load fails; directory renames are excluded (known finding D6d); distinct = distinct canonical states".into();
    let total = acts.len();
    vcommon::run_cases(args, res, total, std::time::Duration::from_secs(900), |idx, res| {
        // the same directory reached and watched through a symbolic link, via a custom source that uses
        // FsWatcherBuilder the documented way (reported paths are prefixed by the path as given)
        {
            let h = vec![acts[idx].to_string()];
            let r = run_fs_mode(&h, &format!("{idx}s"), true);
            res.evaluations += 1;
            res.transitions += 1;
            res.states += r.steps as u64;
            let replay = json!({"engine": "sysmc", "harness": "c05_fs", "params": {"history": h, "symlink": true}, "choices": []});
            if r.verdict != ds::Verdict::Ok || r.panicked.is_some() {
                res.violation("c05_fs:symlink:verdict".to_string(), format!("{:?} {:?}; history {h:?}", r.verdict, r.panicked), replay.clone());
            }
            for (k, dsc) in &r.viol {
                res.violation(format!("c05_fs:symlink:{k}"), format!("(directory watched through a symlink) {dsc}; history {h:?}"), replay.clone());
            }
            res.outcome(&("symlink", &r.canon));
        }
        // BFS below the first action `idx`
        let mut seen: HashSet<u64> = HashSet::new();
        let mut frontier: Vec<Vec<String>> = vec![vec![acts[idx].to_string()]];
        for d in 1..=depth {
            let mut next = vec![];
            for h in &frontier {
                let r = run_fs(h, &format!("{idx}"));
                res.evaluations += 1;
                res.transitions += h.len() as u64;
                res.states += r.steps as u64;
                let replay = json!({"engine": "sysmc", "harness": "c05_fs", "params": {"history": h}, "choices": []});
                match &r.verdict {
                    ds::Verdict::Ok => {}
                    v => res.violation(format!("c05_fs:verdict[{}]", format!("{v:?}").split('(').next().unwrap()), format!("{v:?}; history {h:?}"), replay.clone()),
                }
                if let Some(p) = &r.panicked {
                    res.violation("c05_fs:panic".to_string(), format!("{p}; history {h:?}"), replay.clone());
                }
                for (k, dsc) in &r.viol {
                    res.violation(format!("c05_fs:{k}"), format!("{dsc}; history {h:?}"), replay.clone());
                }
                res.outcome(&r.canon);
                if res.samples.len() < 2 && d == 2 {
                    res.sample(json!({"history": h, "final": r.canon}));
                }
                if !r.applied.last().copied().unwrap_or(false) {
                    continue; // the last action was not applicable in that state
                }
                if d < depth && seen.insert(h64(&r.canon)) {
                    for a in &acts {
                        let mut h2 = h.clone();
                        h2.push(a.to_string());
                        next.push(h2);
                    }
                }
            }
            frontier = next;
        }
    })
}

pub fn replay(v: &serde_json::Value) -> i32 {
    let h: Vec<String> = v["params"]["history"].as_array().unwrap().iter().map(|x| x.as_str().unwrap().to_string()).collect();
    let r = run_fs_mode(&h, "replay", v["params"]["symlink"].as_bool().unwrap_or(false));
    println!("history {h:?}\nfinal {}\nverdict {:?}", r.canon, r.verdict);
    for (k, d) in &r.viol {
        println!("REPRODUCED {k}: {d}");
    }
    if r.viol.is_empty() && r.verdict == ds::Verdict::Ok && r.panicked.is_none() {
        0
    } else {
        1
    }
}
