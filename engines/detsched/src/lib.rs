//! `detsched` — a deterministic scheduler over real OS threads with a stateless,
//! preemption-bounded DFS explorer.
//!
//! Model threads are real OS threads; exactly one of them runs at any time (token passing).
//! Every synchronisation operation of the dependency shims calls [`point`] *before* it takes
//! effect, declaring the operation; the scheduler picks which thread performs its operation
//! next.  See /verif/DESIGN.md §2.1.
//!
//! Determinism contract: given the same harness and the same choice prefix, the sequence of
//! decisions (arity, current-enabled flag) is identical.  A prefix choice that is out of range
//! while replaying is a hard machinery error (`Verdict::Diverged`), never a property verdict.

use std::cell::Cell;
use std::collections::{HashMap, VecDeque};
use std::sync::{Arc, Condvar, Mutex, MutexGuard, OnceLock};
use std::time::{Duration, Instant};

pub type Tid = usize;
pub type ObjId = usize;

#[derive(Clone, Debug, PartialEq, Eq, Hash)]
pub enum Op {
    Start,
    Yield(&'static str),
    MutexLock(ObjId),
    RwRead(ObjId),
    RwWrite(ObjId),
    /// parking_lot's upgradable read: shared with readers, exclusive among upgradable readers and writers
    RwUpgradable(ObjId),
    /// upgrade of an upgradable read to a write lock: enabled when the last plain reader is gone
    RwUpgrade(ObjId),
    /// `futex(FUTEX_WAIT)` issued by the code under test through std (thread::park, std::sync locks,
    /// std::sync::mpsc ...): blocked while the futex word still holds the expected value.  The first
    /// field is a per-execution index of the address (addresses themselves are not reproducible).
    FutexWait(usize, u32),
    /// begin a condvar wait: atomically release the mutex and enqueue as waiter
    CondWait(ObjId, ObjId),
    /// second half of a wait: blocked until notified *and* the mutex is free
    CondReacquire(ObjId, ObjId),
    /// second half of a *timed* condvar wait: like `CondReacquire`, and additionally the time-out may
    /// fire (a costed deviation while anything else can run, free when nothing else can)
    CondReacquireTimed(ObjId, ObjId),
    /// timed receive / timed readiness wait on channels
    RecvTimed(ObjId),
    SelectReadyTimed(Vec<ObjId>),
    CondNotifyAll(ObjId),
    CondNotifyOne(ObjId),
    Send(ObjId),
    /// send on a bounded channel: enabled when there is room or no receiver is left
    SendBounded(ObjId),
    /// wake one waiter (the one at this index, modulo the number of waiters: the explorer chooses)
    CondNotifyOneAt(ObjId, usize),
    TryRecv(ObjId),
    /// blocking receive on one channel (enabled when non-empty or disconnected)
    Recv(ObjId),
    SelectReady(Vec<ObjId>),
    Join(Tid),
    /// enabled only when no other thread is enabled ("everything has been taken in")
    Quiesce,
}

#[derive(Clone, Debug, Hash, PartialEq, Eq)]
pub enum Obj {
    Mutex { owner: Option<Tid> },
    RwLock { writer: Option<Tid>, readers: usize, waiting_writers: usize, upgradable: Option<Tid> },
    Condvar { waiters: Vec<Tid>, notified: Vec<Tid> },
    Chan { len: usize, senders: usize, receivers: usize, cap: usize },
}

#[derive(Clone, Debug, PartialEq)]
enum Status {
    Running,
    AtPoint(Op),
    Finished,
}

/// What a thread is doing, as seen by a harness (`thread_state`).
#[derive(Clone, Debug, PartialEq)]
pub enum ThState {
    Running,
    Enabled(Op),
    Blocked(Op),
    Finished,
    Unknown,
}

struct Th {
    status: Status,
    name: String,
    harness: bool,
    steps: usize,
    /// the last timed operation of this thread ended by its time-out
    timed_out: bool,
    /// time-outs that fired for this thread while nothing else could run
    free_timeouts: usize,
    /// `pthread_self()` of the OS thread, once it has checked in (0 before)
    pthread: usize,
}

#[derive(Clone, Debug)]
pub struct Dec {
    pub n: usize,
    pub chosen: usize,
    /// the thread that ran last is still enabled (so a non-zero choice is a preemption)
    pub cur_enabled: bool,
    /// data choice (free), not a thread choice
    pub data: bool,
    /// alternatives from this index on are time-outs firing although something else could run:
    /// each costs one deviation whatever `cur_enabled` says (`n` when there are none)
    pub costly_from: usize,
}

#[derive(Clone, Debug, PartialEq)]
pub enum Verdict {
    Ok,
    /// a harness thread is blocked and nothing is enabled: (thread name, operation)
    Deadlock(Vec<(String, String)>),
    /// a single thread is the only enabled one and the world state recurs
    Spin(String),
    /// step horizon reached (a cap, not a verdict on the property)
    Horizon,
    /// the scheduler-level monitor reported a violation
    Monitor(String),
    /// replay divergence: machinery error
    Diverged(String),
}

type Monitor = Box<dyn FnMut() -> Option<String> + Send>;

struct State {
    epoch: u64,
    active: bool,
    threads: Vec<Th>,
    current: Option<Tid>,
    /// foreign threads that checked in and wait for adoption: (ticket, first operation, pthread_self)
    pending: VecDeque<(u64, Op, usize)>,
    adopted: Vec<(u64, Tid)>,
    next_ticket: u64,
    objs: Vec<Obj>,
    prefix: Vec<usize>,
    trace: Vec<Dec>,
    log: Vec<String>,
    ops: Vec<(Tid, Op)>,
    record_ops: bool,
    steps: usize,
    horizon: usize,
    aborting: bool,
    verdict: Verdict,
    writer_pref: bool,
    spin_seen: HashMap<u64, usize>,
    last_tid: Option<Tid>,
    live_os_threads: usize,
    monitor: Option<Monitor>,
    trace_steps: bool,
    /// addresses of the futex words the code under test waits on, in order of first appearance
    futex_addrs: Vec<usize>,
}

pub struct Sched {
    st: Mutex<State>,
    cv: Condvar,
}

fn sched() -> &'static Sched {
    static S: OnceLock<Sched> = OnceLock::new();
    S.get_or_init(|| Sched {
        st: Mutex::new(State {
            epoch: 0,
            active: false,
            threads: vec![],
            current: None,
            pending: VecDeque::new(),
            adopted: vec![],
            next_ticket: 0,
            objs: vec![],
            prefix: vec![],
            trace: vec![],
            log: vec![],
            ops: vec![],
            record_ops: false,
            steps: 0,
            horizon: 20000,
            aborting: false,
            verdict: Verdict::Ok,
            writer_pref: false,
            spin_seen: Default::default(),
            futex_addrs: vec![],
            last_tid: None,
            live_os_threads: 0,
            monitor: None,
            trace_steps: std::env::var_os("DS_TRACE").is_some(),
        }),
        cv: Condvar::new(),
    })
}

thread_local! {
    static ME: Cell<Option<(u64, Tid)>> = const { Cell::new(None) };
    static EXIT_GUARD: ExitGuard = const { ExitGuard };
}
struct ExitGuard;
impl Drop for ExitGuard {
    fn drop(&mut self) {
        if let Some((ep, tid)) = ME.with(|m| m.get()) {
            thread_finished(ep, tid);
        }
    }
}

/// Panic payload used to unwind parked threads at the end of an execution.
pub struct Aborted;

fn lock() -> MutexGuard<'static, State> {
    sched().st.lock().unwrap_or_else(|e| e.into_inner())
}

fn me(st: &State) -> Option<Tid> {
    ME.with(|m| m.get()).and_then(|(ep, t)| if ep == st.epoch && st.active { Some(t) } else { None })
}

pub fn is_active() -> bool {
    let st = lock();
    st.active && !st.aborting
}

impl State {
    fn enabled(&self, tid: Tid, op: &Op) -> bool {
        match op {
            Op::Start | Op::Yield(_) | Op::CondWait(..) | Op::CondNotifyAll(_) | Op::CondNotifyOne(_) | Op::Send(_) | Op::TryRecv(_) => true,
            Op::MutexLock(m) => matches!(self.objs[*m], Obj::Mutex { owner: None }),
            Op::RwRead(l) => match &self.objs[*l] {
                Obj::RwLock { writer, waiting_writers, .. } => writer.is_none() && (!self.writer_pref || *waiting_writers == 0),
                _ => unreachable!(),
            },
            Op::RwWrite(l) => match &self.objs[*l] {
                Obj::RwLock { writer, readers, upgradable, .. } => writer.is_none() && *readers == 0 && upgradable.is_none(),
                _ => unreachable!(),
            },
            Op::RwUpgradable(l) => match &self.objs[*l] {
                Obj::RwLock { writer, waiting_writers, upgradable, .. } => writer.is_none() && upgradable.is_none() && (!self.writer_pref || *waiting_writers == 0),
                _ => unreachable!(),
            },
            Op::RwUpgrade(l) => match &self.objs[*l] {
                Obj::RwLock { readers, .. } => *readers == 0,
                _ => unreachable!(),
            },
            Op::CondReacquire(c, m) => {
                let notified = match &self.objs[*c] {
                    Obj::Condvar { notified, .. } => notified.contains(&tid),
                    _ => unreachable!(),
                };
                notified && matches!(self.objs[*m], Obj::Mutex { owner: None })
            }
            Op::CondReacquireTimed(c, m) => {
                let notified = match &self.objs[*c] {
                    Obj::Condvar { notified, .. } => notified.contains(&tid),
                    _ => unreachable!(),
                };
                notified && matches!(self.objs[*m], Obj::Mutex { owner: None })
            }
            Op::Recv(c) | Op::RecvTimed(c) => self.chan_ready(*c),
            Op::SendBounded(c) => match &self.objs[*c] {
                Obj::Chan { len, receivers, cap, .. } => *len < *cap || *receivers == 0,
                _ => unreachable!(),
            },
            Op::CondNotifyOneAt(..) => true,
            Op::SelectReady(chs) | Op::SelectReadyTimed(chs) => chs.iter().any(|c| self.chan_ready(*c)),
            Op::FutexWait(k, val) => {
                let addr = self.futex_addrs[*k];
                // the word lives inside an object the waiting thread keeps alive
                (unsafe { (*(addr as *const std::sync::atomic::AtomicU32)).load(std::sync::atomic::Ordering::SeqCst) }) != *val
            }
            Op::Join(t) => self.threads[*t].status == Status::Finished,
            Op::Quiesce => false, // handled specially
        }
    }
    /// a timed operation that is not enabled in the ordinary sense but whose time-out can fire now
    fn timeout_can_fire(&self, tid: Tid, op: &Op) -> bool {
        if self.enabled(tid, op) {
            return false;
        }
        match op {
            Op::CondReacquireTimed(_, m) => matches!(self.objs[*m], Obj::Mutex { owner: None }),
            Op::RecvTimed(_) | Op::SelectReadyTimed(_) => true,
            _ => false,
        }
    }
    fn chan_ready(&self, c: ObjId) -> bool {
        match &self.objs[c] {
            Obj::Chan { len, senders, .. } => *len > 0 || *senders == 0,
            _ => unreachable!(),
        }
    }

    fn decide(&mut self, n: usize, cur_enabled: bool, data: bool) -> usize {
        self.decide2(n, cur_enabled, data, n)
    }
    fn decide2(&mut self, n: usize, cur_enabled: bool, data: bool, costly_from: usize) -> usize {
        let pos = self.trace.len();
        let chosen = if pos < self.prefix.len() {
            let c = self.prefix[pos];
            if c >= n {
                self.verdict = Verdict::Diverged(format!("decision {pos}: choice {c} of {n}"));
                self.aborting = true;
                0
            } else {
                c
            }
        } else {
            0
        };
        self.trace.push(Dec { n, chosen, cur_enabled, data, costly_from });
        chosen
    }

    fn world_hash(&self) -> u64 {
        use std::hash::{Hash, Hasher};
        let mut h = std::collections::hash_map::DefaultHasher::new();
        self.objs.hash(&mut h);
        for th in &self.threads {
            if let Status::AtPoint(op) = &th.status {
                op.hash(&mut h);
            } else if th.status == Status::Finished {
                1u8.hash(&mut h);
            } else {
                0u8.hash(&mut h);
            }
        }
        h.finish()
    }

    /// Pick the next thread to run and apply its operation's effect.
    fn schedule_next(&mut self) {
        if self.aborting {
            return;
        }
        self.steps += 1;
        if self.steps > self.horizon {
            self.verdict = Verdict::Horizon;
            self.aborting = true;
            return;
        }
        if let Some(mut m) = self.monitor.take() {
            let r = m();
            self.monitor = Some(m);
            if let Some(msg) = r {
                self.verdict = Verdict::Monitor(msg);
                self.aborting = true;
                return;
            }
        }
        let cur = self.current;
        let mut en: Vec<Tid> = vec![];
        let mut cur_enabled = false;
        if let Some(c) = cur {
            if let Status::AtPoint(op) = &self.threads[c].status {
                if self.enabled(c, op) {
                    en.push(c);
                    cur_enabled = true;
                }
            }
        }
        for t in 0..self.threads.len() {
            if Some(t) == cur {
                continue;
            }
            if let Status::AtPoint(op) = &self.threads[t].status {
                if self.enabled(t, op) {
                    en.push(t);
                }
            }
        }
        if en.is_empty() {
            // quiesce: a thread waiting for everyone else to be blocked
            for t in 0..self.threads.len() {
                if self.threads[t].status == Status::AtPoint(Op::Quiesce) {
                    en.push(t);
                }
            }
            cur_enabled = false;
        }
        // time-outs: while something else can run, a time-out that fires is a deviation (costed like a
        // preemption); when nothing else can run, time passes and the time-out fires for free -- at
        // most MAX_FREE_TIMEOUTS times per thread and execution, so that a loop polling with a
        // time-out ends up blocked (idle) instead of making the execution infinite
        const MAX_FREE_TIMEOUTS: usize = 3;
        let mut costly_from = en.len();
        {
            let mut tm: Vec<Tid> = vec![];
            for t in 0..self.threads.len() {
                if let Status::AtPoint(op) = &self.threads[t].status {
                    if self.timeout_can_fire(t, op) {
                        tm.push(t);
                    }
                }
            }
            if !en.is_empty() {
                en.extend(tm);
            } else {
                // deterministic: the lowest thread that still has a free time-out left
                if let Some(t) = tm.into_iter().find(|t| self.threads[*t].free_timeouts < MAX_FREE_TIMEOUTS) {
                    self.threads[t].free_timeouts += 1;
                    en.push(t);
                }
                costly_from = en.len();
            }
        }
        if en.is_empty() {
            let blocked: Vec<(String, String)> = self
                .threads
                .iter()
                .filter_map(|t| if let Status::AtPoint(op) = &t.status { Some((t.name.clone(), format!("{op:?}"))) } else { None })
                .collect();
            let harness_blocked = self.threads.iter().any(|t| t.harness && matches!(t.status, Status::AtPoint(_)));
            if harness_blocked {
                self.verdict = Verdict::Deadlock(blocked);
            }
            self.aborting = true;
            self.current = None;
            return;
        }
        let k = if en.len() > 1 { self.decide2(en.len(), cur_enabled, false, costly_from) } else { 0 };
        if self.aborting {
            return;
        }
        let t = en[k];
        // spin detection: the same subject (non-harness) thread keeps polling, it is the only
        // enabled one, and the world (all objects + every thread's pending op) recurs; a harness
        // thread that loops is caught by the step horizon instead
        // only polling operations count: an operation that acquires or sends something is progress
        // (a long loop of look-ups revisits the same lock states without spinning)
        let polling = match &self.threads[t].status {
            Status::AtPoint(Op::TryRecv(_)) | Status::AtPoint(Op::SelectReady(_)) => true,
            Status::AtPoint(Op::Yield(tag)) => tag.starts_with("try-") || *tag == "select-new",
            _ => false,
        };
        if self.last_tid == Some(t) && en.len() == 1 && !self.threads[t].harness && polling {
            let h = self.world_hash();
            let c = self.spin_seen.entry(h).or_insert(0);
            *c += 1;
            if *c >= 8 {
                self.verdict = Verdict::Spin(self.threads[t].name.clone());
                self.aborting = true;
                return;
            }
        } else {
            self.spin_seen.clear();
        }
        self.last_tid = Some(t);
        let op = match std::mem::replace(&mut self.threads[t].status, Status::Running) {
            Status::AtPoint(op) => op,
            _ => unreachable!(),
        };
        if self.trace_steps {
            eprintln!("step {} t{}({}) {:?} en={:?}", self.steps, t, self.threads[t].name, op, en);
        }
        if self.record_ops {
            self.ops.push((t, op.clone()));
        }
        self.threads[t].steps += 1;
        let by_timeout = !self.enabled(t, &op) && matches!(op, Op::CondReacquireTimed(..) | Op::RecvTimed(_) | Op::SelectReadyTimed(_));
        self.threads[t].timed_out = by_timeout;
        self.apply(t, op);
        self.current = Some(t);
    }

    fn apply(&mut self, t: Tid, op: Op) {
        match op {
            Op::MutexLock(m) => self.objs[m] = Obj::Mutex { owner: Some(t) },
            Op::RwRead(l) => {
                if let Obj::RwLock { readers, .. } = &mut self.objs[l] {
                    *readers += 1
                }
            }
            Op::RwWrite(l) => {
                if let Obj::RwLock { writer, waiting_writers, .. } = &mut self.objs[l] {
                    *writer = Some(t);
                    *waiting_writers -= 1;
                }
            }
            Op::RwUpgradable(l) => {
                if let Obj::RwLock { upgradable, .. } = &mut self.objs[l] {
                    *upgradable = Some(t);
                }
            }
            Op::RwUpgrade(l) => {
                if let Obj::RwLock { writer, upgradable, .. } = &mut self.objs[l] {
                    *upgradable = None;
                    *writer = Some(t);
                }
            }
            Op::CondWait(c, m) => {
                self.objs[m] = Obj::Mutex { owner: None };
                if let Obj::Condvar { waiters, .. } = &mut self.objs[c] {
                    waiters.push(t);
                }
            }
            Op::CondReacquire(c, m) | Op::CondReacquireTimed(c, m) => {
                if let Obj::Condvar { notified, waiters } = &mut self.objs[c] {
                    notified.retain(|x| *x != t);
                    waiters.retain(|x| *x != t);
                }
                self.objs[m] = Obj::Mutex { owner: Some(t) };
            }
            Op::CondNotifyAll(c) => {
                if let Obj::Condvar { waiters, notified } = &mut self.objs[c] {
                    notified.append(waiters);
                }
            }
            Op::CondNotifyOneAt(c, k) => {
                if let Obj::Condvar { waiters, notified } = &mut self.objs[c] {
                    if !waiters.is_empty() {
                        let w = waiters.remove(k % waiters.len());
                        notified.push(w);
                    }
                }
            }
            Op::CondNotifyOne(c) => {
                if let Obj::Condvar { waiters, notified } = &mut self.objs[c] {
                    if !waiters.is_empty() {
                        let w = waiters.remove(0);
                        notified.push(w);
                    }
                }
            }
            _ => {}
        }
    }
}

fn wait_turn(mut st: MutexGuard<'static, State>, tid: Tid, epoch: u64) -> MutexGuard<'static, State> {
    loop {
        if st.epoch != epoch || st.aborting {
            drop(st);
            std::panic::resume_unwind(Box::new(Aborted));
        }
        if st.current == Some(tid) && st.threads[tid].status == Status::Running {
            return st;
        }
        st = sched().cv.wait(st).unwrap_or_else(|e| e.into_inner());
    }
}

/// Scheduling point: declare `op`, let the scheduler pick who goes next, return when it is this
/// thread's turn (the operation's scheduler-side effect has then been applied).
/// Watchdog.  Every scheduling point and every start/end of an execution bumps `PROGRESS`; while an
/// execution is active and nothing moves for `STALL_SECS`, the thread that holds the token is stuck
/// in something the scheduler does not own (`std::thread::park`, a `std::sync` lock or channel, a
/// sleep): the exploration cannot continue, and this is reported as a machinery failure (exit 2,
/// never a verdict) instead of hanging until some outer time-out.
static PROGRESS: std::sync::atomic::AtomicU64 = std::sync::atomic::AtomicU64::new(0);
static IN_EXECUTION: std::sync::atomic::AtomicBool = std::sync::atomic::AtomicBool::new(false);
const STALL_SECS: u64 = 45;
/// exit code of the watchdog when the process burnt `STALL_SECS` of CPU time without a scheduling point
/// (2 = blocked in a primitive the scheduler does not own)
pub const EXIT_CPU_BURNT: i32 = 3;
fn watchdog() {
    static START: std::sync::Once = std::sync::Once::new();
    START.call_once(|| {
        std::thread::Builder::new()
            .name("detsched-watchdog".into())
            .spawn(|| {
                use std::sync::atomic::Ordering::SeqCst;
                let mut last = PROGRESS.load(SeqCst);
                // Wall-clock time alone cannot tell a stuck execution from a starved process (a loaded
                // machine): what is measured is (a) for how long NO thread of this process was even
                // runnable -- the token holder sleeps in a primitive the scheduler does not own -- and
                // (b) how much CPU time the process burnt without reaching a scheduling point.
                let mut blocked_for = Duration::ZERO;
                let mut cpu0 = process_cpu();
                let me = unsafe { libc::syscall(libc::SYS_gettid) } as i64;
                loop {
                    std::thread::sleep(Duration::from_millis(500));
                    let now = PROGRESS.load(SeqCst);
                    if now != last || !IN_EXECUTION.load(SeqCst) {
                        last = now;
                        blocked_for = Duration::ZERO;
                        cpu0 = process_cpu();
                        continue;
                    }
                    if any_other_thread_runnable(me) {
                        blocked_for = Duration::ZERO;
                    } else {
                        blocked_for += Duration::from_millis(500);
                    }
                    let burnt = process_cpu().saturating_sub(cpu0);
                    if blocked_for > Duration::from_secs(STALL_SECS) || burnt > Duration::from_secs(STALL_SECS) {
                        let who = match sched().st.try_lock() {
                            Ok(st) => st.current.map(|t| st.threads.get(t).map(|th| th.name.clone()).unwrap_or_default()).unwrap_or_else(|| "?".into()),
                            Err(_) => "?".into(),
                        };
                        if burnt > Duration::from_secs(STALL_SECS) {
                            eprintln!("detsched: {STALL_SECS} s of CPU time spent without reaching a scheduling point (running thread: {who}): unbounded computation in the code under test; no verdict is possible from here");
                            std::process::exit(EXIT_CPU_BURNT);
                        } else {
                            eprintln!("detsched: no thread runnable and no scheduling point reached for {STALL_SECS} s (token holder: {who}): the code under test blocks in a primitive the scheduler does not own (a timed sleep, a foreign thread, ...); no verdict is possible");
                        }
                        std::process::exit(2);
                    }
                }
            })
            .ok();
    });
}

fn process_cpu() -> Duration {
    let mut ts = libc::timespec { tv_sec: 0, tv_nsec: 0 };
    unsafe { libc::clock_gettime(libc::CLOCK_PROCESS_CPUTIME_ID, &mut ts) };
    Duration::new(ts.tv_sec as u64, ts.tv_nsec as u32)
}
/// is any thread of this process other than `me` in state R (running or waiting for a CPU) or D
/// (uninterruptible: a page fault or file I/O served slowly on a machine short of memory -- seen as the
/// dominant state of starved workers next to heavy batches)?  Only an *interruptible* sleep is a thread
/// blocked in a user-level primitive.
fn any_other_thread_runnable(me: i64) -> bool {
    let Ok(rd) = std::fs::read_dir("/proc/self/task") else { return true };
    for e in rd.flatten() {
        let name = e.file_name();
        if name.to_str().and_then(|n| n.parse::<i64>().ok()) == Some(me) {
            continue;
        }
        if let Ok(stat) = std::fs::read_to_string(e.path().join("stat")) {
            if let Some(rest) = stat.rsplit(')').next() {
                if rest.trim_start().starts_with('R') || rest.trim_start().starts_with('D') {
                    return true;
                }
            }
        }
    }
    false
}

pub fn point(op: Op) {
    if std::thread::panicking() {
        return;
    }
    PROGRESS.fetch_add(1, std::sync::atomic::Ordering::SeqCst);
    let mut st = lock();
    if !st.active {
        return;
    }
    if st.aborting {
        if ME.with(|m| m.get()).map(|(e, _)| e) == Some(st.epoch) {
            drop(st);
            std::panic::resume_unwind(Box::new(Aborted));
        }
        return;
    }
    let tid = match me(&st) {
        Some(t) => t,
        None => {
            // foreign thread (spawned by the subject): wait for adoption
            let ticket = st.next_ticket;
            st.next_ticket += 1;
            st.pending.push_back((ticket, op.clone(), unsafe { libc::pthread_self() } as usize));
            st.live_os_threads += 1;
            let epoch = st.epoch;
            sched().cv.notify_all();
            let tid = loop {
                if st.epoch != epoch || st.aborting {
                    st.live_os_threads -= 1;
                    drop(st);
                    std::panic::resume_unwind(Box::new(Aborted));
                }
                if let Some(p) = st.adopted.iter().position(|(tk, _)| *tk == ticket) {
                    break st.adopted.remove(p).1;
                }
                st = sched().cv.wait(st).unwrap_or_else(|e| e.into_inner());
            };
            ME.with(|m| m.set(Some((epoch, tid))));
            st.threads[tid].pthread = unsafe { libc::pthread_self() } as usize;
            EXIT_GUARD.with(|_| ());
            drop(wait_turn(st, tid, epoch));
            return;
        }
    };
    debug_assert_eq!(st.current, Some(tid));
    if let Op::RwWrite(l) = &op {
        if let Obj::RwLock { waiting_writers, .. } = &mut st.objs[*l] {
            *waiting_writers += 1;
        }
    }
    st.threads[tid].status = Status::AtPoint(op);
    st.schedule_next();
    let epoch = st.epoch;
    if st.current != Some(tid) || st.aborting {
        sched().cv.notify_all();
    }
    drop(wait_turn(st, tid, epoch));
}

// ---------------------------------------------------------------------------------------------------
// futex model: what std's own blocking primitives (thread::park, std::sync::{Mutex, Condvar, RwLock,
// Once, mpsc}) boil down to on Linux.  The binary that hosts the exploration interposes libc's
// `syscall` symbol and hands FUTEX_WAIT / FUTEX_WAKE of registered threads to these two functions, so
// that code under test which synchronises through std instead of the shimmed crates is scheduled
// (and its deadlocks are seen) instead of blocking the OS thread that holds the scheduler's token.

/// `FUTEX_WAIT(addr, val)` without timeout.  `None`: not ours (forward to the kernel).  `Some(())`:
/// modelled -- the caller returns EAGAIN, std re-examines the word.
pub fn futex_wait(addr: usize, val: u32) -> Option<()> {
    if std::thread::panicking() {
        return None;
    }
    let own = sched() as *const Sched as usize;
    if addr >= own && addr < own + std::mem::size_of::<Sched>() {
        return None; // the scheduler's own mutex / condvar
    }
    // thread-locals may already be gone when std blocks during thread exit
    let reg = ME.try_with(|m| m.get()).ok().flatten();
    let k = {
        let mut st = lock();
        if !st.active || st.aborting || reg.map(|(ep, _)| ep) != Some(st.epoch) {
            return None;
        }
        match st.futex_addrs.iter().position(|a| *a == addr) {
            Some(k) => k,
            None => {
                st.futex_addrs.push(addr);
                st.futex_addrs.len() - 1
            }
        }
    };
    if std::env::var_os("DETSCHED_FUTEX_TRACE").is_some() {
        eprintln!("futex-wait modelled: thread {:?} word #{k}\n{}", std::thread::current().name(), std::backtrace::Backtrace::force_capture());
    }
    // `point` unwinds with `Aborted` when the execution is torn down; that unwinding must not cross
    // std's `extern "C"` call of `syscall`, so it is caught here and the thread is retired instead:
    // it is accounted as gone and sleeps for good (only executions that are aborted while a thread
    // is blocked in a std primitive leave such a thread behind)
    match std::panic::catch_unwind(std::panic::AssertUnwindSafe(|| point(Op::FutexWait(k, val)))) {
        Ok(()) => Some(()),
        Err(e) => {
            if !e.is::<Aborted>() {
                std::panic::resume_unwind(e);
            }
            if let Some((ep, tid)) = ME.with(|m| m.replace(None)) {
                thread_finished(ep, tid);
            }
            loop {
                std::thread::sleep(Duration::from_secs(3600));
            }
        }
    }
}
fn note_pthread(epoch: u64, tid: Tid) {
    let me = unsafe { libc::pthread_self() } as usize;
    let mut st = lock();
    if st.epoch == epoch {
        if let Some(t) = st.threads.get_mut(tid) {
            t.pthread = me;
        }
    }
}

/// `pthread_join(t)` issued by the code under test (`JoinHandle::join`, a `Drop` that joins a worker):
/// a scheduling operation that is enabled once the model thread running on OS thread `t` has
/// finished.  `false`: not ours (not a registered thread, or `t` is unknown to this execution) -- the
/// caller goes on to the real join.
thread_local! {
    static OWN_JOIN: Cell<bool> = const { Cell::new(false) };
}
pub fn join_wait(pthread: usize) -> bool {
    if std::thread::panicking() || OWN_JOIN.try_with(|f| f.get()).unwrap_or(true) {
        return false;
    }
    let reg = ME.try_with(|m| m.get()).ok().flatten();
    let target = {
        let mut st = lock();
        if std::env::var_os("DETSCHED_JOIN_TRACE").is_some() {
            eprintln!("join_wait({pthread:#x}): reg={reg:?} active={} aborting={} epoch={} threads={:?} pending={:?}", st.active, st.aborting, st.epoch, st.threads.iter().map(|t| (t.name.clone(), t.pthread)).collect::<Vec<_>>(), st.pending.iter().map(|p| p.2).collect::<Vec<_>>());
        }
        if !st.active || st.aborting || reg.map(|(ep, _)| ep) != Some(st.epoch) {
            return false;
        }
        // pthread ids are reused as soon as a thread has been joined: the live one is the latest
        match st.threads.iter().rposition(|t| t.pthread == pthread && pthread != 0) {
            Some(t) => t,
            None => {
                // a thread of the code under test that has checked in but that the harness has not
                // adopted (yet): joining it would wait for a thread that waits for the scheduler --
                // adopt it here, so that it can be run to its end
                match st.pending.iter().position(|(_, _, p)| *p == pthread && pthread != 0) {
                    Some(k) => {
                        let (ticket, op, pt) = st.pending.remove(k).unwrap();
                        let tid = st.threads.len();
                        st.threads.push(Th { status: Status::AtPoint(op), name: format!("joined{tid}"), harness: false, steps: 0, timed_out: false, free_timeouts: 0, pthread: pt });
                        st.adopted.push((ticket, tid));
                        sched().cv.notify_all();
                        tid
                    }
                    None => return false,
                }
            }
        }
    };
    match std::panic::catch_unwind(std::panic::AssertUnwindSafe(|| point(Op::Join(target)))) {
        Ok(()) => {
            // joined: its pthread id may now be given to a new thread
            let mut st = lock();
            if let Some(t) = st.threads.get_mut(target) {
                t.pthread = 0;
            }
            true
        }
        Err(e) => {
            if !e.is::<Aborted>() {
                std::panic::resume_unwind(e);
            }
            // torn down while waiting: fall through to the real join -- the target is being torn down too
            // and exits, the caller then runs on to its next scheduling point, where it unwinds
            false
        }
    }
}
/// `FUTEX_WAKE(addr, n)`: the number of registered threads currently blocked on that word, capped
/// at `n` (what the kernel would report).  `None`: not ours.
pub fn futex_wake(addr: usize, n: usize) -> Option<usize> {
    let own = sched() as *const Sched as usize;
    if addr >= own && addr < own + std::mem::size_of::<Sched>() {
        return None;
    }
    let reg = ME.try_with(|m| m.get()).ok().flatten();
    let st = lock();
    if !st.active || reg.map(|(ep, _)| ep) != Some(st.epoch) {
        return None;
    }
    let k = st.futex_addrs.iter().position(|a| *a == addr)?;
    let waiting = st.threads.iter().filter(|t| matches!(&t.status, Status::AtPoint(Op::FutexWait(kk, _)) if *kk == k)).count();
    Some(waiting.min(n))
}

/// Data choice among `n` alternatives (the explorer branches on it; free of preemption cost).
pub fn choose(n: usize) -> usize {
    if n <= 1 {
        return 0;
    }
    let mut st = lock();
    if !st.active || st.aborting || me(&st).is_none() {
        return 0;
    }
    st.decide(n, false, true)
}

pub fn new_obj(o: Obj) -> ObjId {
    let mut st = lock();
    if !st.active {
        return usize::MAX;
    }
    st.objs.push(o);
    st.objs.len() - 1
}
pub fn with_obj<R>(id: ObjId, f: impl FnOnce(&mut Obj) -> R) -> Option<R> {
    let mut st = lock();
    if !st.active || id >= st.objs.len() {
        return None;
    }
    Some(f(&mut st.objs[id]))
}
/// Append to the observation log of the current execution.
pub fn log(s: String) {
    let mut st = lock();
    if st.active {
        st.log.push(s);
    }
}
/// did the calling thread's last timed operation end by its time-out?
pub fn last_timed_out() -> bool {
    let st = lock();
    match me(&st) {
        Some(t) => st.threads[t].timed_out,
        None => false,
    }
}
pub fn current_tid() -> Option<Tid> {
    let st = lock();
    me(&st)
}
/// Number of scheduler steps so far (a total order usable as a logical clock).
pub fn now() -> usize {
    lock().steps
}
/// Install a monitor evaluated at every scheduling decision (while the scheduler lock is held:
/// it must not call back into detsched).
pub fn set_monitor(m: Monitor) {
    lock().monitor = Some(m);
}
pub fn clear_monitor() {
    lock().monitor = None;
}
pub fn record_ops(on: bool) {
    lock().record_ops = on;
}
pub fn ops_len() -> usize {
    lock().ops.len()
}
/// Snapshot of the operations applied so far (thread name, op), if recording is on.
pub fn ops_so_far() -> Vec<(String, Op)> {
    let st = lock();
    st.ops.iter().map(|(t, op)| (st.threads[*t].name.clone(), op.clone())).collect()
}
/// State of the thread called `name` as the scheduler sees it now.
pub fn thread_state(name: &str) -> ThState {
    let st = lock();
    for (i, t) in st.threads.iter().enumerate() {
        if t.name == name {
            return match &t.status {
                Status::Running => ThState::Running,
                Status::Finished => ThState::Finished,
                Status::AtPoint(op) => {
                    if st.enabled(i, op) {
                        ThState::Enabled(op.clone())
                    } else {
                        ThState::Blocked(op.clone())
                    }
                }
            };
        }
    }
    ThState::Unknown
}
/// Number of operations the thread called `name` has performed so far.
pub fn thread_steps(name: &str) -> usize {
    let st = lock();
    st.threads.iter().find(|t| t.name == name).map(|t| t.steps).unwrap_or(0)
}
/// Snapshot of a scheduler object.
pub fn obj(id: ObjId) -> Option<Obj> {
    let st = lock();
    st.objs.get(id).cloned()
}

fn thread_finished(epoch: u64, tid: Tid) {
    let mut st = lock();
    if st.epoch != epoch {
        return;
    }
    st.live_os_threads -= 1;
    st.threads[tid].status = Status::Finished;
    if tid == 0 {
        st.aborting = true;
    }
    if st.current == Some(tid) && !st.aborting {
        st.schedule_next();
    }
    sched().cv.notify_all();
}

/// Wait until `n` foreign threads (spawned by the subject) have checked in; give them ids.
pub fn adopt(n: usize, name: &str) {
    let mut st = lock();
    if !st.active {
        return;
    }
    // the thread to adopt is started by the code under test and checks in at its first operation; on a
    // loaded machine that can take long: give up only when nothing has been runnable for a while
    let t_start = Instant::now();
    let me = unsafe { libc::syscall(libc::SYS_gettid) } as i64;
    let mut idle_since: Option<Instant> = None;
    while st.pending.len() < n {
        let (g, to) = sched().cv.wait_timeout(st, Duration::from_millis(100)).unwrap_or_else(|e| e.into_inner());
        st = g;
        if to.timed_out() && t_start.elapsed() > Duration::from_secs(20) {
            if any_other_thread_runnable(me) {
                idle_since = None;
            } else if idle_since.is_none() {
                idle_since = Some(Instant::now());
            }
            if idle_since.map_or(false, |t| t.elapsed() > Duration::from_secs(10)) || t_start.elapsed() > Duration::from_secs(300) {
                panic!("detsched: adopt timed out");
            }
        }
    }
    for i in 0..n {
        let (ticket, op, pthread) = st.pending.pop_front().unwrap();
        let tid = st.threads.len();
        let nm = if n == 1 { name.to_string() } else { format!("{name}{i}") };
        // the OS thread is known from the moment the thread is adopted (a join of it may come before the
        // adopted thread has had a chance to run again)
        st.threads.push(Th { status: Status::AtPoint(op), name: nm, harness: false, steps: 0, timed_out: false, free_timeouts: 0, pthread });
        st.adopted.push((ticket, tid));
    }
    sched().cv.notify_all();
}

pub struct JoinHandle<T> {
    tid: Tid,
    res: Arc<Mutex<Option<std::thread::Result<T>>>>,
    os: Option<std::thread::JoinHandle<()>>,
}
impl<T> JoinHandle<T> {
    pub fn join(mut self) -> std::thread::Result<T> {
        point(Op::Join(self.tid));
        if let Some(h) = self.os.take() {
            // the model-level join has just happened: the OS-level one below is not another operation
            OWN_JOIN.with(|f| f.set(true));
            let _ = h.join();
            OWN_JOIN.with(|f| f.set(false));
        }
        self.res.lock().unwrap().take().unwrap()
    }
    pub fn tid(&self) -> Tid {
        self.tid
    }
}

/// Spawn a harness thread under the scheduler.
pub fn spawn<T: Send + 'static>(name: &str, f: impl FnOnce() -> T + Send + 'static) -> JoinHandle<T> {
    let (tid, epoch) = {
        let mut st = lock();
        assert!(st.active);
        let tid = st.threads.len();
        let epoch = st.epoch;
        st.threads.push(Th { status: Status::AtPoint(Op::Start), name: name.to_string(), harness: true, steps: 0, timed_out: false, free_timeouts: 0, pthread: 0 });
        st.live_os_threads += 1;
        (tid, epoch)
    };
    let res = Arc::new(Mutex::new(None));
    let res2 = res.clone();
    let os = std::thread::Builder::new()
        .name(name.to_string())
        .spawn(move || {
            ME.with(|m| m.set(Some((epoch, tid))));
            note_pthread(epoch, tid);
            EXIT_GUARD.with(|_| ());
            let r = std::panic::catch_unwind(std::panic::AssertUnwindSafe(|| {
                let st = lock();
                drop(wait_turn(st, tid, epoch));
                f()
            }));
            *res2.lock().unwrap() = Some(r);
        })
        .unwrap();
    JoinHandle { tid, res, os: Some(os) }
}

pub fn quiesce() {
    point(Op::Quiesce);
}
pub fn yield_now(tag: &'static str) {
    point(Op::Yield(tag));
}

#[derive(Debug, Clone)]
pub struct RunResult {
    pub trace: Vec<Dec>,
    pub verdict: Verdict,
    pub log: Vec<String>,
    pub ops: Vec<(String, Op)>,
    pub steps: usize,
    pub panicked: Option<String>,
}
impl RunResult {
    pub fn choices(&self) -> Vec<usize> {
        self.trace.iter().map(|d| d.chosen).collect()
    }
    pub fn preemptions(&self) -> usize {
        self.trace.iter().filter(|d| !d.data && d.chosen != 0 && (d.cur_enabled || d.chosen >= d.costly_from)).count()
    }
}

#[derive(Clone, Default)]
pub struct Config {
    pub writer_pref: bool,
    pub horizon: usize,
    pub record_ops: bool,
}

pub fn silence_panics() {
    std::panic::set_hook(Box::new(|_| {}));
}

/// Run one execution of `f` following `prefix`, then default choices.
pub fn run_one(prefix: &[usize], cfg: &Config, f: impl FnOnce() + Send + 'static) -> RunResult {
    let epoch;
    watchdog();
    PROGRESS.fetch_add(1, std::sync::atomic::Ordering::SeqCst);
    IN_EXECUTION.store(true, std::sync::atomic::Ordering::SeqCst);
    {
        let mut st = lock();
        assert!(!st.active, "detsched: nested run_one");
        st.epoch += 1;
        epoch = st.epoch;
        st.active = true;
        st.aborting = false;
        st.threads.clear();
        st.objs.clear();
        st.pending.clear();
        st.adopted.clear();
        st.prefix = prefix.to_vec();
        st.trace.clear();
        st.log.clear();
        st.ops.clear();
        st.record_ops = cfg.record_ops;
        st.steps = 0;
        st.verdict = Verdict::Ok;
        st.writer_pref = cfg.writer_pref;
        st.horizon = if cfg.horizon == 0 { 20000 } else { cfg.horizon };
        st.spin_seen.clear();
        st.futex_addrs.clear();
        st.last_tid = None;
        st.live_os_threads = 1;
        st.monitor = None;
        st.threads.push(Th { status: Status::Running, name: "main".into(), harness: true, steps: 0, timed_out: false, free_timeouts: 0, pthread: 0 });
        st.current = Some(0);
    }
    // main harness thread = tid 0, on a fresh OS thread so that unwinding is contained
    let h = std::thread::Builder::new()
        .name("harness-main".into())
        .spawn(move || {
            ME.with(|m| m.set(Some((epoch, 0))));
            note_pthread(epoch, 0);
            EXIT_GUARD.with(|_| ());
            let r = std::panic::catch_unwind(std::panic::AssertUnwindSafe(f));
            match r {
                Ok(()) => None,
                Err(e) => {
                    if e.is::<Aborted>() {
                        None
                    } else {
                        Some(e.downcast_ref::<String>().cloned().or_else(|| e.downcast_ref::<&str>().map(|s| s.to_string())).unwrap_or("panic".into()))
                    }
                }
            }
        })
        .unwrap();
    let panicked = h.join().unwrap_or(Some("harness thread died".into()));
    // main finished: abort everything else and wait for all OS threads to leave
    let mut st = lock();
    st.aborting = true;
    sched().cv.notify_all();
    // the threads leave by unwinding; on a loaded machine that can take long, so the time-out looks at
    // whether anything is still runnable, not only at the clock
    let t_start = Instant::now();
    let me = unsafe { libc::syscall(libc::SYS_gettid) } as i64;
    let mut idle_since: Option<Instant> = None;
    while st.live_os_threads > 0 {
        let (g, _) = sched().cv.wait_timeout(st, Duration::from_millis(20)).unwrap_or_else(|e| e.into_inner());
        st = g;
        sched().cv.notify_all();
        let mut expired = false;
        if t_start.elapsed() > Duration::from_secs(20) {
            if any_other_thread_runnable(me) {
                idle_since = None;
            } else if idle_since.is_none() {
                idle_since = Some(Instant::now());
            }
            expired = idle_since.map_or(false, |t| t.elapsed() > Duration::from_secs(10)) || t_start.elapsed() > Duration::from_secs(300);
        }
        if expired {
            eprintln!("detsched: teardown timed out, {} threads left", st.live_os_threads);
            std::process::exit(2);
        }
    }
    st.active = false;
    IN_EXECUTION.store(false, std::sync::atomic::Ordering::SeqCst);
    st.monitor = None;
    let ops = st.ops.iter().map(|(t, op)| (st.threads[*t].name.clone(), op.clone())).collect();
    RunResult { trace: st.trace.clone(), verdict: st.verdict.clone(), log: st.log.clone(), ops, steps: st.steps, panicked }
}

#[derive(Default, Clone, Debug)]
pub struct Stats {
    pub executions: usize,
    pub points: usize,
    pub decisions: usize,
    pub max_trace: usize,
    pub max_preemptions: usize,
    pub horizon_hits: usize,
    pub capped: bool,
}

/// Preemption-bounded stateless DFS.  `on_run` returns `false` to stop the search.
/// `max_exec` (0 = unlimited) is a cap; hitting it sets `stats.capped`.
pub fn explore(
    bound: usize,
    max_exec: usize,
    cfg: &Config,
    mk: &dyn Fn() -> Box<dyn FnOnce() + Send + 'static>,
    on_run: &mut dyn FnMut(&[usize], &RunResult) -> bool,
) -> Stats {
    let mut stack: Vec<Vec<usize>> = vec![vec![]];
    let mut stats = Stats::default();
    while let Some(prefix) = stack.pop() {
        if max_exec != 0 && stats.executions >= max_exec {
            stats.capped = true;
            break;
        }
        let r = run_one(&prefix, cfg, mk());
        if let Verdict::Diverged(m) = &r.verdict {
            eprintln!("detsched: replay divergence ({m}) on prefix {prefix:?}");
            std::process::exit(2);
        }
        stats.executions += 1;
        stats.points += r.steps;
        stats.decisions += r.trace.len();
        stats.max_trace = stats.max_trace.max(r.trace.len());
        stats.max_preemptions = stats.max_preemptions.max(r.preemptions());
        if r.verdict == Verdict::Horizon {
            stats.horizon_hits += 1;
        }
        let choices = r.choices();
        if !on_run(&choices, &r) {
            return stats;
        }
        let mut cost = 0usize;
        let mut costs = Vec::with_capacity(r.trace.len());
        for d in &r.trace {
            costs.push(cost);
            if !d.data && d.chosen != 0 && (d.cur_enabled || d.chosen >= d.costly_from) {
                cost += 1;
            }
        }
        for i in (prefix.len()..r.trace.len()).rev() {
            let d = &r.trace[i];
            for alt in (d.chosen + 1)..d.n {
                let extra = if !d.data && (d.cur_enabled || alt >= d.costly_from) { 1 } else { 0 };
                if costs[i] + extra > bound {
                    continue;
                }
                let mut p = choices[..i].to_vec();
                p.push(alt);
                stack.push(p);
            }
        }
    }
    stats
}

/// Replay `choices` twice and require identical logs, verdicts and decision shapes.
/// Returns the (stable) result or an error description (a machinery problem).
pub fn confirm(choices: &[usize], cfg: &Config, mk: &dyn Fn() -> Box<dyn FnOnce() + Send + 'static>) -> Result<RunResult, String> {
    let a = run_one(choices, cfg, mk());
    let b = run_one(choices, cfg, mk());
    let shape = |r: &RunResult| r.trace.iter().map(|d| (d.n, d.chosen, d.cur_enabled, d.data, d.costly_from)).collect::<Vec<_>>();
    if a.log != b.log || a.verdict != b.verdict || shape(&a) != shape(&b) || a.panicked != b.panicked {
        return Err(format!("nondeterministic replay: {:?}/{:?} vs {:?}/{:?}", a.verdict, a.log, b.verdict, b.log));
    }
    Ok(a)
}
