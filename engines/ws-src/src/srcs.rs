//! Case plumbing shared by the two sub-checks: the case type, the source-variant descriptor, the
//! violation reporter (stable keys), and the enumeration of all sources built from one tree.
use crate::mk::{self, Scratch, M};
use crate::tree::{self, Shape, Tree};
use assets_manager::source::{FileSystem, Source, Tar, Zip};
use serde_json::json;
use std::collections::BTreeMap;
use vcommon::SubResult;

#[derive(Clone, Debug)]
pub struct Case {
    pub shape: Shape,
    pub name_rot: usize,
    pub content_rot: usize,
}

#[derive(Clone, Debug)]
pub struct Variant {
    /// fs | zip | tar | embedded
    pub kind: &'static str,
    pub dirs: bool,
    pub prefix: bool,
    pub deflate: bool,
    pub order: String,
    /// mem | file | disk | tables
    pub backing: &'static str,
    /// how the archive bytes were produced
    pub writer: &'static str,
}

impl Variant {
    pub fn plain(kind: &'static str, backing: &'static str) -> Variant {
        Variant { kind, dirs: true, prefix: false, deflate: false, order: String::new(), backing, writer: "-" }
    }
    pub fn is_archive(&self) -> bool {
        self.kind == "zip" || self.kind == "tar"
    }
    /// the source kind that goes into violation keys
    pub fn srckind(&self) -> String {
        if self.is_archive() {
            format!("{}-{}", self.kind, if self.dirs { "dirs" } else { "nodirs" })
        } else {
            self.kind.to_string()
        }
    }
    pub fn nodirs(&self) -> bool {
        self.is_archive() && !self.dirs
    }
    pub fn json(&self) -> serde_json::Value {
        json!({"kind": self.kind, "dir_members": self.dirs, "dot_slash_prefix": self.prefix, "deflated": self.deflate, "order": self.order, "backing": self.backing, "writer": self.writer})
    }
}

/// Collects violations under *provisional* keys `sub:class:srckind:qkind`; the parent process
/// appends the 1-minimal tree and the failing query after merging (lowest case index wins).
pub struct Rep<'a> {
    pub res: &'a mut SubResult,
    pub sub: &'static str,
    pub subcheck: &'static str,
    pub case: &'a Case,
    pub tree_render: String,
    pub hits: BTreeMap<String, u64>,
}

impl<'a> Rep<'a> {
    pub fn new(res: &'a mut SubResult, sub: &'static str, subcheck: &'static str, case: &'a Case, t: &Tree) -> Self {
        Rep { res, sub, subcheck, case, tree_render: t.render(), hits: BTreeMap::new() }
    }
    /// `srckind` is normally `v.srckind()`; defect classes that do not depend on the directory-member
    /// flavour pass the bare kind.
    pub fn viol(&mut self, class: &str, srckind: &str, qkind: &str, v: &Variant, query: &str, detail: &str, extra: impl FnOnce() -> String) {
        let pkey = format!("{}:{}:{}:{}", self.sub, class, srckind, qkind);
        *self.hits.entry(pkey.clone()).or_insert(0) += 1;
        if v.backing == "file" {
            *self.hits.entry(format!("{pkey} [file-backed archive]")).or_insert(0) += 1;
        }
        let rank = self.res.cur_rank;
        if self.res.violations.iter().any(|x| x.key == pkey && x.rank <= rank) {
            return;
        }
        let mut enc = String::new();
        tree::encode(&self.case.shape, &mut enc);
        let desc = format!("tree {} as {} ({}): {} -> {}; {}", self.tree_render, srckind, v.json(), query, detail, extra());
        let replay = json!({
            "subcheck": self.subcheck, "pkey": pkey, "shape": enc, "name_rot": self.case.name_rot, "content_rot": self.case.content_rot,
            "tree": self.tree_render, "query": query, "detail": detail, "variant": v.json(),
        });
        self.res.violation(pkey, desc, replay);
    }
    pub fn flush(&mut self) {
        for (k, n) in std::mem::take(&mut self.hits) {
            self.res.add_note_count(&format!("hits {k}"), n);
        }
    }
}

/// Final keys: `<provisional>:tree=<1-minimal tree>:<query>:<symptom>`.
pub fn finalize_keys(res: &mut SubResult) {
    for v in &mut res.violations {
        let g = |k: &str| v.replay.get(k).and_then(|x| x.as_str()).unwrap_or("?").to_string();
        v.key = format!("{}:tree={}:{}:{}", g("pkey"), g("tree"), g("query"), g("detail"));
    }
    res.violations.sort_by(|a, b| a.key.cmp(&b.key));
}

#[derive(Clone, Copy, PartialEq, Eq)]
pub enum Mode {
    /// C04: every flavour x every member order
    Full,
    /// C11: every source kind, both directory-member flavours, plain and `./` names, two member orders
    Reduced,
}

#[derive(Default)]
pub struct SrcStats {
    /// microseconds spent building (not querying) sources, per kind
    pub us_build_fs: u64,
    pub us_build_emb: u64,
    pub us_build_zip: u64,
    pub us_build_tar: u64,
    pub fs: u64,
    pub embedded: u64,
    pub zip_mem: u64,
    pub zip_file: u64,
    pub tar_mem: u64,
    pub tar_file: u64,
    pub tar_longname_members: u64,
    pub embedded_disorder: Option<String>,
    pub open_failures: Vec<(Variant, String)>,
}

fn mach<E: std::fmt::Display>(what: &str) -> impl Fn(E) -> String + '_ {
    move |e| format!("{what}: {e}")
}

/// Builds every source of the tree and calls `f(source, variant, shared)`; `shared` is set for the
/// file-backed archives (used by the two-reader schedules).  Err = machinery failure.
pub fn for_each_source(t: &Tree, sc: &Scratch, mode: Mode, st: &mut SrcStats, f: &mut dyn FnMut(&dyn Source, &Variant, Option<&(dyn Source + Sync)>)) -> Result<(), String> {
    let root = sc.base.join("t");
    let t0 = std::time::Instant::now();
    mk::write_tree(&root, t, false).map_err(mach("write tree"))?;

    // (1) the directory on disk
    let fs = FileSystem::new(&root).map_err(mach("FileSystem::new"))?;
    st.fs += 1;
    st.us_build_fs += t0.elapsed().as_micros() as u64;
    f(&fs, &Variant::plain("fs", "disk"), None);

    // (1b) the same tree reached through symbolic links: a source sees a link to a file as that file and
    // a link to a directory as that directory (read / exists follow links, so listings must too)
    {
        let t0 = std::time::Instant::now();
        let lf = sc.base.join("lf");
        mk::write_tree_links(&lf, &root, t, false).map_err(mach("write linked tree (files)"))?;
        let fs = FileSystem::new(&lf).map_err(mach("FileSystem::new"))?;
        st.fs += 1;
        st.us_build_fs += t0.elapsed().as_micros() as u64;
        f(&fs, &Variant::plain("fs", "links-to-files"), None);
        // the embedding macro walks the directory at compile time: it must follow links as the
        // file-system source does
        let store = mk::embed_expand(&lf)?;
        st.embedded += 1;
        mk::with_embedded(&store, |emb| f(emb, &Variant::plain("embedded", "tables, tree of links-to-files"), None));
        if !t.dirs.is_empty() {
            let ld = sc.base.join("ld");
            mk::write_tree_links(&ld, &root, t, true).map_err(mach("write linked tree (dirs)"))?;
            let fs = FileSystem::new(&ld).map_err(mach("FileSystem::new"))?;
            st.fs += 1;
            f(&fs, &Variant::plain("fs", "links-to-dirs"), None);
            let store = mk::embed_expand(&ld)?;
            st.embedded += 1;
            mk::with_embedded(&store, |emb| f(emb, &Variant::plain("embedded", "tables, tree of links-to-dirs"), None));
        }
    }

    // (4) embedded, through the real expansion code
    let t0 = std::time::Instant::now();
    let store = mk::embed_expand(&root)?;
    st.us_build_emb += t0.elapsed().as_micros() as u64;
    st.embedded_disorder = mk::embedded_disorder(&store);
    st.embedded += 1;
    mk::with_embedded(&store, |emb| f(emb, &Variant::plain("embedded", "tables"), None));

    let has_dirs = !t.dirs.is_empty();
    let flavours: Vec<bool> = if has_dirs { vec![true, false] } else { vec![true] };

    // (2) zip
    // Full: {stored, deflated} x flavours x prefixes x orders.  Reduced: plain names deflated, `./` stored.
    let combos: Vec<(bool, bool)> = if mode == Mode::Full { vec![(false, false), (false, true), (true, false), (true, true)] } else { vec![(true, false), (false, true)] };
    let mut masters: [Option<mk::ZipMem>; 2] = [None, None];
    for (deflate, prefix) in combos {
        if masters[deflate as usize].is_none() {
            masters[deflate as usize] = Some(mk::zip_master(t, deflate).map_err(mach("zip master"))?);
        }
        let master = masters[deflate as usize].as_mut().unwrap();
        for &dirs in &flavours {
            let ml = mk::members(t, dirs, prefix);
            let ords = if mode == Mode::Full { mk::orders(t, &ml) } else { reduced_orders(t, &ml) };
            for (label, order) in ords {
                let t0 = std::time::Instant::now();
                let bytes = mk::zip_variant(master, t, &order, prefix).map_err(mach("zip variant"))?;
                let v = Variant { kind: "zip", dirs, prefix, deflate, order: label, backing: "mem", writer: "raw-copy" };
                let opened = Zip::from_bytes(&bytes[..]);
                st.us_build_zip += t0.elapsed().as_micros() as u64;
                match opened {
                    Ok(z) => {
                        st.zip_mem += 1;
                        f(&z, &v, None)
                    }
                    Err(e) => st.open_failures.push((v, e.to_string())),
                }
            }
        }
    }
    // (2b) a zip in which every file appears twice, once under its `./`-prefixed name and once under
    // its plain name (two spellings of one path, as produced by adding to an archive with another
    // tool): still an archive of the same tree
    for &dirs in &flavours {
        let master = masters.iter_mut().flatten().next().unwrap();
        let ml = mk::members(t, dirs, false);
        let order = mk::sorted_order(t, &ml);
        let built: std::io::Result<Vec<u8>> = (|| {
            let mut w = zip::ZipWriter::new(std::io::Cursor::new(Vec::with_capacity(1024)));
            for &m in &order {
                if let mk::M::File(i) = m {
                    // the first spelling holds an OLDER version of the file (an archive that was added
                    // to): the member that comes last is the one an extraction leaves on disk
                    use std::io::Write;
                    w.start_file(mk::member_path(t, m, true), zip::write::FileOptions::default().compression_method(zip::CompressionMethod::Stored)).map_err(|e| std::io::Error::new(std::io::ErrorKind::Other, e.to_string()))?;
                    w.write_all(format!("older version of member {i}, superseded").as_bytes())?;
                }
            }
            for &m in &order {
                let name = mk::member_path(t, m, false);
                match m {
                    mk::M::File(i) => {
                        let f = master.by_index_raw(i).map_err(|e| std::io::Error::new(std::io::ErrorKind::Other, e.to_string()))?;
                        w.raw_copy_file_rename(f, name).map_err(|e| std::io::Error::new(std::io::ErrorKind::Other, e.to_string()))?;
                    }
                    _ => w.add_directory(name, zip::write::FileOptions::default()).map_err(|e| std::io::Error::new(std::io::ErrorKind::Other, e.to_string()))?,
                }
            }
            Ok(w.finish().map_err(|e| std::io::Error::new(std::io::ErrorKind::Other, e.to_string()))?.into_inner())
        })();
        let bytes = built.map_err(mach("zip with two spellings"))?;
        let v = Variant { kind: "zip", dirs, prefix: false, deflate: false, order: "sorted".into(), backing: "mem", writer: "every file under `./name` (older content) and then `name`" };
        match Zip::from_bytes(&bytes[..]) {
            Ok(z) => {
                st.zip_mem += 1;
                f(&z, &v, None)
            }
            Err(e) => st.open_failures.push((v, e.to_string())),
        }
    }
    // the plain writer (start_file + write), in memory and file-backed (`Zip::open`, SyncFile):
    // deflated always, stored too in Full mode
    let methods: &[bool] = if mode == Mode::Full { &[true, false] } else { &[true] };
    for &deflate in methods {
        let ml = mk::members(t, true, false);
        let order = mk::sorted_order(t, &ml);
        let bytes = mk::zip_direct(t, &order, false, deflate).map_err(mach("zip direct"))?;
        let mut v = Variant { kind: "zip", dirs: true, prefix: false, deflate, order: "sorted".into(), backing: "mem", writer: "direct" };
        if mode == Mode::Full && deflate {
            match Zip::from_bytes(&bytes[..]) {
                Ok(z) => {
                    st.zip_mem += 1;
                    f(&z, &v, None)
                }
                Err(e) => st.open_failures.push((v.clone(), e.to_string())),
            }
        }
        {
            // a reader that hands out its bytes in small pieces (Read::read may always return less than asked)
            let mut v2 = v.clone();
            v2.backing = "reader with short reads";
            match Zip::from_reader(ShortReads::new(bytes.clone())) {
                Ok(z) => {
                    st.zip_mem += 1;
                    f(&z, &v2, None)
                }
                Err(e) => st.open_failures.push((v2, e.to_string())),
            }
        }
        let p = sc.base.join(if deflate { "archive-zip-deflated" } else { "archive-zip-stored" });
        std::fs::write(&p, &bytes).map_err(mach("write zip"))?;
        v.backing = "file";
        match Zip::open(&p) {
            Ok(z) => {
                st.zip_file += 1;
                f(&z, &v, if deflate { Some(&z) } else { None })
            }
            Err(e) => st.open_failures.push((v, e.to_string())),
        }
    }

    // (3) tar
    for &dirs in &flavours {
        for prefix in [false, true] {
            let ml = mk::members(t, dirs, prefix);
            let (blobs, longs) = mk::tar_blobs(t, &ml, prefix);
            let ords = if mode == Mode::Full { mk::orders(t, &ml) } else { reduced_orders(t, &ml) };
            for (label, order) in ords {
                let t0 = std::time::Instant::now();
                let bytes = mk::tar_concat(&blobs, &order);
                let v = Variant { kind: "tar", dirs, prefix, deflate: false, order: label, backing: "mem", writer: "manual" };
                let opened = Tar::from_bytes(&bytes[..]);
                st.us_build_tar += t0.elapsed().as_micros() as u64;
                match opened {
                    Ok(z) => {
                        st.tar_mem += 1;
                        st.tar_longname_members += longs;
                        f(&z, &v, None)
                    }
                    Err(e) => st.open_failures.push((v, e.to_string())),
                }
            }
        }
    }
    // (3b) an archive that was *updated* (`tar -r` / `tar -u`): an older version of every file member
    // (other contents), and every directory member a second time, precede the current members; the
    // archive still is an archive of the same tree (the later member wins)
    for &dirs in &flavours {
        let ml = mk::members(t, dirs, false);
        let (blobs, _) = mk::tar_blobs(t, &ml, false);
        let order = mk::sorted_order(t, &ml);
        let mut bytes = Vec::new();
        for &m in &order {
            let name = mk::member_path(t, m, false);
            let (b, _) = match m {
                mk::M::File(i) => {
                    let mut old = b"superseded ".to_vec();
                    old.extend_from_slice(&t.files[i].content[..t.files[i].content.len().min(7)]);
                    mk::tar_member(&name, false, &old)
                }
                _ => mk::tar_member(&name, true, &[]),
            };
            bytes.extend_from_slice(&b);
        }
        let cur = mk::tar_concat(&blobs, &order);
        bytes.extend_from_slice(&cur);
        let v = Variant { kind: "tar", dirs, prefix: false, deflate: false, order: "sorted".into(), backing: "mem", writer: "manual, updated archive (older members first)" };
        match Tar::from_bytes(&bytes[..]) {
            Ok(z) => {
                st.tar_mem += 1;
                f(&z, &v, None)
            }
            Err(e) => st.open_failures.push((v, e.to_string())),
        }
    }
    {
        let ml = mk::members(t, true, false);
        let order = mk::sorted_order(t, &ml);
        let bytes = mk::tar_direct(t, &order).map_err(mach("tar direct"))?;
        let mut v = Variant { kind: "tar", dirs: true, prefix: false, deflate: false, order: "sorted".into(), backing: "mem", writer: "tar::Builder" };
        if mode == Mode::Full {
            match Tar::from_bytes(&bytes[..]) {
                Ok(z) => {
                    st.tar_mem += 1;
                    f(&z, &v, None)
                }
                Err(e) => st.open_failures.push((v.clone(), e.to_string())),
            }
        }
        {
            let mut v2 = v.clone();
            v2.backing = "reader with short reads";
            match Tar::from_reader(ShortReads::new(bytes.clone())) {
                Ok(z) => {
                    st.tar_mem += 1;
                    f(&z, &v2, None)
                }
                Err(e) => st.open_failures.push((v2, e.to_string())),
            }
        }
        let p = sc.base.join("archive-tar");
        std::fs::write(&p, &bytes).map_err(mach("write tar"))?;
        v.backing = "file";
        match Tar::open(&p) {
            Ok(z) => {
                st.tar_file += 1;
                f(&z, &v, Some(&z))
            }
            Err(e) => st.open_failures.push((v, e.to_string())),
        }
    }
    Ok(())
}

/// An in-memory reader whose `read` never returns more than 1000 bytes and never crosses a 4 KiB
/// boundary: `Read::read` is allowed to return less than was asked for, whatever the reader.
#[derive(Clone)]
pub struct ShortReads {
    data: std::sync::Arc<Vec<u8>>,
    pos: u64,
}
impl ShortReads {
    pub fn new(data: Vec<u8>) -> Self {
        ShortReads { data: std::sync::Arc::new(data), pos: 0 }
    }
}
impl std::io::Read for ShortReads {
    fn read(&mut self, buf: &mut [u8]) -> std::io::Result<usize> {
        let pos = self.pos as usize;
        if pos >= self.data.len() || buf.is_empty() {
            return Ok(0);
        }
        let to_page = 4096 - pos % 4096;
        let n = buf.len().min(1000).min(to_page).min(self.data.len() - pos);
        buf[..n].copy_from_slice(&self.data[pos..pos + n]);
        self.pos += n as u64;
        Ok(n)
    }
}
impl std::io::Seek for ShortReads {
    fn seek(&mut self, s: std::io::SeekFrom) -> std::io::Result<u64> {
        let new = match s {
            std::io::SeekFrom::Start(n) => n as i64,
            std::io::SeekFrom::End(d) => self.data.len() as i64 + d,
            std::io::SeekFrom::Current(d) => self.pos as i64 + d,
        };
        if new < 0 {
            return Err(std::io::Error::new(std::io::ErrorKind::InvalidInput, "seek before start"));
        }
        self.pos = new as u64;
        Ok(self.pos)
    }
}

fn reduced_orders(t: &Tree, ml: &[M]) -> Vec<(String, Vec<M>)> {
    let s = mk::sorted_order(t, ml);
    let mut r = s.clone();
    r.reverse();
    if r == s {
        vec![("sorted".into(), s)]
    } else {
        vec![("sorted".into(), s), ("reversed".into(), r)]
    }
}

pub fn sid(id: &str) -> String {
    if id.is_empty() {
        "\"\"".to_string()
    } else {
        tree::short(id)
    }
}
