//! Bounded-exhaustive enumeration of directory-tree *shapes* (names and extensions as small
//! indices, canonical up to renaming), their instantiation over the concrete name alphabet, and the
//! oracle (plain maps) derived from the generating tree.
use serde::{Deserialize, Serialize};
use std::collections::{BTreeMap, BTreeSet};

pub const EXTS: [&str; 3] = ["", "x", "y"];
pub const N_NAMES: usize = 4;
pub const MAX_DEPTH: usize = 3;

/// The 4 concrete names: plain, plain, unicode + space, 200 characters.
pub fn names() -> [String; 4] {
    let mut long = String::new();
    while long.len() < 200 {
        long.push_str("L0123456789");
    }
    long.truncate(200);
    ["a".to_string(), "b".to_string(), "é x".to_string(), long]
}

/// One entry of a shape: `F(name class, extension index)` or `D(name class, children)`.
#[derive(Clone, Debug, PartialEq, Eq, PartialOrd, Ord, Hash, Serialize, Deserialize)]
pub enum Node {
    F(u8, u8),
    D(u8, Vec<Node>),
}

pub type Shape = Vec<Node>;

pub fn count_entries(s: &[Node]) -> usize {
    s.iter().map(|n| match n { Node::F(..) => 1, Node::D(_, c) => 1 + count_entries(c) }).sum()
}

pub fn depth_of(s: &[Node]) -> usize {
    s.iter().map(|n| match n { Node::F(..) => 1, Node::D(_, c) => 1 + depth_of(c) }).max().unwrap_or(0)
}

fn used_names(s: &[Node], acc: &mut u8) {
    for n in s {
        match n {
            Node::F(a, _) => *acc |= 1 << a,
            Node::D(a, c) => {
                *acc |= 1 << a;
                used_names(c, acc)
            }
        }
    }
}

fn relabel(s: &[Node], map: &[u8; N_NAMES]) -> Shape {
    let mut v: Shape = s
        .iter()
        .map(|n| match n {
            Node::F(a, e) => Node::F(map[*a as usize], *e),
            Node::D(a, c) => Node::D(map[*a as usize], relabel(c, map)),
        })
        .collect();
    v.sort();
    v
}

pub fn permutations(n: usize) -> Vec<Vec<usize>> {
    fn rec(cur: &mut Vec<usize>, used: &mut Vec<bool>, n: usize, out: &mut Vec<Vec<usize>>) {
        if cur.len() == n {
            out.push(cur.clone());
            return;
        }
        for i in 0..n {
            if !used[i] {
                used[i] = true;
                cur.push(i);
                rec(cur, used, n, out);
                cur.pop();
                used[i] = false;
            }
        }
    }
    let mut out = vec![];
    rec(&mut vec![], &mut vec![false; n], n, &mut out);
    out
}

/// Canonical representative of a shape under permutations of the name classes: the smallest
/// relabelling (in `Ord` of the sorted node vectors) onto the classes 0..k.
pub fn canonical(s: &[Node]) -> Shape {
    let mut used = 0u8;
    used_names(s, &mut used);
    let present: Vec<u8> = (0..N_NAMES as u8).filter(|i| used & (1 << i) != 0).collect();
    let k = present.len();
    let mut best: Option<Shape> = None;
    for p in permutations(k) {
        let mut map = [0u8; N_NAMES];
        for (j, &orig) in present.iter().enumerate() {
            map[orig as usize] = p[j] as u8;
        }
        let r = relabel(s, &map);
        if best.as_ref().map_or(true, |b| r < *b) {
            best = Some(r);
        }
    }
    best.unwrap_or_default()
}

/// All contents of one directory whose entries sit at `level` (root content = level 1) using at most
/// `budget` entries in total (sub-trees included).  Slots are taken in increasing order
/// (files by (name, ext), then directories by name) so every set appears once.  Constraint of a real
/// file system: a file without extension and a directory of the same name cannot coexist.
fn gen_contents(level: usize, budget: usize, memo: &mut BTreeMap<(usize, usize), Vec<(Shape, usize)>>) -> Vec<(Shape, usize)> {
    if let Some(v) = memo.get(&(level, budget)) {
        return v.clone();
    }
    // slots: 0..12 files, 12..16 dirs
    let mut out: Vec<(Shape, usize)> = vec![];
    fn rec(slot: usize, level: usize, left: usize, cur: &mut Shape, used: usize, out: &mut Vec<(Shape, usize)>, memo: &mut BTreeMap<(usize, usize), Vec<(Shape, usize)>>) {
        if slot == 16 {
            out.push((cur.clone(), used));
            return;
        }
        // skip this slot
        rec(slot + 1, level, left, cur, used, out, memo);
        if left == 0 {
            return;
        }
        if slot < 12 {
            let (n, e) = ((slot / 3) as u8, (slot % 3) as u8);
            cur.push(Node::F(n, e));
            rec(slot + 1, level, left - 1, cur, used + 1, out, memo);
            cur.pop();
        } else {
            let n = (slot - 12) as u8;
            if cur.iter().any(|x| *x == Node::F(n, 0)) {
                return; // conflict: file `n` (no extension) and directory `n` (the skip branch is done)
            }
            let subs = if level < MAX_DEPTH { gen_contents(level + 1, left - 1, memo) } else { vec![(vec![], 0)] };
            for (sub, cnt) in subs {
                cur.push(Node::D(n, sub));
                rec(slot + 1, level, left - 1 - cnt, cur, used + 1 + cnt, out, memo);
                cur.pop();
            }
        }
    }
    let mut cur = vec![];
    rec(0, level, budget, &mut cur, 0, &mut out, memo);
    memo.insert((level, budget), out.clone());
    out
}

/// All canonical shapes with at most `max_entries` entries and depth <= MAX_DEPTH, simplest first
/// (entries, depth, then node order).
pub fn all_shapes(max_entries: usize) -> Vec<Shape> {
    let mut memo = BTreeMap::new();
    let raw = gen_contents(1, max_entries, &mut memo);
    let mut set: BTreeSet<(usize, usize, Shape)> = BTreeSet::new();
    for (s, _) in raw {
        // only relabel shapes whose used classes are a prefix 0..k (every class has such a member)
        let mut used = 0u8;
        used_names(&s, &mut used);
        if used & (used + 1) != 0 {
            continue;
        }
        let c = canonical(&s);
        set.insert((count_entries(&c), depth_of(&c), c));
    }
    set.into_iter().map(|(_, _, s)| s).collect()
}

// ---------------------------------------------------------------------------------------------
// instances

#[derive(Clone, Debug)]
pub struct TFile {
    pub dir: Vec<String>,
    pub stem: String,
    pub ext: String,
    pub id: String,
    pub content: Vec<u8>,
}
impl TFile {
    pub fn file_name(&self) -> String {
        if self.ext.is_empty() { self.stem.clone() } else { format!("{}.{}", self.stem, self.ext) }
    }
    pub fn rel(&self) -> String {
        let mut p = self.dir.join("/");
        if !p.is_empty() {
            p.push('/');
        }
        p.push_str(&self.file_name());
        p
    }
}

#[derive(Clone, Debug)]
pub struct TDir {
    pub comps: Vec<String>,
    pub id: String,
    pub empty: bool,
}
impl TDir {
    pub fn rel(&self) -> String {
        self.comps.join("/")
    }
}

/// A concrete tree: files and (non-root) directories, parents before children.
#[derive(Clone, Debug)]
pub struct Tree {
    pub files: Vec<TFile>,
    pub dirs: Vec<TDir>,
}

pub const BIG: usize = 70 * 1024;

pub const N_CONTENT_KINDS: usize = 4;

/// Content kinds: 0 empty, 1 short (its own path), 2 70 KiB of highly compressible text,
/// 3 70 KiB of xorshift64* output seeded by the path: raw bytes (incompressible: deflate falls back
/// to stored blocks, the stream is > 70 KiB) or, with `utf8` (c11: one asset type goes through the
/// string loader, so everything must be valid UTF-8), mapped onto a 64-symbol ASCII alphabet
/// (6 bits of entropy per byte; deflate leaves > 50 KiB, still more than a 32 KiB decoder buffer).
pub fn make_content(kind: usize, rel: &str, utf8: bool) -> Vec<u8> {
    match kind % N_CONTENT_KINDS {
        0 => Vec::new(),
        1 => format!("<{rel}>").into_bytes(),
        2 => {
            // 70 KiB of valid UTF-8 that depends on the path and on the position
            let mut v = Vec::with_capacity(BIG + 64);
            let tag = &rel[..rel.len().min(24)];
            let mut i = 0u32;
            while v.len() < BIG {
                v.extend_from_slice(format!("{tag}:{i:06}\n").as_bytes());
                i += 1;
            }
            v.truncate(BIG);
            // never cut a multi-byte character
            while std::str::from_utf8(&v).is_err() {
                v.pop();
            }
            v
        }
        _ => {
            const ALPHA: &[u8; 64] = b"ABCDEFGHIJKLMNOPQRSTUVWXYZabcdefghijklmnopqrstuvwxyz0123456789+/";
            // FNV-1a of the path as seed (never 0)
            let mut x: u64 = 0xcbf29ce484222325;
            for b in rel.bytes() {
                x = (x ^ b as u64).wrapping_mul(0x100000001b3);
            }
            x |= 1;
            let mut v = Vec::with_capacity(BIG + 8);
            while v.len() < BIG {
                x ^= x >> 12;
                x ^= x << 25;
                x ^= x >> 27;
                let mut r = x.wrapping_mul(0x2545F4914F6CDD1D);
                if utf8 {
                    for _ in 0..8 {
                        v.push(ALPHA[(r >> 58) as usize]);
                        r <<= 6;
                    }
                } else {
                    v.extend_from_slice(&r.to_le_bytes());
                }
            }
            v.truncate(BIG);
            v
        }
    }
}

impl Tree {
    /// `name_rot`: class i gets NAMES[(i + name_rot) % 4]; `content_rot`: file j (depth-first order)
    /// gets content kind (j + content_rot) % 4 of {empty, short, 70 KiB compressible, 70 KiB incompressible}.
    pub fn instantiate(shape: &[Node], name_rot: usize, content_rot: usize, utf8: bool) -> Tree {
        let nm = names();
        let mut t = Tree { files: vec![], dirs: vec![] };
        fn walk(s: &[Node], comps: &mut Vec<String>, nm: &[String; 4], rot: usize, crot: usize, utf8: bool, t: &mut Tree) {
            for n in s {
                match n {
                    Node::F(a, e) => {
                        let stem = nm[(*a as usize + rot) % 4].clone();
                        let ext = EXTS[*e as usize].to_string();
                        let mut idc = comps.clone();
                        idc.push(stem.clone());
                        let mut f = TFile { dir: comps.clone(), stem, ext, id: idc.join("."), content: vec![] };
                        f.content = make_content(t.files.len() + crot, &f.rel(), utf8);
                        t.files.push(f);
                    }
                    Node::D(a, c) => {
                        comps.push(nm[(*a as usize + rot) % 4].clone());
                        t.dirs.push(TDir { comps: comps.clone(), id: comps.join("."), empty: c.is_empty() });
                        walk(c, comps, nm, rot, crot, utf8, t);
                        comps.pop();
                    }
                }
            }
        }
        walk(shape, &mut vec![], &nm, name_rot, content_rot, utf8, &mut t);
        t
    }

    /// Short rendering used in violation keys: files and empty directories, 200-char name as `L200`.
    pub fn render(&self) -> String {
        let long = &names()[3];
        let mut v: Vec<String> = self.files.iter().map(|f| f.rel()).collect();
        v.extend(self.dirs.iter().filter(|d| d.empty).map(|d| format!("{}/", d.rel())));
        v.sort();
        format!("[{}]", v.join(",")).replace(long.as_str(), "L200")
    }
}

pub fn short(s: &str) -> String {
    s.replace(names()[3].as_str(), "L200")
}

// ---------------------------------------------------------------------------------------------
// oracle

#[derive(Clone, Debug, PartialEq, Eq, PartialOrd, Ord, Hash)]
pub enum Ent {
    File(String, String),
    Dir(String),
}
impl Ent {
    pub fn show(&self) -> String {
        match self {
            Ent::File(i, e) => format!("File({},{:?})", short(i), e),
            Ent::Dir(i) => format!("Directory({})", short(i)),
        }
    }
}

#[derive(Clone, Debug, Default)]
pub struct Oracle {
    pub files: BTreeMap<(String, String), Vec<u8>>,
    pub dirs: BTreeMap<String, BTreeSet<Ent>>,
}

pub fn parent_id(id: &str) -> &str {
    match id.rfind('.') {
        Some(n) => &id[..n],
        None => "",
    }
}

impl Oracle {
    /// `prune_empty`: what an archive *without directory members* can represent: directories that
    /// hold no file anywhere below them do not exist (the root always does).
    pub fn from_tree(t: &Tree, prune_empty: bool) -> Oracle {
        let mut o = Oracle::default();
        o.dirs.insert(String::new(), BTreeSet::new());
        let keep = |d: &TDir| -> bool {
            !prune_empty || t.files.iter().any(|f| f.dir.len() >= d.comps.len() && f.dir[..d.comps.len()] == d.comps[..])
        };
        for d in &t.dirs {
            if keep(d) {
                o.dirs.insert(d.id.clone(), BTreeSet::new());
            }
        }
        for d in &t.dirs {
            if keep(d) {
                o.dirs.get_mut(parent_id(&d.id)).unwrap().insert(Ent::Dir(d.id.clone()));
            }
        }
        for f in &t.files {
            o.files.insert((f.id.clone(), f.ext.clone()), f.content.clone());
            o.dirs.get_mut(parent_id(&f.id)).unwrap().insert(Ent::File(f.id.clone(), f.ext.clone()));
        }
        o
    }

    /// ids of all files of the sub-tree rooted at directory `d` whose extension is in `exts`,
    /// one per (directory, id): the expected `RecursiveDirectory::ids()` as a sorted multiset.
    pub fn rec_ids(&self, d: &str, exts: &[&str], skip: Option<&str>) -> Vec<String> {
        let mut out = vec![];
        self.rec_ids_into(d, exts, skip, &mut out);
        out.sort();
        out
    }
    fn rec_ids_into(&self, d: &str, exts: &[&str], skip: Option<&str>, out: &mut Vec<String>) {
        out.extend(self.dir_ids(d, exts));
        if let Some(es) = self.dirs.get(d) {
            for e in es {
                if let Ent::Dir(c) = e {
                    if Some(c.as_str()) != skip {
                        self.rec_ids_into(c, exts, skip, out);
                    }
                }
            }
        }
    }
    /// expected `Directory::ids()`: sorted, duplicate-free
    pub fn dir_ids(&self, d: &str, exts: &[&str]) -> Vec<String> {
        let mut s = BTreeSet::new();
        if let Some(es) = self.dirs.get(d) {
            for e in es {
                if let Ent::File(i, x) = e {
                    if exts.contains(&x.as_str()) {
                        s.insert(i.clone());
                    }
                }
            }
        }
        s.into_iter().collect()
    }
}

// ---------------------------------------------------------------------------------------------
// compact text form of a shape (one line), used to hand the enumerated list to worker processes

pub fn encode(s: &[Node], out: &mut String) {
    for n in s {
        match n {
            Node::F(a, e) => {
                out.push('f');
                out.push((b'0' + a) as char);
                out.push((b'0' + e) as char);
            }
            Node::D(a, c) => {
                out.push('d');
                out.push((b'0' + a) as char);
                out.push('(');
                encode(c, out);
                out.push(')');
            }
        }
    }
}

pub fn decode(s: &str) -> Option<Shape> {
    fn rec(b: &[u8], i: &mut usize) -> Option<Shape> {
        let mut v = vec![];
        while *i < b.len() && b[*i] != b')' {
            match b[*i] {
                b'f' => {
                    v.push(Node::F(b.get(*i + 1)?.checked_sub(b'0')?, b.get(*i + 2)?.checked_sub(b'0')?));
                    *i += 3;
                }
                b'd' => {
                    let a = b.get(*i + 1)?.checked_sub(b'0')?;
                    if *b.get(*i + 2)? != b'(' {
                        return None;
                    }
                    *i += 3;
                    let c = rec(b, i)?;
                    if *b.get(*i)? != b')' {
                        return None;
                    }
                    *i += 1;
                    v.push(Node::D(a, c));
                }
                _ => return None,
            }
        }
        Some(v)
    }
    let b = s.trim().as_bytes();
    let mut i = 0;
    let v = rec(b, &mut i)?;
    if i == b.len() { Some(v) } else { None }
}
