//! `srcmc`: bounded-exhaustive directory trees, each turned into every source kind of
//! `assets_manager` (directory on disk, zip, tar, embedded) and checked on the real code against the
//! generating tree (properties C04 and C11, see /verif/DESIGN.md §3).
mod c04;
mod c11;
mod mk;
mod srcs;
mod tree;

/// the real expansion code of `embed!`, compiled into this crate
#[allow(dead_code)]
#[path = "/repo/macros/src/embedded.rs"]
mod embedded_macro;

use serde_json::{json, Value};
use srcs::Case;
use std::time::Duration;
use vcommon::{Args, SubResult};

/// The real `embed!` on a checked-in fixture tree: cross-check of the run-time interpretation.
static FIXTURE: assets_manager::source::RawEmbedded<'static> = assets_manager::source::embed!("fixture");

fn fixture_crosscheck(res: &mut SubResult) -> Result<(), String> {
    let dir = std::path::Path::new(env!("CARGO_MANIFEST_DIR")).join("fixture");
    let store = mk::embed_expand(&dir)?;
    let files_rt: Vec<((&str, &str), &[u8])> = store.files.iter().map(|((i, e), b)| ((i.as_str(), e.as_str()), b.as_slice())).collect();
    let dirs_rt: Vec<(String, Vec<mk::EmbEnt>)> = store.dirs.clone();
    let dirs_ct: Vec<(String, Vec<mk::EmbEnt>)> = FIXTURE
        .dirs
        .iter()
        .map(|(i, es)| {
            (
                i.to_string(),
                es.iter()
                    .map(|e| match e {
                        assets_manager::source::DirEntry::File(a, b) => mk::EmbEnt::File(a.to_string(), b.to_string()),
                        assets_manager::source::DirEntry::Directory(a) => mk::EmbEnt::Dir(a.to_string()),
                    })
                    .collect(),
            )
        })
        .collect();
    let same = FIXTURE.files == &files_rt[..] && dirs_ct == dirs_rt;
    res.traces_validated += 1;
    res.note("real embed!(\"fixture\") vs run-time interpretation of expand_dir", json!(if same { "identical tables" } else { "DIFFERENT" }));
    if !same {
        let rep = json!({"subcheck": "c04_sources", "pkey": "c04:embed-crosscheck:embedded:tables", "tree": "fixture", "query": "embed!(\"fixture\")", "detail": "compile-time tables differ from the interpreted expansion (fixture changed after the build, or the interpreter is wrong)"});
        res.violation_ranked("c04:embed-crosscheck:embedded:tables".into(), format!("compile-time {:?} / run-time {:?}", FIXTURE.dirs, dirs_rt), rep, 0);
    }
    Ok(())
}

fn shapes_for(args: &mut Args, max_entries: usize) -> (Vec<tree::Shape>, Option<std::path::PathBuf>) {
    // workers get the list from the parent (the enumeration of <= 6 entries takes a while)
    if let Some(p) = args.rest.iter().position(|a| a == "--shapes") {
        let f = &args.rest[p + 1];
        let txt = std::fs::read_to_string(f).unwrap_or_else(|e| {
            eprintln!("MACHINERY: cannot read shape list {f}: {e}");
            std::process::exit(2)
        });
        let v: Vec<tree::Shape> = txt.lines().map(|l| tree::decode(l).expect("shape line")).collect();
        return (v, None);
    }
    let v = tree::all_shapes(max_entries);
    let path = std::env::temp_dir().join(format!("srcmc-shapes-{}-{}.txt", std::process::id(), args.subcheck));
    let mut txt = String::new();
    for s in &v {
        tree::encode(s, &mut txt);
        txt.push('\n');
    }
    if let Err(e) = std::fs::write(&path, txt) {
        eprintln!("MACHINERY: cannot write shape list: {e}");
        std::process::exit(2)
    }
    args.rest.push("--shapes".into());
    args.rest.push(path.display().to_string());
    (v, Some(path))
}

/// All 4 rotations of every shape with <= `full_upto` entries; one rotation (shape index + seed,
/// mod 4) of the larger ones.
fn cases_of(shapes: &[tree::Shape], full_upto: usize, seed: u64) -> Vec<Case> {
    let mut v = Vec::with_capacity(shapes.len() * 4);
    for (i, s) in shapes.iter().enumerate() {
        if tree::count_entries(s) <= full_upto {
            for r in 0..4 {
                v.push(Case { shape: s.clone(), name_rot: r, content_rot: r });
            }
        } else {
            let r = ((i as u64 + seed) % 4) as usize;
            v.push(Case { shape: s.clone(), name_rot: r, content_rot: r });
        }
    }
    v
}

const INSTANCES: &str = "each shape is instantiated 4 times: name class i -> NAMES[(i+r) mod 4], NAMES = [a, b, 'é x', 200-char name], and file j (depth-first) gets content kind (j+r) mod 4 of {empty, short, 70 KiB compressible text, 70 KiB of xorshift64* output: raw incompressible bytes in c04 (deflated stream > 70 KiB), 64-symbol ASCII in c11 (valid UTF-8, deflates to > 50 KiB)}, r = 0..3 — every special name occurs in every class position and every file position sees every content kind";

fn run_sub(mut args: Args) -> SubResult {
    let c04 = args.subcheck == "c04_sources";
    let prop = if c04 { "C04" } else { "C11" };
    let mut res = SubResult::new(prop, &args.subcheck);
    let max_entries = match (c04, args.thorough()) {
        (_, false) => 4,
        (true, true) => 6,
        (false, true) => 5,
    };
    let is_worker = args.worker.is_some();
    let (shapes, tmpfile) = shapes_for(&mut args, max_entries);
    let full_upto = if c04 && args.thorough() { 5 } else { max_entries };
    let cases = cases_of(&shapes, full_upto, args.seed);
    res.bound = if c04 {
        format!(
            "all {} canonical tree shapes with <= {max_entries} entries, depth <= 3, 4 name classes x extensions {{\"\",x,y}} (file `n` and directory `n` never coexist; `n.x` and `n/` do); {INSTANCES}. Per tree: FileSystem (the directory itself, and the same tree reached through symbolic links: every file a link, every top-level directory a link); Embedded via the real expand_dir; zip {{stored,deflated}} x {{dir members, none}} x {{plain, ./ (+ a `./` root member)}} x member orders (all permutations for <= 5 members, else sorted/reversed/dirs-last) in memory + plain-writer archives (start_file + write) deflated in memory and, deflated and stored, file-backed (Zip::open); tar {{dir members, none}} x {{plain, ./}} x the same orders, GNU long-name members for every name > 100 bytes, in memory + 1 tar::Builder archive in memory and file-backed. Queries: every id of the tree, every proper prefix, \"\", 2 absent ids x extensions {{\"\",x,y}} x read/exists(File)/exists(Directory)/read_dir",
            shapes.len()
        )
    } else {
        format!(
            "all {} canonical tree shapes with <= {max_entries} entries (same generator as c04_sources); {INSTANCES}. Per tree: FileSystem, Embedded (real expand_dir), zip and tar {{dir members, none}} x {{plain, ./ prefix}} x {{sorted, reversed}} in memory (zip: plain deflated, ./ stored) + file-backed; asset types with extension lists [x], [x,y] (string loader), [\"\"], [x,\"\"], [] each also as Arc<T>; every directory id incl. \"\", one absent id and every file id: load_dir, load_rec_dir, iter on an AssetCache (TXY also on a LocalAssetCache); on one representative per source kind (fs, embedded, sorted plain-named archive of each flavour): iter_cached after pre-loading every subset of <= 3 ids of the sub-tree (fresh cache each: AssetCache for T, LocalAssetCache for Arc<T>); read_dir fault injected at every directory in turn (same cache kinds)",
            shapes.len()
        )
    };
    res.rule = "cases = (canonical shape, rotation r) enumerated simplest-first (entries, depth, node order); a shape is canonical up to permutation of the 4 name classes; distinct = hashes of the normalised answer tables observed (c04) / expected listing tables (c11); evaluations = (tree, source instance[, asset type, cache]) pairs compared with the oracle".into();
    if c04 && args.thorough() {
        res.cap("c04 thorough: the 159047 shapes with exactly 6 entries are run under 1 of their 4 instantiations each (rotation = (shape index + seed) mod 4); all shapes with <= 5 entries under all 4");
    }
    if !c04 && args.thorough() {
        res.cap("c11 thorough stops at 5 entries (c04_sources covers 6): the cache-level work per tree is several times that of c04");
    }
    let total = cases.len();
    let timeout = Duration::from_secs(if args.thorough() { 6000 } else { 1800 });
    let mut res = vcommon::run_cases(&args, res, total, timeout, |idx, res| {
        let r = if c04 { c04::run_case(&cases[idx], res) } else { c11::run_case(&cases[idx], res) };
        if let Err(e) = r {
            eprintln!("MACHINERY: case {idx}: {e}");
            std::process::exit(2);
        }
        if idx % 97 == 3 {
            let t = tree::Tree::instantiate(&cases[idx].shape, cases[idx].name_rot, cases[idx].content_rot, false);
            res.sample(json!({"case": idx, "tree": t.render(), "rotation": cases[idx].name_rot}));
        }
    });
    debug_assert!(!is_worker);
    if let Some(p) = tmpfile {
        let _ = std::fs::remove_file(p);
    }
    if c04 {
        if let Err(e) = fixture_crosscheck(&mut res) {
            eprintln!("MACHINERY: fixture cross-check: {e}");
            std::process::exit(2);
        }
        res.note(
            "schedules",
            json!("2 readers x 2 calls on the file-backed Zip and Tar of every tree: all 6 interleavings at call granularity, executed by two real threads taking turns. No finer interleaving exists to enumerate: Zip::read / Tar::read work on a private clone of the reader (ZipArchive clone / SyncFile clone), SyncFile uses positional reads (pread) and the index maps are immutable after open — there is no shared mutable state and no synchronisation operation inside a call."),
        );
    }
    res.note("shapes", json!(shapes.len()));
    res.note("cases", json!(total));
    srcs::finalize_keys(&mut res);
    res
}

fn replay(file: &str) -> i32 {
    let txt = match std::fs::read_to_string(file) {
        Ok(t) => t,
        Err(e) => {
            eprintln!("cannot read {file}: {e}");
            return 2;
        }
    };
    let w: Value = match serde_json::from_str(&txt) {
        Ok(v) => v,
        Err(e) => {
            eprintln!("bad witness file: {e}");
            return 2;
        }
    };
    let r = w.get("replay").unwrap_or(&w);
    let g = |k: &str| r.get(k).and_then(|x| x.as_str()).unwrap_or("").to_string();
    let (sub, pkey) = (g("subcheck"), g("pkey"));
    println!("replaying {}  [{}]", w.get("key").and_then(|k| k.as_str()).unwrap_or(&pkey), sub);
    let mut res = SubResult::new("", &sub);
    if pkey == "c04:embed-crosscheck:embedded:tables" {
        if let Err(e) = fixture_crosscheck(&mut res) {
            eprintln!("MACHINERY: {e}");
            return 2;
        }
    } else {
        let Some(shape) = tree::decode(&g("shape")) else {
            eprintln!("bad witness: no shape");
            return 2;
        };
        let case = Case { shape, name_rot: r["name_rot"].as_u64().unwrap_or(0) as usize, content_rot: r["content_rot"].as_u64().unwrap_or(0) as usize };
        let t = tree::Tree::instantiate(&case.shape, case.name_rot, case.content_rot, false);
        println!("tree {} (rotation {}), all sources of the sub-check are rebuilt and queried", t.render(), case.name_rot);
        let out = match sub.as_str() {
            "c04_sources" => c04::run_case(&case, &mut res),
            "c11_dirs" => c11::run_case(&case, &mut res),
            o => {
                eprintln!("unknown subcheck {o:?} in witness");
                return 2;
            }
        };
        if let Err(e) = out {
            eprintln!("MACHINERY: {e}");
            return 2;
        }
    }
    let mut hit = false;
    for v in &res.violations {
        let mark = if v.key == pkey { "  <== the recorded violation" } else { "" };
        println!("observed {}: {}{}", v.key, v.desc, mark);
        hit |= v.key == pkey;
    }
    if hit {
        println!("REPRODUCED");
        1
    } else {
        println!("not reproduced ({} other violations on this tree)", res.violations.len());
        0
    }
}

fn main() {
    let args = vcommon::parse_args();
    if let Some(f) = &args.replay {
        std::process::exit(replay(f));
    }
    match args.subcheck.as_str() {
        "c04_sources" | "c11_dirs" => {
            let out = args.out.clone();
            let res = run_sub(args);
            match out {
                Some(o) => res.write(&o),
                None => println!("{}", serde_json::to_string_pretty(&res).unwrap()),
            }
        }
        "shapes" => {
            for n in 0..=6 {
                let t = std::time::Instant::now();
                println!("<= {n} entries: {} shapes ({:?})", tree::all_shapes(n).len(), t.elapsed());
            }
        }
        o => {
            eprintln!("unknown subcheck {o:?} (c04_sources, c11_dirs)");
            std::process::exit(2)
        }
    }
}
