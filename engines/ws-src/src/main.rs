mod tree;
fn main() {
    for n in 0..=6 {
        let t = std::time::Instant::now();
        let s = tree::all_shapes(n);
        println!("{n}: {} shapes in {:?}", s.len(), t.elapsed());
        if n == 2 { for x in &s { println!("  {}", tree::Tree::instantiate(x,0,0).render()); } }
    }
}
