//! `c04_sources`: every source built from one generated tree answers like the tree itself.
use crate::mk::Scratch;
use crate::srcs::{for_each_source, sid, Case, Mode, Rep, SrcStats, Variant};
use crate::tree::{Ent, Oracle, Tree, EXTS};
use assets_manager::source::{DirEntry, Source};
use std::collections::BTreeSet;
use std::hash::{Hash, Hasher};
use std::io::ErrorKind;
use std::sync::{Condvar, Mutex};
use vcommon::SubResult;

/// ids asked of every source: every file / directory id of the tree, every proper prefix, the root,
/// one absent top-level id and one absent id below the first directory.  (The kind-confused ids are
/// in there by construction: all four operations are applied to every id.)
pub fn query_ids(t: &Tree) -> Vec<String> {
    let mut s: BTreeSet<String> = BTreeSet::new();
    s.insert(String::new());
    s.insert("zz".into());
    let mut add = |id: &str| {
        let mut cur = id;
        loop {
            s.insert(cur.to_string());
            match cur.rfind('.') {
                Some(n) => cur = &cur[..n],
                None => break,
            }
        }
    };
    for f in &t.files {
        add(&f.id);
    }
    for d in &t.dirs {
        add(&d.id);
    }
    if let Some(d) = t.dirs.first() {
        s.insert(format!("{}.zz", d.id));
    }
    s.into_iter().collect()
}

fn kind_name(k: ErrorKind) -> String {
    format!("{k:?}")
}

pub fn list(src: &dyn Source, id: &str) -> Result<Vec<Ent>, ErrorKind> {
    let mut v = vec![];
    src.read_dir(id, &mut |e| {
        v.push(match e {
            DirEntry::File(i, x) => Ent::File(i.to_string(), x.to_string()),
            DirEntry::Directory(i) => Ent::Dir(i.to_string()),
        })
    })
    .map_err(|e| e.kind())?;
    Ok(v)
}

/// All queries on one source against the oracle; returns the hash of the normalised answers.
pub fn check_source(src: &dyn Source, v: &Variant, o: &Oracle, ids: &[String], rep: &mut Rep) -> u64 {
    let sk = v.srckind();
    let is_fs = v.kind == "fs";
    let nodirs = v.nodirs();
    let empty_archive = v.is_archive() && o.files.is_empty() && o.dirs.len() == 1;
    let mut h = std::collections::hash_map::DefaultHasher::new();
    let mut nq = 0u64;
    for id in ids {
        // the root is a directory id only: an empty *file* id is not a valid input (on the file
        // system `File("", ext)` would even name a sibling of the root)
        let file_exts: &[&str] = if id.is_empty() { &[] } else { &EXTS };
        let mut key = (id.clone(), String::new());
        for &ext in file_exts {
            // ---- read
            nq += 2;
            key.1.clear();
            key.1.push_str(ext);
            let exp = o.files.get(&key);
            let q = || format!("read({},{:?})", sid(id), ext);
            match (exp, src.read(id, ext)) {
                (Some(want), Ok(got)) => {
                    let got = got.as_ref();
                    let same = got == &want[..];
                    (0u8, got.len(), same).hash(&mut h);
                    if !same {
                        let at = got.iter().zip(want.iter()).position(|(a, b)| a != b).unwrap_or(got.len().min(want.len()));
                        rep.viol("wrong-bytes", &sk, "read", v, &q(), "content differs", || format!("got {} bytes, stored {} bytes, first difference at {at}", got.len(), want.len()));
                    }
                }
                (Some(want), Err(e)) => {
                    (1u8, e.kind()).hash(&mut h);
                    rep.viol("missing-file", &sk, "read", v, &q(), &format!("Err({:?})", e.kind()), || format!("the tree holds {} bytes there", want.len()));
                }
                (None, Ok(got)) => {
                    (0u8, got.as_ref().len(), false).hash(&mut h);
                    rep.viol("phantom-file", &sk, "read", v, &q(), "Ok", || format!("{} bytes for a file the tree does not hold", got.as_ref().len()));
                }
                (None, Err(e)) => {
                    (1u8, e.kind()).hash(&mut h);
                    if e.kind() != ErrorKind::NotFound {
                        let class = if is_fs && ext.is_empty() && o.dirs.contains_key(id) { "errkind-kind-confusion" } else { "errkind" };
                        rep.viol(class, &sk, "read", v, &q(), &format!("Err({:?})", e.kind()), || "absent file must be reported as NotFound (the archives and Embedded do)".into());
                    }
                }
            }
            // ---- exists(File)
            let q = || format!("exists(File({},{:?}))", sid(id), ext);
            let got = src.exists(DirEntry::File(id, ext));
            got.hash(&mut h);
            if got != exp.is_some() {
                if got {
                    let class = if is_fs && ext.is_empty() && o.dirs.contains_key(id) { "exists-ignores-kind" } else { "exists-false-pos" };
                    rep.viol(class, &sk, "exists_file", v, &q(), "true", || "no such file in the tree (a directory has that path)".into());
                } else {
                    rep.viol("exists-false-neg", &sk, "exists_file", v, &q(), "false", || "the tree holds that file".into());
                }
            }
        }
        // ---- exists(Directory)
        nq += 2;
        let exp = o.dirs.get(id);
        let q = format!("exists(Directory({}))", sid(id));
        let got = src.exists(DirEntry::Directory(id));
        got.hash(&mut h);
        if got != exp.is_some() {
            if got {
                let class = if is_fs && o.files.contains_key(&(id.clone(), String::new())) { "exists-ignores-kind" } else { "exists-false-pos" };
                rep.viol(class, &sk, "exists_dir", v, &q, "true", || "no such directory in the tree (a file has that path)".into());
            } else if empty_archive && id.is_empty() {
                rep.viol("empty-root", v.kind, "exists_dir", v, &q, "false", || "the root of an archive without any entry does not exist".into());
            } else if nodirs {
                rep.viol("implicit-dir", &sk, "exists_dir", v, &q, "false", || "directory without an archive member of its own, files below it are present".into());
            } else {
                rep.viol("exists-false-neg", &sk, "exists_dir", v, &q, "false", || "the tree holds that directory".into());
            }
        }
        // ---- read_dir
        let q = format!("read_dir({})", sid(id));
        match (exp, list(src, id)) {
            (Some(want), Ok(got)) => {
                let mut sorted = got.clone();
                sorted.sort();
                sorted.hash(&mut h);
                let gotset: BTreeSet<&Ent> = got.iter().collect();
                let missing: Vec<&Ent> = want.iter().filter(|e| !gotset.contains(e)).collect();
                let extra: Vec<&Ent> = gotset.iter().copied().filter(|e| !want.contains(*e)).collect();
                let dups: Vec<&Ent> = sorted.windows(2).filter(|w| w[0] == w[1]).map(|w| &w[0]).collect();
                if !(missing.is_empty() && extra.is_empty() && dups.is_empty()) {
                    let show = |v: &[&Ent]| v.iter().map(|e| e.show()).collect::<Vec<_>>().join(",");
                    if nodirs && extra.is_empty() && dups.is_empty() && missing.iter().all(|e| matches!(e, Ent::Dir(_))) {
                        rep.viol("implicit-dir", &sk, "read_dir", v, &q, &format!("missing {}", missing[0].show()), || format!("all missing: [{}]", show(&missing)));
                    } else {
                        let mut d = vec![];
                        if !missing.is_empty() {
                            d.push(format!("missing {}", missing[0].show()));
                        }
                        if !extra.is_empty() {
                            d.push(format!("extra {}", extra[0].show()));
                        }
                        if !dups.is_empty() {
                            d.push(format!("twice {}", dups[0].show()));
                        }
                        rep.viol("listing", &sk, "read_dir", v, &q, &d.join(" "), || format!("missing [{}] extra [{}] twice [{}]", show(&missing), show(&extra), show(&dups)));
                    }
                }
                // entries the tree does not hold must at least be usable under the id they were listed with
                for e in extra {
                    nq += 1;
                    let ok = match e {
                        Ent::File(i, x) => src.read(i, x).is_ok(),
                        Ent::Dir(i) => list(src, i).is_ok(),
                    };
                    if !ok {
                        rep.viol("listed-unusable", &sk, "read_dir", v, &q, &format!("lists {} which cannot be read", e.show()), String::new);
                    }
                }
            }
            (Some(_), Err(k)) => {
                (1u8, k).hash(&mut h);
                let d = format!("Err({k:?})");
                if empty_archive && id.is_empty() {
                    rep.viol("empty-root", v.kind, "read_dir", v, &q, &d, || "the root of an archive without any entry cannot be listed".into());
                } else if nodirs && k == ErrorKind::NotFound {
                    rep.viol("implicit-dir", &sk, "read_dir", v, &q, &d, || "directory without an archive member of its own and no member directly inside it".into());
                } else {
                    rep.viol("missing-dir", &sk, "read_dir", v, &q, &d, || "the tree holds that directory".into());
                }
            }
            (None, Ok(got)) => {
                let mut sorted = got;
                sorted.sort();
                sorted.hash(&mut h);
                rep.viol("phantom-dir", &sk, "read_dir", v, &q, "Ok", || format!("{} entries for a directory the tree does not hold", sorted.len()));
            }
            (None, Err(k)) => {
                (1u8, k).hash(&mut h);
                if k != ErrorKind::NotFound {
                    let class = if is_fs && o.files.contains_key(&(id.clone(), String::new())) { "errkind-kind-confusion" } else { "errkind" };
                    rep.viol(class, &sk, "read_dir", v, &q, &format!("Err({k:?})"), || "absent directory must be reported as NotFound (the archives and Embedded do)".into());
                }
            }
        }
    }
    rep.res.transitions += nq;
    h.finish()
}

#[derive(Clone, Debug)]
enum Call {
    Read(String, String),
    ReadDir(String),
}
#[derive(Clone, Debug, PartialEq, Eq)]
enum Ans {
    Bytes(Vec<u8>),
    List(Vec<Ent>),
    Err(String),
}
fn run_call(src: &dyn Source, c: &Call) -> Ans {
    match c {
        Call::Read(i, x) => match src.read(i, x) {
            Ok(b) => Ans::Bytes(b.as_ref().to_vec()),
            Err(e) => Ans::Err(kind_name(e.kind())),
        },
        Call::ReadDir(i) => match list(src, i) {
            Ok(mut l) => {
                l.sort();
                Ans::List(l)
            }
            Err(k) => Ans::Err(kind_name(k)),
        },
    }
}

/// Two readers x two calls on one (file-backed) source: all 6 interleavings at call granularity,
/// each executed by two real threads that take turns.  Every answer must equal the answer of the
/// same call made alone.
pub fn two_readers(src: &(dyn Source + Sync), v: &Variant, t: &Tree, rep: &mut Rep) -> u64 {
    let first = t.files.first();
    let last = t.files.last();
    let d_last = t.dirs.last().map(|d| d.id.clone()).unwrap_or_default();
    let rd = |f: Option<&crate::tree::TFile>| match f {
        Some(f) => Call::Read(f.id.clone(), f.ext.clone()),
        None => Call::ReadDir(String::new()),
    };
    let calls: [[Call; 2]; 2] = [[rd(first), Call::ReadDir(String::new())], [rd(last), Call::ReadDir(d_last)]];
    let alone: Vec<Vec<Ans>> = calls.iter().map(|cs| cs.iter().map(|c| run_call(src, c)).collect()).collect();
    let scheds: [[usize; 4]; 6] = [[0, 0, 1, 1], [0, 1, 0, 1], [0, 1, 1, 0], [1, 0, 0, 1], [1, 0, 1, 0], [1, 1, 0, 0]];
    // one pair of threads runs the 6 interleavings back to back: global step k belongs to thread
    // scheds[k / 4][k % 4]; a thread performs its next call only when the step counter says so (blocking hand-off)
    let step = (Mutex::new(0usize), Condvar::new());
    let got: Vec<Vec<Vec<Ans>>> = std::thread::scope(|s| {
        let hs: Vec<_> = (0..2)
            .map(|me| {
                let (step, calls, scheds) = (&step, &calls, &scheds);
                s.spawn(move || {
                    let mut out = vec![];
                    for round in 0..scheds.len() {
                        let mut mine = vec![];
                        for c in &calls[me] {
                            {
                                let mut k = step.0.lock().unwrap();
                                while !(*k / 4 == round && scheds[round][*k % 4] == me) {
                                    k = step.1.wait(k).unwrap();
                                }
                            }
                            mine.push(run_call(src, c));
                            *step.0.lock().unwrap() += 1;
                            step.1.notify_all();
                        }
                        out.push(mine);
                    }
                    out
                })
            })
            .collect();
        hs.into_iter().map(|h| h.join().unwrap()).collect()
    });
    rep.res.transitions += 4 * scheds.len() as u64;
    for (round, sched) in scheds.iter().enumerate() {
        for me in 0..2 {
            if got[me][round] != alone[me] {
                rep.viol("two-readers", &v.srckind(), "schedule", v, &format!("interleaving {sched:?} of A=[{:?},{:?}] B=[{:?},{:?}]", calls[0][0], calls[0][1], calls[1][0], calls[1][1]), "an answer differs from the same call made alone", String::new);
            }
        }
    }
    scheds.len() as u64
}

pub fn run_case(case: &Case, res: &mut SubResult) -> Result<(), String> {
    let t = Tree::instantiate(&case.shape, case.name_rot, case.content_rot, false);
    let full = Oracle::from_tree(&t, false);
    let pruned = Oracle::from_tree(&t, true);
    let ids = query_ids(&t);
    let sc = Scratch::new().map_err(|e| format!("scratch dir: {e}"))?;
    let mut rep = Rep::new(res, "c04", "c04_sources", case, &t);
    let mut st = SrcStats::default();
    let mut hashes: Vec<(String, u64)> = vec![];
    let mut scheds = 0u64;
    let mut n_src = 0u64;
    let t_all = std::time::Instant::now();
    let (mut us_q, mut us_s) = (0u64, 0u64);
    for_each_source(&t, &sc, Mode::Full, &mut st, &mut |src, v, shared| {
        let o = if v.nodirs() { &pruned } else { &full };
        let t0 = std::time::Instant::now();
        let h = check_source(src, v, o, &ids, &mut rep);
        us_q += t0.elapsed().as_micros() as u64;
        hashes.push((v.srckind(), h));
        n_src += 1;
        if let Some(sh) = shared {
            let t0 = std::time::Instant::now();
            scheds += two_readers(sh, v, &t, &mut rep);
            us_s += t0.elapsed().as_micros() as u64;
        }
    })?;
    let us_all = t_all.elapsed().as_micros() as u64;
    // embedded tables: promised order
    if let Some(d) = &st.embedded_disorder {
        rep.viol("embedded-unsorted", "embedded", "tables", &Variant::plain("embedded", "tables"), "expand_dir()", "tables not sorted", || d.clone());
    }
    for (v, e) in &st.open_failures {
        rep.viol("open-failed", &v.srckind(), "open", v, "open", &format!("Err({e})"), String::new);
    }
    rep.flush();
    drop(rep);
    // pairwise identical: every source whose oracle is the full tree must have the same answer hash
    // (each was compared with the oracle answer by answer; the hash only feeds `distinct`)
    let hs: BTreeSet<u64> = hashes.iter().map(|x| x.1).collect();
    // distinct = the answer table of this tree as the Embedded source gives it (one per observable tree)
    if let Some((_, h)) = hashes.iter().find(|x| x.0 == "embedded") {
        res.outcome(h);
    }
    res.states += 1;
    res.evaluations += n_src;
    res.traces_validated += n_src;
    res.add_note_count("time ms (in-process wall): all sources of all cases", us_all / 1000);
    res.add_note_count("time us (in-process wall): queries", us_q);
    res.add_note_count("time us (in-process wall): two-reader schedules", us_s);
    res.add_note_count("time us (in-process wall): build fs tree", st.us_build_fs);
    res.add_note_count("time us (in-process wall): build embedded (expand + interpret)", st.us_build_emb);
    res.add_note_count("time us (in-process wall): build+open zip in-memory variants", st.us_build_zip);
    res.add_note_count("time us (in-process wall): build+open tar in-memory variants", st.us_build_tar);
    res.add_note_count("sources fs", st.fs);
    res.add_note_count("sources embedded (real expand_dir interpreted)", st.embedded);
    res.add_note_count("sources zip in-memory", st.zip_mem);
    res.add_note_count("sources zip file-backed", st.zip_file);
    res.add_note_count("sources tar in-memory", st.tar_mem);
    res.add_note_count("sources tar file-backed", st.tar_file);
    res.add_note_count("tar GNU long-name members", st.tar_longname_members);
    res.add_note_count("two-reader interleavings executed", scheds);
    if hs.len() > 1 {
        res.add_note_count("trees on which not all sources give the same answer table (known defects included)", 1);
    }
    Ok(())
}
