//! `c11_dirs`: `load_dir` / `load_rec_dir` list exactly the matching ids of the generating tree.
use crate::mk::Scratch;
use crate::srcs::{for_each_source, sid, Case, Mode, Rep, SrcStats, Variant};
use crate::tree::{short, Oracle, Tree};
use assets_manager::asset::DirLoadable;
use assets_manager::loader::{BytesLoader, LoadFrom, StringLoader};
use assets_manager::source::{DirEntry, FileContent, Source};
use assets_manager::{AnyCache, Asset, AssetCache, Compound, LocalAssetCache};
use std::collections::BTreeSet;
use std::io;
use std::sync::Arc;
use vcommon::SubResult;

/// An asset type the check can look into.
pub trait Probe: Compound + DirLoadable {
    const EXTS: &'static [&'static str];
    fn name() -> String;
    fn bytes(&self) -> Vec<u8>;
}

macro_rules! bytes_asset {
    ($n:ident, $exts:expr) => {
        pub struct $n(Vec<u8>);
        impl From<Vec<u8>> for $n {
            fn from(v: Vec<u8>) -> Self {
                $n(v)
            }
        }
        impl Asset for $n {
            const EXTENSIONS: &'static [&'static str] = $exts;
            type Loader = LoadFrom<Vec<u8>, BytesLoader>;
        }
        impl Probe for $n {
            const EXTS: &'static [&'static str] = $exts;
            fn name() -> String {
                format!("{}{:?}", stringify!($n), Self::EXTS)
            }
            fn bytes(&self) -> Vec<u8> {
                self.0.clone()
            }
        }
    };
}
bytes_asset!(TX, &["x"]);
bytes_asset!(TE, &[""]);
bytes_asset!(TXE, &["x", ""]);
bytes_asset!(TN, &[]);

/// `[x, y]` through the string loader (all generated contents are valid UTF-8)
pub struct TXY(String);
impl From<String> for TXY {
    fn from(s: String) -> Self {
        TXY(s)
    }
}
impl Asset for TXY {
    const EXTENSIONS: &'static [&'static str] = &["x", "y"];
    type Loader = LoadFrom<String, StringLoader>;
}
impl Probe for TXY {
    const EXTS: &'static [&'static str] = &["x", "y"];
    fn name() -> String {
        "TXY[\"x\", \"y\"]".into()
    }
    fn bytes(&self) -> Vec<u8> {
        self.0.clone().into_bytes()
    }
}

impl<T: Probe> Probe for Arc<T> {
    const EXTS: &'static [&'static str] = T::EXTS;
    fn name() -> String {
        format!("Arc<{}>", T::name())
    }
    fn bytes(&self) -> Vec<u8> {
        (**self).bytes()
    }
}

/// Fails `read_dir` of exactly one directory id (we run as root: `chmod` would not bite).
struct Faulty<'a> {
    inner: &'a dyn Source,
    fail: &'a str,
}
impl Source for Faulty<'_> {
    fn read(&self, id: &str, ext: &str) -> io::Result<FileContent<'_>> {
        self.inner.read(id, ext)
    }
    fn read_dir(&self, id: &str, f: &mut dyn FnMut(DirEntry)) -> io::Result<()> {
        if id == self.fail {
            return Err(io::Error::new(io::ErrorKind::PermissionDenied, "injected: unreadable directory"));
        }
        self.inner.read_dir(id, f)
    }
    fn exists(&self, entry: DirEntry) -> bool {
        self.inner.exists(entry)
    }
}

fn want_bytes<'o, T: Probe>(o: &'o Oracle, id: &str) -> Option<&'o Vec<u8>> {
    T::EXTS.iter().find_map(|e| o.files.get(&(id.to_string(), e.to_string())))
}

fn show_ids(v: &[String]) -> String {
    format!("[{}]", v.iter().map(|s| short(s)).collect::<Vec<_>>().join(","))
}

/// A fresh cache of either kind over a borrowed source.  (`AssetCache::without_hot_reloading` costs
/// ~50 us of system calls: `AssetMap::new` asks `available_parallelism()`; the Arc<T> runs of parts
/// B and C therefore use the `LocalAssetCache`.)
enum FreshCache<'s> {
    Shared(AssetCache<&'s dyn Source>),
    Local(LocalAssetCache<&'s dyn Source>),
}
impl<'s> FreshCache<'s> {
    fn new(src: &'s dyn Source, local: bool) -> Self {
        if local {
            FreshCache::Local(LocalAssetCache::with_source(src))
        } else {
            FreshCache::Shared(AssetCache::without_hot_reloading(src))
        }
    }
    fn any(&self) -> AnyCache<'_> {
        match self {
            FreshCache::Shared(c) => c.as_any_cache(),
            FreshCache::Local(c) => c.as_any_cache(),
        }
    }
}

struct Cx<'r, 'a> {
    v: &'r Variant,
    o: &'r Oracle,
    rep: &'r mut Rep<'a>,
    cache_name: &'static str,
}

impl Cx<'_, '_> {
    fn viol<T: Probe>(&mut self, class: &str, srckind: &str, qkind: &str, query: &str, detail: &str, extra: String) {
        let q = format!("{}::<{}>{}", self.cache_name, T::name(), query);
        self.rep.viol(class, srckind, qkind, self.v, &q, detail, || extra);
    }
    fn empty_archive(&self) -> bool {
        self.v.is_archive() && self.o.files.is_empty() && self.o.dirs.len() == 1
    }
}

/// ids as multiset comparison; returns (missing, extra, dups present in `got` beyond `want`)
fn diff(got_sorted: &[String], want_sorted: &[String]) -> (Vec<String>, Vec<String>) {
    let mut missing = vec![];
    let mut extra = vec![];
    let (mut i, mut j) = (0, 0);
    while i < got_sorted.len() || j < want_sorted.len() {
        if j == want_sorted.len() || (i < got_sorted.len() && got_sorted[i] < want_sorted[j]) {
            extra.push(got_sorted[i].clone());
            i += 1;
        } else if i == got_sorted.len() || want_sorted[j] < got_sorted[i] {
            missing.push(want_sorted[j].clone());
            j += 1;
        } else {
            i += 1;
            j += 1;
        }
    }
    (missing, extra)
}

/// `iter` yields one result per id, in order, each Ok with the handle of that id holding the bytes
/// of the first matching extension.
fn check_iter<'c, T: Probe>(cx: &mut Cx, what: &str, d: &str, ids: &[String], results: Vec<Result<&'c assets_manager::Handle<T>, assets_manager::Error>>) {
    let sk = cx.v.srckind();
    let q = format!(".{what}({}).iter()", sid(d));
    cx.rep.res.transitions += results.len() as u64;
    if results.len() != ids.len() {
        cx.viol::<T>("iter", &sk, "iter", &q, &format!("{} results for {} ids", results.len(), ids.len()), String::new());
        return;
    }
    for (id, r) in ids.iter().zip(results) {
        match r {
            Ok(h) => {
                if h.id().as_str() != id.as_str() {
                    cx.viol::<T>("iter", &sk, "iter", &q, &format!("handle of {} for id {}", short(h.id()), short(id)), String::new());
                } else if Some(&h.read().bytes()) != want_bytes::<T>(cx.o, id) {
                    cx.viol::<T>("iter", &sk, "iter", &q, &format!("wrong content for {}", short(id)), String::new());
                }
            }
            Err(e) => cx.viol::<T>("iter", &sk, "iter", &q, &format!("Err for listed id {}", short(id)), format!("{e:?}")),
        }
    }
}

/// Part A on one cache: `load_dir`, `load_rec_dir`, `iter` for every queried directory id.
/// Returns the directory ids on which the listing deviated (later parts skip them).
fn part_a<T: Probe>(cache: AnyCache<'_>, cx: &mut Cx, qdirs: &[String]) -> BTreeSet<String> {
    let sk = cx.v.srckind();
    let nodirs = cx.v.nodirs();
    let mut bad = BTreeSet::new();
    for d in qdirs {
        let present = cx.o.dirs.contains_key(d);
        cx.rep.res.transitions += 2;
        // ---- load_dir
        let q = format!(".load_dir({})", sid(d));
        let mut dir_failed = false;
        match (present, cache.load_dir::<T>(d)) {
            (true, Ok(h)) => {
                let dir = h.read();
                let ids: Vec<String> = dir.ids().map(|s| s.to_string()).collect();
                let want = cx.o.dir_ids(d, T::EXTS);
                if ids != want {
                    bad.insert(d.clone());
                    let mut s = ids.clone();
                    s.sort();
                    let (missing, extra) = diff(&s, &want);
                    let detail = if s != ids {
                        "ids not sorted".to_string()
                    } else if missing.is_empty() && extra.iter().all(|e| want.contains(e)) {
                        format!("duplicate id {}", short(&extra[0]))
                    } else if !missing.is_empty() {
                        format!("missing {}", short(&missing[0]))
                    } else {
                        format!("extra {}", short(&extra[0]))
                    };
                    cx.viol::<T>("dir-ids", &sk, "load_dir", &q, &detail, format!("got {} want {}", show_ids(&ids), show_ids(&want)));
                } else {
                    let results: Vec<_> = dir.iter(cache).collect();
                    check_iter::<T>(cx, "load_dir", d, &ids, results);
                }
            }
            (true, Err(e)) => {
                bad.insert(d.clone());
                dir_failed = true;
                if cx.empty_archive() && d.is_empty() {
                    cx.viol::<T>("empty-root", cx.v.kind, "load_dir", &q, "Err", format!("{e:?}"));
                } else if nodirs {
                    cx.viol::<T>("implicit-dir", &sk, "load_dir", &q, "Err", format!("{e:?}"));
                } else {
                    cx.viol::<T>("dir-err", &sk, "load_dir", &q, "Err", format!("{e:?}"));
                }
            }
            (false, Ok(h)) => {
                let ids: Vec<String> = h.read().ids().map(|s| s.to_string()).collect();
                cx.viol::<T>("phantom-dir", &sk, "load_dir", &q, "Ok", format!("ids {} for a directory the tree does not hold", show_ids(&ids)));
            }
            (false, Err(_)) => {}
        }
        // ---- load_rec_dir
        let q = format!(".load_rec_dir({})", sid(d));
        match (present, cache.load_rec_dir::<T>(d)) {
            (true, Ok(h)) => {
                let dir = h.read();
                let ids: Vec<String> = dir.ids().map(|s| s.to_string()).collect();
                let mut s = ids.clone();
                s.sort();
                let want = cx.o.rec_ids(d, T::EXTS, None);
                if s != want {
                    bad.insert(d.clone());
                    let (missing, extra) = diff(&s, &want);
                    if nodirs && extra.is_empty() {
                        cx.viol::<T>("implicit-dir", &sk, "load_rec_dir", &q, &format!("missing {}", short(&missing[0])), format!("got {} want {}", show_ids(&s), show_ids(&want)));
                    } else {
                        let detail = if missing.is_empty() && extra.iter().all(|e| want.contains(e)) {
                            format!("duplicate id {}", short(&extra[0]))
                        } else if !missing.is_empty() {
                            format!("missing {}", short(&missing[0]))
                        } else {
                            format!("extra {}", short(&extra[0]))
                        };
                        cx.viol::<T>("rec-ids", &sk, "load_rec_dir", &q, &detail, format!("got {} want {}", show_ids(&s), show_ids(&want)));
                    }
                } else {
                    let results: Vec<_> = dir.iter(cache).collect();
                    check_iter::<T>(cx, "load_rec_dir", d, &ids, results);
                }
            }
            (true, Err(e)) => {
                bad.insert(d.clone());
                // when load_dir of the same id failed too this is its consequence, not a second finding
                if !dir_failed {
                    cx.viol::<T>("rec-err", &sk, "load_rec_dir", &q, "Err", format!("{e:?}"));
                }
            }
            (false, Ok(h)) => {
                let ids: Vec<String> = h.read().ids().map(|s| s.to_string()).collect();
                cx.viol::<T>("phantom-dir", &sk, "load_rec_dir", &q, "Ok", format!("ids {} for a directory the tree does not hold", show_ids(&ids)));
            }
            (false, Err(_)) => {}
        }
    }
    bad
}

fn subsets_upto3(n: usize) -> Vec<Vec<usize>> {
    let mut out = vec![vec![]];
    for a in 0..n {
        out.push(vec![a]);
        for b in a + 1..n {
            out.push(vec![a, b]);
            for c in b + 1..n {
                out.push(vec![a, b, c]);
            }
        }
    }
    out
}

/// Part B: `iter_cached` after pre-loading every subset of <= 3 ids yields exactly that subset.
fn part_b<T: Probe>(src: &dyn Source, cx: &mut Cx, bad: &BTreeSet<String>, local: bool) {
    let sk = cx.v.srckind();
    let dirs: Vec<String> = cx.o.dirs.keys().filter(|d| !bad.contains(*d)).cloned().collect();
    for d in &dirs {
        let rec = cx.o.rec_ids(d, T::EXTS, None);
        let own = cx.o.dir_ids(d, T::EXTS);
        for sub in subsets_upto3(rec.len()) {
            let fresh = FreshCache::new(src, local);
            let cache = fresh.any();
            let pre: Vec<&String> = sub.iter().map(|&i| &rec[i]).collect();
            let mut ok = true;
            for id in &pre {
                cx.rep.res.transitions += 1;
                if let Err(e) = cache.load::<T>(id) {
                    ok = false;
                    cx.viol::<T>("preload", &sk, "iter_cached", &format!(".load({})", sid(id)), "Err for an id of the tree", format!("{e:?}"));
                }
            }
            if !ok {
                continue;
            }
            cx.rep.res.transitions += 2;
            let q = format!(".load_dir({}).iter_cached() after loading {}", sid(d), show_ids(&pre.iter().map(|s| s.to_string()).collect::<Vec<_>>()));
            if let Ok(h) = cache.load_dir::<T>(d) {
                let got: Vec<String> = h.read().iter_cached(cache).map(|h| h.id().to_string()).collect();
                let want: Vec<String> = own.iter().filter(|i| pre.contains(i)).cloned().collect();
                if got != want {
                    cx.viol::<T>("iter-cached", &sk, "iter_cached", &q, &format!("yields {}", show_ids(&got)), format!("want {}", show_ids(&want)));
                }
            }
            let q = format!(".load_rec_dir({}).iter_cached() after loading {}", sid(d), show_ids(&pre.iter().map(|s| s.to_string()).collect::<Vec<_>>()));
            if let Ok(h) = cache.load_rec_dir::<T>(d) {
                let mut got: Vec<String> = h.read().iter_cached(cache).map(|h| h.id().to_string()).collect();
                got.sort();
                let want: Vec<String> = pre.iter().map(|s| s.to_string()).collect();
                if got != want {
                    cx.viol::<T>("iter-cached", &sk, "iter_cached", &q, &format!("yields {}", show_ids(&got)), format!("want {}", show_ids(&want)));
                }
            }
        }
    }
}

/// Part C: a source failing `read_dir` of one directory: that sub-tree is missing from
/// `load_rec_dir` of every ancestor, siblings intact; failing the loaded directory itself => Err.
fn part_c<T: Probe>(src: &dyn Source, cx: &mut Cx, bad: &BTreeSet<String>, local: bool) {
    let sk = cx.v.srckind();
    let dirs: Vec<String> = cx.o.dirs.keys().filter(|d| !bad.contains(*d)).cloned().collect();
    for f in &dirs {
        let faulty = Faulty { inner: src, fail: f };
        let fresh = FreshCache::new(&faulty, local);
        let cache = fresh.any();
        for d in &dirs {
            cx.rep.res.transitions += 1;
            let q = format!(".load_rec_dir({}) with read_dir({}) failing", sid(d), sid(f));
            let r = cache.load_rec_dir::<T>(d);
            if d == f {
                if let Ok(h) = r {
                    let ids: Vec<String> = h.read().ids().map(|s| s.to_string()).collect();
                    cx.viol::<T>("faulty-top", &sk, "faulty", &q, "Ok", format!("ids {}", show_ids(&ids)));
                }
                cx.rep.res.transitions += 1;
                if cache.load_dir::<T>(d).is_ok() {
                    cx.viol::<T>("faulty-top", &sk, "faulty", &format!(".load_dir({}) with read_dir({}) failing", sid(d), sid(f)), "Ok", String::new());
                }
                continue;
            }
            let inside = d.is_empty() || f.starts_with(&format!("{d}."));
            let want = cx.o.rec_ids(d, T::EXTS, if inside { Some(f.as_str()) } else { None });
            match r {
                Ok(h) => {
                    let mut got: Vec<String> = h.read().ids().map(|s| s.to_string()).collect();
                    got.sort();
                    if got != want {
                        let (missing, extra) = diff(&got, &want);
                        let detail = if !missing.is_empty() { format!("missing {}", short(&missing[0])) } else { format!("extra {}", short(&extra[0])) };
                        cx.viol::<T>("faulty-subdir", &sk, "faulty", &q, &detail, format!("got {} want {}", show_ids(&got), show_ids(&want)));
                    }
                }
                Err(e) => cx.viol::<T>("faulty-subdir", &sk, "faulty", &q, "Err", format!("an unreadable sub-directory must be skipped: {e:?}")),
            }
        }
    }
}

/// `local`: also run part A on a LocalAssetCache; `bc_local`: parts B and C on LocalAssetCaches.
///
/// Parts B and C exercise `dirs.rs` + the cache on top of a listing that part A has just compared
/// with the oracle; they run on one representative per source kind (fs, embedded, and the sorted,
/// plain-named in-memory archive of each of zip/tar x {dir members, none}), not on every member order.
fn one_type<T: Probe>(src: &dyn Source, v: &Variant, o: &Oracle, qdirs: &[String], rep: &mut Rep, local: bool, bc_local: bool) -> u64 {
    let mut n = 1;
    let bad = {
        let cache = AssetCache::without_hot_reloading(src);
        let mut cx = Cx { v, o, rep, cache_name: "AssetCache" };
        part_a::<T>(cache.as_any_cache(), &mut cx, qdirs)
    };
    if local {
        let cache = LocalAssetCache::with_source(src);
        let mut cx = Cx { v, o, rep, cache_name: "LocalAssetCache" };
        part_a::<T>(cache.as_any_cache(), &mut cx, qdirs);
        n += 1;
    }
    let representative = !v.is_archive() || (v.order == "sorted" && !v.prefix && v.backing == "mem");
    if !representative {
        return n;
    }
    let mut cx = Cx { v, o, rep, cache_name: if bc_local { "LocalAssetCache" } else { "AssetCache" } };
    part_b::<T>(src, &mut cx, &bad, bc_local);
    part_c::<T>(src, &mut cx, &bad, bc_local);
    n
}

pub fn query_dirs(t: &Tree) -> Vec<String> {
    // every directory id including "", one absent id, and the kind-confused ids (file ids)
    let mut s: BTreeSet<String> = BTreeSet::new();
    s.insert(String::new());
    s.insert("zz".into());
    for d in &t.dirs {
        s.insert(d.id.clone());
    }
    for f in &t.files {
        s.insert(f.id.clone());
    }
    s.into_iter().collect()
}

pub fn run_case(case: &Case, res: &mut SubResult) -> Result<(), String> {
    let t = Tree::instantiate(&case.shape, case.name_rot, case.content_rot, true);
    let full = Oracle::from_tree(&t, false);
    let pruned = Oracle::from_tree(&t, true);
    let qdirs = query_dirs(&t);
    let sc = Scratch::new().map_err(|e| format!("scratch dir: {e}"))?;
    let mut rep = Rep::new(res, "c11", "c11_dirs", case, &t);
    let mut st = SrcStats::default();
    let mut evals = 0u64;
    for_each_source(&t, &sc, Mode::Reduced, &mut st, &mut |src, v, _| {
        let o = if v.nodirs() { &pruned } else { &full };
        evals += one_type::<TX>(src, v, o, &qdirs, &mut rep, false, false);
        evals += one_type::<TXY>(src, v, o, &qdirs, &mut rep, true, false);
        evals += one_type::<TE>(src, v, o, &qdirs, &mut rep, false, false);
        evals += one_type::<TXE>(src, v, o, &qdirs, &mut rep, false, false);
        evals += one_type::<TN>(src, v, o, &qdirs, &mut rep, false, false);
        evals += one_type::<Arc<TX>>(src, v, o, &qdirs, &mut rep, false, true);
        evals += one_type::<Arc<TXY>>(src, v, o, &qdirs, &mut rep, false, true);
        evals += one_type::<Arc<TE>>(src, v, o, &qdirs, &mut rep, false, true);
        evals += one_type::<Arc<TXE>>(src, v, o, &qdirs, &mut rep, false, true);
        evals += one_type::<Arc<TN>>(src, v, o, &qdirs, &mut rep, false, true);
    })?;
    for (v, e) in &st.open_failures {
        rep.viol("open-failed", &v.srckind(), "open", v, "open", &format!("Err({e})"), String::new);
    }
    rep.flush();
    drop(rep);
    // distinct outcome = the expected listing table of this tree (per extension list)
    let mut table = vec![];
    for d in full.dirs.keys() {
        for exts in [&["x"][..], &["x", "y"], &[""], &["x", ""], &[]] {
            table.push((d.clone(), full.dir_ids(d, exts), full.rec_ids(d, exts, None)));
        }
    }
    res.outcome(&table);
    res.states += 1;
    res.evaluations += evals;
    res.traces_validated += evals;
    res.add_note_count("sources fs", st.fs);
    res.add_note_count("sources embedded (real expand_dir interpreted)", st.embedded);
    res.add_note_count("sources zip in-memory", st.zip_mem);
    res.add_note_count("sources zip file-backed", st.zip_file);
    res.add_note_count("sources tar in-memory", st.tar_mem);
    res.add_note_count("sources tar file-backed", st.tar_file);
    Ok(())
}
