//! Builders: a tree on disk, zip / tar archives of it in every member order and flavour, and the
//! run-time interpretation of the token stream produced by the real `embed!` expansion code.
use crate::tree::{permutations, Tree};
use assets_manager::source::{DirEntry, Embedded, RawEmbedded};
use std::io::{self, Cursor, Write};
use std::path::{Path, PathBuf};
use std::sync::atomic::{AtomicU64, Ordering};

// ---------------------------------------------------------------------------------------------
// scratch directories

static COUNTER: AtomicU64 = AtomicU64::new(0);

/// A unique directory under $TMPDIR, removed on drop.
pub struct Scratch {
    pub base: PathBuf,
}
impl Scratch {
    pub fn new() -> io::Result<Scratch> {
        let base = std::env::temp_dir().join(format!("srcmc-{}-{}", std::process::id(), COUNTER.fetch_add(1, Ordering::Relaxed)));
        let _ = std::fs::remove_dir_all(&base);
        std::fs::create_dir_all(&base)?;
        Ok(Scratch { base })
    }
}
impl Drop for Scratch {
    fn drop(&mut self) {
        let _ = std::fs::remove_dir_all(&self.base);
    }
}

/// Creates `root` and the tree below it.  `reverse` creates the entries in the opposite order (the
/// on-disk enumeration order of some file systems follows the creation order).
pub fn write_tree(root: &Path, t: &Tree, reverse: bool) -> io::Result<()> {
    std::fs::create_dir_all(root)?;
    for d in &t.dirs {
        std::fs::create_dir_all(root.join(d.rel()))?;
    }
    let mut idx: Vec<usize> = (0..t.files.len()).collect();
    if reverse {
        idx.reverse();
    }
    for i in idx {
        let f = &t.files[i];
        std::fs::write(root.join(f.rel()), &f.content)?;
    }
    Ok(())
}

/// The tree `t` (already written under `store`) once more under `root`, through symbolic links:
/// `link_dirs == false`: directories are real, every file is a link to the stored file;
/// `link_dirs == true`: every top-level directory is a link to the stored directory (everything below
/// comes with it), top-level files are links too.
pub fn write_tree_links(root: &Path, store: &Path, t: &Tree, link_dirs: bool) -> io::Result<()> {
    use std::os::unix::fs::symlink;
    std::fs::create_dir_all(root)?;
    for d in &t.dirs {
        let rel = d.rel();
        let top = !rel.contains('/');
        if link_dirs {
            if top {
                symlink(store.join(&rel), root.join(&rel))?;
            }
        } else {
            std::fs::create_dir_all(root.join(&rel))?;
        }
    }
    for f in &t.files {
        let rel = f.rel();
        let top = !rel.contains('/');
        if !link_dirs || top {
            symlink(store.join(&rel), root.join(&rel))?;
        }
    }
    Ok(())
}

// ---------------------------------------------------------------------------------------------
// archive members and orders

#[derive(Clone, Copy, Debug, PartialEq, Eq, PartialOrd, Ord)]
pub enum M {
    Root,
    Dir(usize),
    File(usize),
}

pub fn member_path(t: &Tree, m: M, prefix: bool) -> String {
    let p = if prefix { "./" } else { "" };
    match m {
        M::Root => "./".to_string(),
        M::Dir(i) => format!("{p}{}/", t.dirs[i].rel()),
        M::File(i) => format!("{p}{}", t.files[i].rel()),
    }
}

/// Members of an archive flavour: directory members (if any), files, and the root member `./` for
/// the flavour that has both directory members and the `./` prefix.
pub fn members(t: &Tree, dirs: bool, prefix: bool) -> Vec<M> {
    let mut v = vec![];
    if dirs && prefix {
        v.push(M::Root);
    }
    if dirs {
        v.extend((0..t.dirs.len()).map(M::Dir));
    }
    v.extend((0..t.files.len()).map(M::File));
    v
}

/// All permutations for <= 5 members, else sorted / reversed / directories-last.
pub fn orders(t: &Tree, ml: &[M]) -> Vec<(String, Vec<M>)> {
    let mut sorted = ml.to_vec();
    sorted.sort_by_key(|m| member_path(t, *m, false));
    if ml.len() <= 5 {
        return permutations(ml.len()).into_iter().enumerate().map(|(k, p)| (format!("perm{k}"), p.iter().map(|&i| sorted[i]).collect())).collect();
    }
    let mut rev = sorted.clone();
    rev.reverse();
    let mut dl: Vec<M> = sorted.iter().copied().filter(|m| matches!(m, M::File(_))).collect();
    let mut ds: Vec<M> = sorted.iter().copied().filter(|m| !matches!(m, M::File(_))).collect();
    ds.reverse(); // children before parents, the root member last
    dl.extend(ds);
    vec![("sorted".into(), sorted), ("reversed".into(), rev), ("dirs-last".into(), dl)]
}

pub fn sorted_order(t: &Tree, ml: &[M]) -> Vec<M> {
    let mut sorted = ml.to_vec();
    sorted.sort_by_key(|m| member_path(t, *m, false));
    sorted
}

// ---------------------------------------------------------------------------------------------
// zip

pub type ZipMem = zip::ZipArchive<Cursor<Vec<u8>>>;

fn zerr(e: zip::result::ZipError) -> io::Error {
    io::Error::new(io::ErrorKind::Other, format!("zip writer: {e}"))
}

fn zopts(deflate: bool) -> zip::write::FileOptions {
    zip::write::FileOptions::default().compression_method(if deflate { zip::CompressionMethod::Deflated } else { zip::CompressionMethod::Stored })
}

/// An archive holding each file of the tree once (member i = file i), compressed once; the member
/// orders are then produced by raw copies, which do not recompress.
pub fn zip_master(t: &Tree, deflate: bool) -> io::Result<ZipMem> {
    let mut w = zip::ZipWriter::new(Cursor::new(Vec::new()));
    for (i, f) in t.files.iter().enumerate() {
        w.start_file(format!("m{i}"), zopts(deflate)).map_err(zerr)?;
        w.write_all(&f.content)?;
    }
    let cur = w.finish().map_err(zerr)?;
    zip::ZipArchive::new(cur).map_err(zerr)
}

pub fn zip_variant(master: &mut ZipMem, t: &Tree, order: &[M], prefix: bool) -> io::Result<Vec<u8>> {
    let mut w = zip::ZipWriter::new(Cursor::new(Vec::with_capacity(1024)));
    for &m in order {
        let name = member_path(t, m, prefix);
        match m {
            M::File(i) => {
                let f = master.by_index_raw(i).map_err(zerr)?;
                w.raw_copy_file_rename(f, name).map_err(zerr)?;
            }
            _ => w.add_directory(name, zopts(false)).map_err(zerr)?,
        }
    }
    Ok(w.finish().map_err(zerr)?.into_inner())
}

/// The plain way: `start_file` + `write_all` for every member.
pub fn zip_direct(t: &Tree, order: &[M], prefix: bool, deflate: bool) -> io::Result<Vec<u8>> {
    let mut w = zip::ZipWriter::new(Cursor::new(Vec::new()));
    for &m in order {
        let name = member_path(t, m, prefix);
        match m {
            M::File(i) => {
                w.start_file(name, zopts(deflate)).map_err(zerr)?;
                w.write_all(&t.files[i].content)?;
            }
            _ => w.add_directory(name, zopts(false)).map_err(zerr)?,
        }
    }
    Ok(w.finish().map_err(zerr)?.into_inner())
}

// ---------------------------------------------------------------------------------------------
// tar (hand-written member blobs so that the `./` prefix survives and GNU long names are explicit)

fn pad512(v: &mut Vec<u8>) {
    while v.len() % 512 != 0 {
        v.push(0);
    }
}

/// Header(s) + data + padding of one member.  Names longer than 100 bytes get a GNU long-name
/// (`L`) member in front, as GNU tar and the `tar` crate write them.  Returns (blob, used_longname).
pub fn tar_member(name: &str, is_dir: bool, data: &[u8]) -> (Vec<u8>, bool) {
    let nb = name.as_bytes();
    let mut out = Vec::with_capacity(1536 + data.len());
    let long = nb.len() > 100;
    if long {
        let mut h = tar::Header::new_gnu();
        let l = b"././@LongLink";
        h.as_old_mut().name[..l.len()].copy_from_slice(l);
        h.set_mode(0o644);
        h.set_uid(0);
        h.set_gid(0);
        h.set_mtime(0);
        h.set_size(nb.len() as u64 + 1);
        h.set_entry_type(tar::EntryType::GNULongName);
        h.set_cksum();
        out.extend_from_slice(h.as_bytes());
        out.extend_from_slice(nb);
        out.push(0);
        pad512(&mut out);
    }
    let mut h = tar::Header::new_gnu();
    let n = nb.len().min(100);
    h.as_old_mut().name[..n].copy_from_slice(&nb[..n]);
    h.set_mode(if is_dir { 0o755 } else { 0o644 });
    h.set_uid(0);
    h.set_gid(0);
    h.set_mtime(0);
    h.set_size(data.len() as u64);
    h.set_entry_type(if is_dir { tar::EntryType::Directory } else { tar::EntryType::Regular });
    h.set_cksum();
    out.extend_from_slice(h.as_bytes());
    out.extend_from_slice(data);
    pad512(&mut out);
    (out, long)
}

/// Blobs of all members of a flavour; `.1` = number of GNU long-name members.
pub fn tar_blobs(t: &Tree, ml: &[M], prefix: bool) -> (Vec<(M, Vec<u8>)>, u64) {
    let mut longs = 0;
    let v = ml
        .iter()
        .map(|&m| {
            let name = member_path(t, m, prefix);
            let (b, l) = match m {
                M::File(i) => tar_member(&name, false, &t.files[i].content),
                _ => tar_member(&name, true, &[]),
            };
            longs += l as u64;
            (m, b)
        })
        .collect();
    (v, longs)
}

pub fn tar_concat(blobs: &[(M, Vec<u8>)], order: &[M]) -> Vec<u8> {
    let mut out = Vec::new();
    for m in order {
        out.extend_from_slice(&blobs.iter().find(|(x, _)| x == m).unwrap().1);
    }
    out.extend_from_slice(&[0u8; 1024]);
    out
}

/// The plain way: `tar::Builder::append_data` (drops a `./` prefix, writes long names itself).
pub fn tar_direct(t: &Tree, order: &[M]) -> io::Result<Vec<u8>> {
    let mut b = tar::Builder::new(Vec::new());
    for &m in order {
        let name = member_path(t, m, false);
        let mut h = tar::Header::new_gnu();
        h.set_mtime(0);
        h.set_uid(0);
        h.set_gid(0);
        match m {
            M::File(i) => {
                h.set_mode(0o644);
                h.set_entry_type(tar::EntryType::Regular);
                h.set_size(t.files[i].content.len() as u64);
                b.append_data(&mut h, &name, &t.files[i].content[..])?;
            }
            _ => {
                h.set_mode(0o755);
                h.set_entry_type(tar::EntryType::Directory);
                h.set_size(0);
                b.append_data(&mut h, &name, &[][..])?;
            }
        }
    }
    b.into_inner()
}

// ---------------------------------------------------------------------------------------------
// embedded: run the real expansion code, interpret its output

#[derive(Debug, Clone, PartialEq, Eq, PartialOrd, Ord)]
pub enum EmbEnt {
    File(String, String),
    Dir(String),
}

#[derive(Debug, Default)]
pub struct EmbStore {
    pub files: Vec<((String, String), Vec<u8>)>,
    pub dirs: Vec<(String, Vec<EmbEnt>)>,
}

fn strip(e: &syn::Expr) -> &syn::Expr {
    match e {
        syn::Expr::Paren(p) => strip(&p.expr),
        syn::Expr::Group(g) => strip(&g.expr),
        _ => e,
    }
}
fn lit(e: &syn::Expr) -> Result<String, String> {
    match strip(e) {
        syn::Expr::Lit(syn::ExprLit { lit: syn::Lit::Str(s), .. }) => Ok(s.value()),
        o => Err(format!("expected a string literal, found `{}`", quote::quote!(#o))),
    }
}
fn arr(e: &syn::Expr) -> Result<Vec<&syn::Expr>, String> {
    match strip(e) {
        syn::Expr::Reference(r) => match strip(&r.expr) {
            syn::Expr::Array(a) => Ok(a.elems.iter().collect()),
            o => Err(format!("expected an array, found `{}`", quote::quote!(#o))),
        },
        o => Err(format!("expected `&[..]`, found `{}`", quote::quote!(#o))),
    }
}
fn tuple2(e: &syn::Expr) -> Result<(&syn::Expr, &syn::Expr), String> {
    match strip(e) {
        syn::Expr::Tuple(t) if t.elems.len() == 2 => Ok((&t.elems[0], &t.elems[1])),
        o => Err(format!("expected a pair, found `{}`", quote::quote!(#o))),
    }
}

/// Interpret `assets_manager::source::RawEmbedded { files: &[..], dirs: &[..] }`;
/// `include_bytes!(p)` means "read file p now".
pub fn interpret(ts: proc_macro2::TokenStream) -> Result<EmbStore, String> {
    let e: syn::Expr = syn::parse2(ts).map_err(|e| format!("expansion is not an expression: {e}"))?;
    let st = match &e {
        syn::Expr::Struct(s) => s,
        _ => return Err("expansion is not a struct literal".into()),
    };
    let segs: Vec<String> = st.path.segments.iter().map(|s| s.ident.to_string()).collect();
    if segs != ["assets_manager", "source", "RawEmbedded"] {
        return Err(format!("unexpected struct path {segs:?}"));
    }
    let mut store = EmbStore::default();
    let (mut seen_files, mut seen_dirs) = (false, false);
    for f in &st.fields {
        let name = match &f.member {
            syn::Member::Named(i) => i.to_string(),
            _ => return Err("unnamed field".into()),
        };
        match name.as_str() {
            "files" => {
                seen_files = true;
                for el in arr(&f.expr)? {
                    let (k, v) = tuple2(el)?;
                    let (id, ext) = tuple2(k)?;
                    let (id, ext) = (lit(id)?, lit(ext)?);
                    let inner = match strip(v) {
                        syn::Expr::Cast(c) => strip(&c.expr),
                        o => o,
                    };
                    let path = match inner {
                        syn::Expr::Macro(m) if m.mac.path.is_ident("include_bytes") => m.mac.parse_body::<syn::LitStr>().map_err(|e| e.to_string())?.value(),
                        o => return Err(format!("expected include_bytes!(..), found `{}`", quote::quote!(#o))),
                    };
                    let bytes = std::fs::read(&path).map_err(|e| format!("include_bytes!({path:?}): {e}"))?;
                    store.files.push(((id, ext), bytes));
                }
            }
            "dirs" => {
                seen_dirs = true;
                for el in arr(&f.expr)? {
                    let (id, entries) = tuple2(el)?;
                    let id = lit(id)?;
                    let mut v = vec![];
                    for en in arr(entries)? {
                        let call = match strip(en) {
                            syn::Expr::Call(c) => c,
                            o => return Err(format!("expected DirEntry::..(..), found `{}`", quote::quote!(#o))),
                        };
                        let p: Vec<String> = match strip(&call.func) {
                            syn::Expr::Path(p) => p.path.segments.iter().map(|s| s.ident.to_string()).collect(),
                            _ => return Err("entry constructor is not a path".into()),
                        };
                        let args: Vec<String> = call.args.iter().map(lit).collect::<Result<_, _>>()?;
                        let ps: Vec<&str> = p.iter().map(|s| s.as_str()).collect();
                        match (ps.as_slice(), args.as_slice()) {
                            (["assets_manager", "source", "DirEntry", "File"], [a, b]) => v.push(EmbEnt::File(a.clone(), b.clone())),
                            (["assets_manager", "source", "DirEntry", "Directory"], [a]) => v.push(EmbEnt::Dir(a.clone())),
                            _ => return Err(format!("unexpected entry {p:?} with {} arguments", args.len())),
                        }
                    }
                    store.dirs.push((id, v));
                }
            }
            o => return Err(format!("unexpected field {o}")),
        }
    }
    if !(seen_files && seen_dirs) {
        return Err("missing field".into());
    }
    Ok(store)
}

/// `embed!("<dir>")` at run time: the real `Input::parse` + `expand_dir`, then `interpret`.
pub fn embed_expand(dir: &Path) -> Result<EmbStore, String> {
    let lit = format!("{:?}", dir.to_str().ok_or("non-UTF-8 scratch path")?);
    let input = syn::parse_str::<crate::embedded_macro::Input>(&lit).map_err(|e| format!("embed! input: {e}"))?;
    let ts = input.expand_dir().map_err(|es| format!("embed! errors: {}", es.iter().map(|e| e.to_string()).collect::<Vec<_>>().join("; ")))?;
    interpret(ts)
}

/// Builds the borrowed `RawEmbedded` tables over the store and hands an `Embedded` to `f`.
pub fn with_embedded<R>(store: &EmbStore, f: impl FnOnce(&Embedded<'_>) -> R) -> R {
    let files: Vec<((&str, &str), &[u8])> = store.files.iter().map(|((i, e), b)| ((i.as_str(), e.as_str()), b.as_slice())).collect();
    let ents: Vec<Vec<DirEntry<'_>>> = store
        .dirs
        .iter()
        .map(|(_, v)| {
            v.iter()
                .map(|e| match e {
                    EmbEnt::File(i, x) => DirEntry::File(i, x),
                    EmbEnt::Dir(i) => DirEntry::Directory(i),
                })
                .collect()
        })
        .collect();
    let dirs: Vec<(&str, &[DirEntry<'_>])> = store.dirs.iter().zip(&ents).map(|((i, _), e)| (i.as_str(), e.as_slice())).collect();
    let raw = RawEmbedded { files: &files, dirs: &dirs };
    let emb = Embedded::from(raw);
    f(&emb)
}

/// Are the tables in the order the macro promises ("sorted to ensure reproducible builds"):
/// files strictly increasing by (id, ext), directories strictly increasing by id, and every listing
/// strictly increasing (files by (id, ext) before directories by id)?  Returns a description of
/// the first disorder.
pub fn embedded_disorder(store: &EmbStore) -> Option<String> {
    for w in store.files.windows(2) {
        if w[0].0 >= w[1].0 {
            return Some(format!("files table: {:?} before {:?}", w[0].0, w[1].0));
        }
    }
    for w in store.dirs.windows(2) {
        if w[0].0 >= w[1].0 {
            return Some(format!("dirs table: {:?} before {:?}", w[0].0, w[1].0));
        }
    }
    for (id, v) in &store.dirs {
        for w in v.windows(2) {
            if w[0] >= w[1] {
                return Some(format!("listing of {id:?}: {:?} before {:?}", w[0], w[1]));
            }
        }
    }
    None
}
