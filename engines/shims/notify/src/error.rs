//! Error types

use crate::Config;
use std::error::Error as StdError;
use std::path::PathBuf;
use std::result::Result as StdResult;
use std::{self, fmt, io};

/// Type alias to use this library's `Error` type in a Result
pub type Result<T> = StdResult<T, Error>;

/// Error kinds
#[derive(Debug)]
pub enum ErrorKind {
    /// Generic error
    ///
    /// May be used in cases where a platform specific error is mapped to this type, or for opaque
    /// internal errors.
    Generic(String),

    /// I/O errors.
    Io(io::Error),

    /// A path does not exist.
    PathNotFound,

    /// Attempted to remove a watch that does not exist.
    WatchNotFound,

    /// An invalid value was passed as runtime configuration.
    InvalidConfig(Config),

    /// Can't watch (more) files, limit on the total number of inotify watches reached
    MaxFilesWatch,
}

/// Notify error type.
///
/// Errors are emitted either at creation time of a `Watcher`, or during the event stream. They
/// range from kernel errors to filesystem errors to argument errors.
///
/// Errors can be general, or they can be about specific paths or subtrees. In that later case, the
/// error's `paths` field will be populated.
#[derive(Debug)]
pub struct Error {
    /// Kind of the error.
    pub kind: ErrorKind,

    /// Relevant paths to the error, if any.
    pub paths: Vec<PathBuf>,
}

impl Error {
    /// Adds a path to the error.
    pub fn add_path(mut self, path: PathBuf) -> Self {
        self.paths.push(path);
        self
    }

    /// Replaces the paths for the error.
    pub fn set_paths(mut self, paths: Vec<PathBuf>) -> Self {
        self.paths = paths;
        self
    }

    /// Creates a new Error with empty paths given its kind.
    pub fn new(kind: ErrorKind) -> Self {
        Self {
            kind,
            paths: Vec::new(),
        }
    }

    /// Creates a new generic Error from a message.
    pub fn generic(msg: &str) -> Self {
        Self::new(ErrorKind::Generic(msg.into()))
    }

    /// Creates a new i/o Error from a stdlib `io::Error`.
    pub fn io(err: io::Error) -> Self {
        Self::new(ErrorKind::Io(err))
    }

    /// Creates a new "path not found" error.
    pub fn path_not_found() -> Self {
        Self::new(ErrorKind::PathNotFound)
    }

    /// Creates a new "watch not found" error.
    pub fn watch_not_found() -> Self {
        Self::new(ErrorKind::WatchNotFound)
    }

    /// Creates a new "invalid config" error from the given `Config`.
    pub fn invalid_config(config: &Config) -> Self {
        Self::new(ErrorKind::InvalidConfig(config.clone()))
    }
}

impl fmt::Display for Error {
    fn fmt(&self, f: &mut fmt::Formatter) -> fmt::Result {
        let error = match self.kind {
            ErrorKind::PathNotFound => "No path was found.".into(),
            ErrorKind::WatchNotFound => "No watch was found.".into(),
            ErrorKind::InvalidConfig(ref config) => format!("Invalid configuration: {:?}", config),
            ErrorKind::Generic(ref err) => err.clone(),
            ErrorKind::Io(ref err) => err.to_string(),
            ErrorKind::MaxFilesWatch => "OS file watch limit reached.".into(),
        };

        if self.paths.is_empty() {
            write!(f, "{}", error)
        } else {
            write!(f, "{} about {:?}", error, self.paths)
        }
    }
}

impl StdError for Error {
    fn cause(&self) -> Option<&dyn StdError> {
        match self.kind {
            ErrorKind::Io(ref cause) => Some(cause),
            _ => None,
        }
    }
}

impl From<io::Error> for Error {
    fn from(err: io::Error) -> Self {
        Error::io(err)
    }
}

#[cfg(feature = "crossbeam-channel")]
impl<T> From<crossbeam_channel::SendError<T>> for Error {
    fn from(err: crossbeam_channel::SendError<T>) -> Self {
        Error::generic(&format!("internal channel disconnect: {:?}", err))
    }
}
#[cfg(not(feature = "crossbeam-channel"))]
impl<T> From<std::sync::mpsc::SendError<T>> for Error {
    fn from(err: std::sync::mpsc::SendError<T>) -> Self {
        Error::generic(&format!("internal channel disconnect: {:?}", err))
    }
}
#[cfg(feature = "crossbeam-channel")]
impl From<crossbeam_channel::RecvError> for Error {
    fn from(err: crossbeam_channel::RecvError) -> Self {
        Error::generic(&format!("internal channel disconnect: {:?}", err))
    }
}
#[cfg(not(feature = "crossbeam-channel"))]
impl From<std::sync::mpsc::RecvError> for Error {
    fn from(err: std::sync::mpsc::RecvError) -> Self {
        Error::generic(&format!("internal channel disconnect: {:?}", err))
    }
}

impl<T> From<std::sync::PoisonError<T>> for Error {
    fn from(err: std::sync::PoisonError<T>) -> Self {
        Error::generic(&format!("internal mutex poisoned: {:?}", err))
    }
}

#[test]
fn display_formatted_errors() {
    let expected = "Some error";

    assert_eq!(expected, format!("{}", Error::generic(expected)));

    assert_eq!(
        expected,
        format!(
            "{}",
            Error::io(io::Error::new(io::ErrorKind::Other, expected))
        )
    );
}
