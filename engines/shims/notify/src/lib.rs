//! notify API subset: no OS watcher; events are injected by the harness.
use std::path::{Path, PathBuf};
use std::sync::Mutex;
#[derive(Debug)] pub struct Error(pub String);
impl std::fmt::Display for Error { fn fmt(&self, f: &mut std::fmt::Formatter) -> std::fmt::Result { f.write_str(&self.0) } }
impl std::error::Error for Error {}
pub type Result<T> = std::result::Result<T, Error>;
#[derive(Debug, Clone, Copy, PartialEq, Eq)] pub enum AccessKind { Any, Read, Open, Close, Other }
#[derive(Debug, Clone, Copy, PartialEq, Eq)] pub enum CreateKind { Any, File, Folder, Other }
#[derive(Debug, Clone, Copy, PartialEq, Eq)] pub enum RenameMode { Any, To, From, Both, Other }
#[derive(Debug, Clone, Copy, PartialEq, Eq)] pub enum ModifyKind { Any, Data, Metadata, Name(RenameMode), Other }
#[derive(Debug, Clone, Copy, PartialEq, Eq)] pub enum RemoveKind { Any, File, Folder, Other }
#[derive(Debug, Clone, Copy, PartialEq, Eq)] pub enum EventKind { Any, Access(AccessKind), Create(CreateKind), Modify(ModifyKind), Remove(RemoveKind), Other }
#[derive(Debug, Clone)] pub struct Event { pub kind: EventKind, pub paths: Vec<PathBuf> }
pub trait EventHandler: Send + 'static { fn handle_event(&mut self, event: Result<Event>); }
#[derive(Debug, Clone, Copy)] pub enum RecursiveMode { Recursive, NonRecursive }
static REG: Mutex<Vec<Option<Box<dyn EventHandler>>>> = Mutex::new(Vec::new());
pub struct RecommendedWatcher { id: usize, pub watched: Vec<PathBuf> }
/// liveness of the watcher objects (a dropped watcher stops its notify thread: no more events)
static ALIVE: Mutex<Vec<bool>> = Mutex::new(Vec::new());
pub fn recommended_watcher<H: EventHandler>(h: H) -> Result<RecommendedWatcher> { let mut r = REG.lock().unwrap(); r.push(Some(Box::new(h))); ALIVE.lock().unwrap().push(true); Ok(RecommendedWatcher { id: r.len() - 1, watched: vec![] }) }
pub trait Watcher { fn watch(&mut self, path: &Path, mode: RecursiveMode) -> Result<()>; }
impl Watcher for RecommendedWatcher { fn watch(&mut self, path: &Path, _m: RecursiveMode) -> Result<()> { self.watched.push(path.to_owned()); Ok(()) } }
impl Drop for RecommendedWatcher { fn drop(&mut self) { if let Some(a) = ALIVE.lock().unwrap().get_mut(self.id) { *a = false; } if let Ok(mut r) = REG.try_lock() { if let Some(slot) = r.get_mut(self.id) { *slot = None; } } } }
pub fn stub_inject(id: usize, ev: Event) {
    if !stub_alive(id) { return; }
    let h = REG.lock().unwrap().get_mut(id).and_then(|s| s.take());
    if let Some(mut h) = h {
        h.handle_event(Ok(ev));
        // the handler may have dropped its own watcher while handling (send failed): then it is gone for good
        if stub_alive(id) { let mut r = REG.lock().unwrap(); if r[id].is_none() { r[id] = Some(h); } }
    }
}
/// is the watcher with this registration index still alive (not dropped by its owner)?
pub fn stub_alive(id: usize) -> bool { ALIVE.lock().unwrap().get(id).copied().unwrap_or(false) }
pub fn stub_reset() { REG.lock().unwrap().clear(); ALIVE.lock().unwrap().clear(); }

/// `notify::event::*` paths, as in the real crate.
pub mod event {
    pub use super::{AccessKind, CreateKind, Event, EventKind, ModifyKind, RemoveKind, RenameMode};
}
