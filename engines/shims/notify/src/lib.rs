//! notify 6.1 API over no OS watcher at all: events are injected by the harness.
//! `event.rs`, `error.rs` and `config.rs` are the files of notify 6.1.1 itself (CC0-1.0), so that the
//! event, error and configuration types -- everything the code under test can name -- are exactly the
//! real ones; only the watcher back-end is replaced.
#![allow(unexpected_cfgs, dead_code, missing_docs)]
use std::path::{Path, PathBuf};
use std::sync::Mutex;

pub mod config;
pub mod error;
pub mod event;
pub use config::{Config, RecursiveMode};
pub use error::{Error, ErrorKind, Result};
pub use event::{Event, EventKind};
// the harnesses name the kinds through the crate root
pub use event::{AccessKind, AccessMode, CreateKind, DataChange, MetadataKind, ModifyKind, RemoveKind, RenameMode};

pub trait EventHandler: Send + 'static {
    fn handle_event(&mut self, event: Result<Event>);
}
impl<F> EventHandler for F
where
    F: FnMut(Result<Event>) + Send + 'static,
{
    fn handle_event(&mut self, event: Result<Event>) {
        (self)(event);
    }
}
impl EventHandler for crossbeam_channel::Sender<Result<Event>> {
    fn handle_event(&mut self, event: Result<Event>) {
        let _ = self.send(event);
    }
}
impl EventHandler for std::sync::mpsc::Sender<Result<Event>> {
    fn handle_event(&mut self, event: Result<Event>) {
        let _ = self.send(event);
    }
}

#[derive(Debug, Clone, Copy, PartialEq, Eq, Hash)]
#[non_exhaustive]
pub enum WatcherKind {
    Inotify,
    Fsevent,
    Kqueue,
    PollWatcher,
    ReadDirectoryChangesWatcher,
    NullWatcher,
}

pub trait Watcher {
    fn new<F: EventHandler>(event_handler: F, config: Config) -> Result<Self>
    where
        Self: Sized;
    fn watch(&mut self, path: &Path, recursive_mode: RecursiveMode) -> Result<()>;
    fn unwatch(&mut self, path: &Path) -> Result<()>;
    fn configure(&mut self, _option: Config) -> Result<bool> {
        Ok(false)
    }
    fn kind() -> WatcherKind
    where
        Self: Sized;
}

static REG: Mutex<Vec<Option<Box<dyn EventHandler>>>> = Mutex::new(Vec::new());
/// liveness of the watcher objects (a dropped watcher stops its notify thread: no more events)
static ALIVE: Mutex<Vec<bool>> = Mutex::new(Vec::new());

#[derive(Debug)]
pub struct INotifyWatcher {
    id: usize,
    pub watched: Vec<PathBuf>,
}
pub type RecommendedWatcher = INotifyWatcher;

impl Watcher for INotifyWatcher {
    fn new<F: EventHandler>(h: F, _config: Config) -> Result<Self> {
        let mut r = REG.lock().unwrap();
        r.push(Some(Box::new(h)));
        ALIVE.lock().unwrap().push(true);
        Ok(INotifyWatcher { id: r.len() - 1, watched: vec![] })
    }
    fn watch(&mut self, path: &Path, _m: RecursiveMode) -> Result<()> {
        self.watched.push(path.to_owned());
        Ok(())
    }
    fn unwatch(&mut self, path: &Path) -> Result<()> {
        match self.watched.iter().position(|p| p == path) {
            Some(i) => {
                self.watched.remove(i);
                Ok(())
            }
            None => Err(Error::watch_not_found()),
        }
    }
    fn kind() -> WatcherKind {
        WatcherKind::Inotify
    }
}
pub fn recommended_watcher<F: EventHandler>(event_handler: F) -> Result<RecommendedWatcher> {
    RecommendedWatcher::new(event_handler, Config::default())
}
impl Drop for INotifyWatcher {
    fn drop(&mut self) {
        if let Some(a) = ALIVE.lock().unwrap().get_mut(self.id) {
            *a = false;
        }
        if let Ok(mut r) = REG.try_lock() {
            if let Some(slot) = r.get_mut(self.id) {
                *slot = None;
            }
        }
    }
}

pub fn stub_inject(id: usize, ev: Event) {
    if !stub_alive(id) {
        return;
    }
    let h = REG.lock().unwrap().get_mut(id).and_then(|s| s.take());
    if let Some(mut h) = h {
        h.handle_event(Ok(ev));
        // the handler may have dropped its own watcher while handling (send failed): then it is gone for good
        if stub_alive(id) {
            let mut r = REG.lock().unwrap();
            if r[id].is_none() {
                r[id] = Some(h);
            }
        }
    }
}
/// is the watcher with this registration index still alive (not dropped by its owner)?
pub fn stub_alive(id: usize) -> bool {
    ALIVE.lock().unwrap().get(id).copied().unwrap_or(false)
}
pub fn stub_reset() {
    REG.lock().unwrap().clear();
    ALIVE.lock().unwrap().clear();
}
