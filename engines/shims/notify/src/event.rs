// This file is dual-licensed under the Artistic License 2.0 as per the
// LICENSE.ARTISTIC file, and the Creative Commons Zero 1.0 license.
//! The `Event` type and the hierarchical `EventKind` descriptor.

use std::{
    fmt,
    hash::{Hash, Hasher},
    path::PathBuf,
};

#[cfg(feature = "serde")]
use serde::{Deserialize, Serialize};

/// An event describing open or close operations on files.
#[derive(Clone, Copy, Debug, Eq, Hash, PartialEq)]
#[cfg_attr(feature = "serde", derive(Serialize, Deserialize))]
#[cfg_attr(feature = "serde", serde(rename_all = "kebab-case"))]
pub enum AccessMode {
    /// The catch-all case, to be used when the specific kind of event is unknown.
    Any,

    /// An event emitted when the file is executed, or the folder opened.
    Execute,

    /// An event emitted when the file is opened for reading.
    Read,

    /// An event emitted when the file is opened for writing.
    Write,

    /// An event which specific kind is known but cannot be represented otherwise.
    Other,
}

/// An event describing non-mutating access operations on files.
#[derive(Clone, Copy, Debug, Eq, Hash, PartialEq)]
#[cfg_attr(feature = "serde", derive(Serialize, Deserialize))]
#[cfg_attr(feature = "serde", serde(tag = "kind", content = "mode"))]
#[cfg_attr(feature = "serde", serde(rename_all = "kebab-case"))]
pub enum AccessKind {
    /// The catch-all case, to be used when the specific kind of event is unknown.
    Any,

    /// An event emitted when the file is read.
    Read,

    /// An event emitted when the file, or a handle to the file, is opened.
    Open(AccessMode),

    /// An event emitted when the file, or a handle to the file, is closed.
    Close(AccessMode),

    /// An event which specific kind is known but cannot be represented otherwise.
    Other,
}

/// An event describing creation operations on files.
#[derive(Clone, Copy, Debug, Eq, Hash, PartialEq)]
#[cfg_attr(feature = "serde", derive(Serialize, Deserialize))]
#[cfg_attr(feature = "serde", serde(tag = "kind"))]
#[cfg_attr(feature = "serde", serde(rename_all = "kebab-case"))]
pub enum CreateKind {
    /// The catch-all case, to be used when the specific kind of event is unknown.
    Any,

    /// An event which results in the creation of a file.
    File,

    /// An event which results in the creation of a folder.
    Folder,

    /// An event which specific kind is known but cannot be represented otherwise.
    Other,
}

/// An event emitted when the data content of a file is changed.
#[derive(Clone, Copy, Debug, Eq, Hash, PartialEq)]
#[cfg_attr(feature = "serde", derive(Serialize, Deserialize))]
#[cfg_attr(feature = "serde", serde(rename_all = "kebab-case"))]
pub enum DataChange {
    /// The catch-all case, to be used when the specific kind of event is unknown.
    Any,

    /// An event emitted when the size of the data is changed.
    Size,

    /// An event emitted when the content of the data is changed.
    Content,

    /// An event which specific kind is known but cannot be represented otherwise.
    Other,
}

/// An event emitted when the metadata of a file or folder is changed.
#[derive(Clone, Copy, Debug, Eq, Hash, PartialEq)]
#[cfg_attr(feature = "serde", derive(Serialize, Deserialize))]
#[cfg_attr(feature = "serde", serde(rename_all = "kebab-case"))]
pub enum MetadataKind {
    /// The catch-all case, to be used when the specific kind of event is unknown.
    Any,

    /// An event emitted when the access time of the file or folder is changed.
    AccessTime,

    /// An event emitted when the write or modify time of the file or folder is changed.
    WriteTime,

    /// An event emitted when the permissions of the file or folder are changed.
    Permissions,

    /// An event emitted when the ownership of the file or folder is changed.
    Ownership,

    /// An event emitted when an extended attribute of the file or folder is changed.
    ///
    /// If the extended attribute's name or type is known, it should be provided in the
    /// `Info` event attribute.
    Extended,

    /// An event which specific kind is known but cannot be represented otherwise.
    Other,
}

/// An event emitted when the name of a file or folder is changed.
#[derive(Clone, Copy, Debug, Eq, Hash, PartialEq)]
#[cfg_attr(feature = "serde", derive(Serialize, Deserialize))]
#[cfg_attr(feature = "serde", serde(rename_all = "kebab-case"))]
pub enum RenameMode {
    /// The catch-all case, to be used when the specific kind of event is unknown.
    Any,

    /// An event emitted on the file or folder resulting from a rename.
    To,

    /// An event emitted on the file or folder that was renamed.
    From,

    /// A single event emitted with both the `From` and `To` paths.
    ///
    /// This event should be emitted when both source and target are known. The paths should be
    /// provided in this exact order (from, to).
    Both,

    /// An event which specific kind is known but cannot be represented otherwise.
    Other,
}

/// An event describing mutation of content, name, or metadata.
#[derive(Clone, Copy, Debug, Eq, Hash, PartialEq)]
#[cfg_attr(feature = "serde", derive(Serialize, Deserialize))]
#[cfg_attr(feature = "serde", serde(tag = "kind", content = "mode"))]
#[cfg_attr(feature = "serde", serde(rename_all = "kebab-case"))]
pub enum ModifyKind {
    /// The catch-all case, to be used when the specific kind of event is unknown.
    Any,

    /// An event emitted when the data content of a file is changed.
    Data(DataChange),

    /// An event emitted when the metadata of a file or folder is changed.
    Metadata(MetadataKind),

    /// An event emitted when the name of a file or folder is changed.
    #[cfg_attr(feature = "serde", serde(rename = "rename"))]
    Name(RenameMode),

    /// An event which specific kind is known but cannot be represented otherwise.
    Other,
}

/// An event describing removal operations on files.
#[derive(Clone, Copy, Debug, Eq, Hash, PartialEq)]
#[cfg_attr(feature = "serde", derive(Serialize, Deserialize))]
#[cfg_attr(feature = "serde", serde(tag = "kind"))]
#[cfg_attr(feature = "serde", serde(rename_all = "kebab-case"))]
pub enum RemoveKind {
    /// The catch-all case, to be used when the specific kind of event is unknown.
    Any,

    /// An event emitted when a file is removed.
    File,

    /// An event emitted when a folder is removed.
    Folder,

    /// An event which specific kind is known but cannot be represented otherwise.
    Other,
}

/// Top-level event kind.
///
/// This is arguably the most important classification for events. All subkinds below this one
/// represent details that may or may not be available for any particular backend, but most tools
/// and Notify systems will only care about which of these four general kinds an event is about.
#[derive(Clone, Copy, Debug, Eq, Hash, PartialEq)]
#[cfg_attr(feature = "serde", derive(Serialize, Deserialize))]
#[cfg_attr(feature = "serde", serde(rename_all = "kebab-case"))]
pub enum EventKind {
    /// The catch-all event kind, for unsupported/unknown events.
    ///
    /// This variant should be used as the "else" case when mapping native kernel bitmasks or
    /// bitmaps, such that if the mask is ever extended with new event types the backend will not
    /// gain bugs due to not matching new unknown event types.
    ///
    /// This variant is also the default variant used when Notify is in "imprecise" mode.
    Any,

    /// An event describing non-mutating access operations on files.
    ///
    /// This event is about opening and closing file handles, as well as executing files, and any
    /// other such event that is about accessing files, folders, or other structures rather than
    /// mutating them.
    ///
    /// Only some platforms are capable of generating these.
    Access(AccessKind),

    /// An event describing creation operations on files.
    ///
    /// This event is about the creation of files, folders, or other structures but not about e.g.
    /// writing new content into them.
    Create(CreateKind),

    /// An event describing mutation of content, name, or metadata.
    ///
    /// This event is about the mutation of files', folders', or other structures' content, name
    /// (path), or associated metadata (attributes).
    Modify(ModifyKind),

    /// An event describing removal operations on files.
    ///
    /// This event is about the removal of files, folders, or other structures but not e.g. erasing
    /// content from them. This may also be triggered for renames/moves that move files _out of the
    /// watched subpath_.
    ///
    /// Some editors also trigger Remove events when saving files as they may opt for removing (or
    /// renaming) the original then creating a new file in-place.
    Remove(RemoveKind),

    /// An event not fitting in any of the above four categories.
    ///
    /// This may be used for meta-events about the watch itself.
    Other,
}

impl EventKind {
    /// Indicates whether an event is an Access variant.
    pub fn is_access(&self) -> bool {
        matches!(self, EventKind::Access(_))
    }

    /// Indicates whether an event is a Create variant.
    pub fn is_create(&self) -> bool {
        matches!(self, EventKind::Create(_))
    }

    /// Indicates whether an event is a Modify variant.
    pub fn is_modify(&self) -> bool {
        matches!(self, EventKind::Modify(_))
    }

    /// Indicates whether an event is a Remove variant.
    pub fn is_remove(&self) -> bool {
        matches!(self, EventKind::Remove(_))
    }

    /// Indicates whether an event is an Other variant.
    pub fn is_other(&self) -> bool {
        matches!(self, EventKind::Other)
    }
}

impl Default for EventKind {
    fn default() -> Self {
        EventKind::Any
    }
}

/// Notify event.
///
/// You might want to check [`Event::need_rescan`] to make sure no event was missed before you
/// received this one.
#[derive(Clone)]
#[cfg_attr(feature = "serde", derive(Serialize, Deserialize))]
pub struct Event {
    /// Kind or type of the event.
    ///
    /// This is a hierarchy of enums describing the event as precisely as possible. All enums in
    /// the hierarchy have two variants always present, `Any` and `Other`, accompanied by one or
    /// more specific variants.
    ///
    /// `Any` should be used when more detail about the event is not known beyond the variant
    /// already selected. For example, `AccessMode::Any` means a file has been accessed, but that's
    /// all we know.
    ///
    /// `Other` should be used when more detail _is_ available, but cannot be encoded as one of the
    /// defined variants. When specifying `Other`, the event attributes should contain an `Info`
    /// entry with a short string identifying this detail. That string is to be considered part of
    /// the interface of the backend (i.e. a change should probably be breaking).
    ///
    /// For example, `CreateKind::Other` with an `Info("mount")` may indicate the binding of a
    /// mount. The documentation of the particular backend should indicate if any `Other` events
    /// are generated, and what their description means.
    ///
    /// The `EventKind::Any` variant should be used as the "else" case when mapping native kernel
    /// bitmasks or bitmaps, such that if the mask is ever extended with new event types the
    /// backend will not gain bugs due to not matching new unknown event types.
    #[cfg_attr(feature = "serde", serde(rename = "type"))]
    pub kind: EventKind,

    /// Paths the event is about, if known.
    ///
    /// If an event concerns two or more paths, and the paths are known at the time of event
    /// creation, they should all go in this `Vec`. Otherwise, using the `Tracker` attr may be more
    /// appropriate.
    ///
    /// The order of the paths is likely to be significant! For example, renames where both ends of
    /// the name change are known will have the "source" path first, and the "target" path last.
    pub paths: Vec<PathBuf>,

    // "What should be in the struct" and "what can go in the attrs" is an interesting question.
    //
    // Technically, the paths could go in the attrs. That would reduce the type size to 4 pointer
    // widths, instead of 7 like it is now. Anything 8 and below is probably good — on x64 that's
    // the size of an L1 cache line. The entire kind classification fits in 3 bytes, and an AnyMap
    // is 3 pointers. A Vec<PathBuf> is another 3 pointers.
    //
    // Type size aside, what's behind these structures? A Vec and a PathBuf is stored on the heap.
    // An AnyMap is stored on the heap. But a Vec is directly there, requiring about one access to
    // get, while retrieving anything in the AnyMap requires some accesses as overhead.
    //
    // So things that are used often should be on the struct, and things that are used more rarely
    // should go in the attrs. Additionally, arbitrary data can _only_ go in the attrs.
    //
    // The kind and the paths vie for first place on this scale, depending on how downstream wishes
    // to use the information. Everything else is secondary. So far, that's why paths live here.
    //
    // In the future, it might be possible to have more data and to benchmark things properly, so
    // the performance can be actually quantified. Also, it might turn out that I have no idea what
    // I was talking about, so the above may be discarded or reviewed. We'll see!
    //
    /// Additional attributes of the event.
    ///
    /// Arbitrary data may be added to this field, without restriction beyond the `Sync` and
    /// `Clone` properties. Some data added here is considered for comparing and hashing, but not
    /// all: at this writing this is `Tracker`, `Flag`, `Info`, and `Source`.
    #[cfg_attr(feature = "serde", serde(default))]
    pub attrs: EventAttributes,
}

/// Additional attributes of the event.
#[derive(Clone, Default, Debug)]
#[cfg_attr(feature = "serde", derive(Serialize, Deserialize))]
pub struct EventAttributes {
    #[cfg_attr(feature = "serde", serde(flatten))]
    inner: Option<Box<EventAttributesInner>>,
}

#[derive(Clone, Default, Debug)]
#[cfg_attr(feature = "serde", derive(Serialize, Deserialize))]
struct EventAttributesInner {
    /// Tracking ID for events that are related.
    ///
    /// For events generated by backends with the `TrackRelated` capability. Those backends _may_
    /// emit events that are related to each other, and tag those with an identical "tracking id"
    /// or "cookie". The value is normalised to `usize`.
    #[cfg_attr(
        feature = "serde",
        serde(default, skip_serializing_if = "Option::is_none")
    )]
    tracker: Option<usize>,

    /// Special Notify flag on the event.
    #[cfg_attr(
        feature = "serde",
        serde(default, skip_serializing_if = "Option::is_none")
    )]
    flag: Option<Flag>,

    /// Additional information on the event.
    ///
    /// This is to be used for all `Other` variants of the event kind hierarchy. The variant
    /// indicates that a consumer should look into the `attrs` for an `Info` value; if that value
    /// is missing it should be considered a backend bug.
    ///
    /// This attribute may also be present for non-`Other` variants of the event kind, if doing so
    /// provides useful precision. For example, the `Modify(Metadata(Extended))` kind suggests
    /// using this attribute when information about _what_ extended metadata changed is available.
    ///
    /// This should be a short string, and changes may be considered breaking.
    #[cfg_attr(
        feature = "serde",
        serde(default, skip_serializing_if = "Option::is_none")
    )]
    info: Option<String>,

    /// The source of the event.
    ///
    /// In most cases this should be a short string, identifying the backend unambiguously. In some
    /// cases this may be dynamically generated, but should contain a prefix to make it unambiguous
    /// between backends.
    #[cfg_attr(
        feature = "serde",
        serde(default, skip_serializing_if = "Option::is_none")
    )]
    source: Option<String>,

    /// The process ID of the originator of the event.
    ///
    /// This attribute is experimental and, while included in Notify itself, is not considered
    /// stable or standard enough to be part of the serde, eq, hash, and debug representations.
    #[cfg_attr(
        feature = "serde",
        serde(default, skip_serializing, skip_deserializing)
    )]
    process_id: Option<u32>,
}

impl EventAttributes {
    /// Creates a new `EventAttributes`.
    pub fn new() -> Self {
        Self { inner: None }
    }

    /// Retrieves the tracker ID for an event directly, if present.
    pub fn tracker(&self) -> Option<usize> {
        self.inner.as_ref().and_then(|inner| inner.tracker)
    }

    /// Retrieves the Notify flag for an event directly, if present.
    pub fn flag(&self) -> Option<Flag> {
        self.inner.as_ref().and_then(|inner| inner.flag)
    }

    /// Retrieves the additional info for an event directly, if present.
    pub fn info(&self) -> Option<&str> {
        self.inner.as_ref().and_then(|inner| inner.info.as_deref())
    }

    /// Retrieves the source for an event directly, if present.
    pub fn source(&self) -> Option<&str> {
        self.inner
            .as_ref()
            .and_then(|inner| inner.source.as_deref())
    }

    /// The process ID of the originator of the event.
    ///
    /// This attribute is experimental and, while included in Notify itself, is not considered
    /// stable or standard enough to be part of the serde, eq, hash, and debug representations.
    pub fn process_id(&self) -> Option<u32> {
        self.inner.as_ref().and_then(|inner| inner.process_id)
    }

    /// Sets the tracker.
    pub fn set_tracker(&mut self, tracker: usize) {
        self.inner_mut().tracker = Some(tracker);
    }

    /// Sets the Notify flag onto the event.
    pub fn set_flag(&mut self, flag: Flag) {
        self.inner_mut().flag = Some(flag);
    }

    /// Sets additional info onto the event.
    pub fn set_info(&mut self, info: &str) {
        self.inner_mut().info = Some(info.to_string());
    }

    /// Sets the process id onto the event.
    pub fn set_process_id(&mut self, process_id: u32) {
        self.inner_mut().process_id = Some(process_id)
    }

    fn inner_mut(&mut self) -> &mut EventAttributesInner {
        self.inner
            .get_or_insert_with(|| Box::new(Default::default()))
    }
}

/// Special Notify flag on the event.
///
/// This attribute is used to flag certain kinds of events that Notify either marks or generates in
/// particular ways.
#[derive(Clone, Copy, Debug, Eq, Hash, PartialEq)]
#[cfg_attr(feature = "serde", derive(Deserialize, Serialize))]
pub enum Flag {
    /// Rescan notices are emitted by some platforms (and may also be emitted by Notify itself).
    /// They indicate either a lapse in the events or a change in the filesystem such that events
    /// received so far can no longer be relied on to represent the state of the filesystem now.
    ///
    /// An application that simply reacts to file changes may not care about this. An application
    /// that keeps an in-memory representation of the filesystem will need to care, and will need
    /// to refresh that representation directly from the filesystem.
    Rescan,
}

impl Event {
    /// Returns whether some events may have been missed. If true, you should assume any file or
    /// folder might have been modified.
    ///
    /// See [`Flag::Rescan`] for more information.
    pub fn need_rescan(&self) -> bool {
        matches!(self.flag(), Some(Flag::Rescan))
    }
    /// Retrieves the tracker ID for an event directly, if present.
    pub fn tracker(&self) -> Option<usize> {
        self.attrs.tracker()
    }

    /// Retrieves the Notify flag for an event directly, if present.
    pub fn flag(&self) -> Option<Flag> {
        self.attrs.flag()
    }

    /// Retrieves the additional info for an event directly, if present.
    pub fn info(&self) -> Option<&str> {
        self.attrs.info()
    }

    /// Retrieves the source for an event directly, if present.
    pub fn source(&self) -> Option<&str> {
        self.attrs.source()
    }

    /// Creates a new `Event` given a kind.
    pub fn new(kind: EventKind) -> Self {
        Self {
            kind,
            paths: Vec::new(),
            attrs: EventAttributes::new(),
        }
    }

    /// Sets the kind.
    pub fn set_kind(mut self, kind: EventKind) -> Self {
        self.kind = kind;
        self
    }

    /// Adds a path to the event.
    pub fn add_path(mut self, path: PathBuf) -> Self {
        self.paths.push(path);
        self
    }

    /// Adds a path to the event if the argument is Some.
    pub fn add_some_path(self, path: Option<PathBuf>) -> Self {
        if let Some(path) = path {
            self.add_path(path)
        } else {
            self
        }
    }

    /// Sets the tracker.
    pub fn set_tracker(mut self, tracker: usize) -> Self {
        self.attrs.set_tracker(tracker);
        self
    }

    /// Sets additional info onto the event.
    pub fn set_info(mut self, info: &str) -> Self {
        self.attrs.set_info(info);
        self
    }

    /// Sets the Notify flag onto the event.
    pub fn set_flag(mut self, flag: Flag) -> Self {
        self.attrs.set_flag(flag);
        self
    }

    /// Sets the process id onto the event.
    pub fn set_process_id(mut self, process_id: u32) -> Self {
        self.attrs.set_process_id(process_id);
        self
    }
}

impl fmt::Debug for Event {
    fn fmt(&self, f: &mut fmt::Formatter) -> fmt::Result {
        f.debug_struct("Event")
            .field("kind", &self.kind)
            .field("paths", &self.paths)
            .field("attr:tracker", &self.tracker())
            .field("attr:flag", &self.flag())
            .field("attr:info", &self.info())
            .field("attr:source", &self.source())
            .finish()
    }
}
impl Default for Event {
    fn default() -> Self {
        Self {
            kind: EventKind::default(),
            paths: Vec::new(),
            attrs: EventAttributes::new(),
        }
    }
}

impl Eq for Event {}
impl PartialEq for Event {
    fn eq(&self, other: &Self) -> bool {
        self.kind.eq(&other.kind)
            && self.paths.eq(&other.paths)
            && self.tracker().eq(&other.tracker())
            && self.flag().eq(&other.flag())
            && self.info().eq(&other.info())
            && self.source().eq(&other.source())
    }
}

impl Hash for Event {
    fn hash<H: Hasher>(&self, state: &mut H) {
        self.kind.hash(state);
        self.paths.hash(state);
        self.tracker().hash(state);
        self.flag().hash(state);
        self.info().hash(state);
        self.source().hash(state);
    }
}
