//! Configuration types

use std::time::Duration;

/// Indicates whether only the provided directory or its sub-directories as well should be watched
#[derive(Copy, Clone, PartialEq, Eq, PartialOrd, Ord, Debug, Hash)]
pub enum RecursiveMode {
    /// Watch all sub-directories as well, including directories created after installing the watch
    Recursive,

    /// Watch only the provided directory
    NonRecursive,
}

impl RecursiveMode {
    pub(crate) fn is_recursive(&self) -> bool {
        match *self {
            RecursiveMode::Recursive => true,
            RecursiveMode::NonRecursive => false,
        }
    }
}

/// Watcher Backend configuration
///
/// This contains multiple settings that may relate to only one specific backend,
/// such as to correctly configure each backend regardless of what is selected during runtime.
///
/// ```rust
/// # use std::time::Duration;
/// # use notify::Config;
/// let config = Config::default()
///     .with_poll_interval(Duration::from_secs(2))
///     .with_compare_contents(true);
/// ```
///
/// Some options can be changed during runtime, others have to be set when creating the watcher backend.
#[derive(Copy, Clone, PartialEq, Eq, Debug, Hash)]
pub struct Config {
    /// See [BackendConfig::with_poll_interval]
    poll_interval: Option<Duration>,

    /// See [BackendConfig::with_compare_contents]
    compare_contents: bool,
}

impl Config {
    /// For the [PollWatcher](crate::PollWatcher) backend.
    ///
    /// Interval between each re-scan attempt. This can be extremely expensive for large
    /// file trees so it is recommended to measure and tune accordingly.
    ///
    /// The default poll frequency is 30 seconds.
    /// 
    /// This will enable automatic polling, overwriting [with_manual_polling](Config::with_manual_polling).
    pub fn with_poll_interval(mut self, dur: Duration) -> Self {
        // TODO: v7.0 break signature to option
        self.poll_interval = Some(dur);
        self
    }

    /// Returns current setting
    #[deprecated(
        since = "6.1.0",
        note = "use poll_interval_v2 to account for disabled automatic polling"
    )]
    pub fn poll_interval(&self) -> Duration {
        // TODO: v7.0 break signature to option
        self.poll_interval.unwrap_or_default()
    }

    /// Returns current setting
    pub fn poll_interval_v2(&self) -> Option<Duration> {
        // TODO: v7.0 break signature to option
        self.poll_interval
    }

    /// For the [PollWatcher](crate::PollWatcher) backend.
    /// 
    /// Disable automatic polling. Requires calling [crate::PollWatcher::poll] manually.
    /// 
    /// This will disable automatic polling, overwriting [with_poll_interval](Config::with_poll_interval).
    pub fn with_manual_polling(mut self) -> Self {
        self.poll_interval = None;
        self
    }

    /// For the [PollWatcher](crate::PollWatcher) backend.
    ///
    /// Optional feature that will evaluate the contents of changed files to determine if
    /// they have indeed changed using a fast hashing algorithm.  This is especially important
    /// for pseudo filesystems like those on Linux under /sys and /proc which are not obligated
    /// to respect any other filesystem norms such as modification timestamps, file sizes, etc.
    /// By enabling this feature, performance will be significantly impacted as all files will
    /// need to be read and hashed at each `poll_interval`.
    ///
    /// This can't be changed during runtime. Off by default.
    pub fn with_compare_contents(mut self, compare_contents: bool) -> Self {
        self.compare_contents = compare_contents;
        self
    }

    /// Returns current setting
    pub fn compare_contents(&self) -> bool {
        self.compare_contents
    }
}

impl Default for Config {
    fn default() -> Self {
        Self {
            poll_interval: Some(Duration::from_secs(30)),
            compare_contents: false,
        }
    }
}
