//! parking_lot API subset over detsched.
use detsched::{new_obj, point, with_obj, Obj, ObjId, Op};
use std::cell::UnsafeCell;
use std::ops::{Deref, DerefMut};

pub struct RwLock<T: ?Sized> { id: ObjId, data: UnsafeCell<T> }
unsafe impl<T: ?Sized + Send> Send for RwLock<T> {}
unsafe impl<T: ?Sized + Send + Sync> Sync for RwLock<T> {}
impl<T> RwLock<T> {
    pub fn new(t: T) -> Self { RwLock { id: new_obj(Obj::RwLock { writer: None, readers: 0, waiting_writers: 0, upgradable: None }), data: UnsafeCell::new(t) } }
    pub fn into_inner(self) -> T { self.data.into_inner() }
}
impl<T: ?Sized> RwLock<T> {
    pub fn read(&self) -> RwLockReadGuard<'_, T> { point(Op::RwRead(self.id)); RwLockReadGuard { l: self } }
    pub fn write(&self) -> RwLockWriteGuard<'_, T> {
        point(Op::RwWrite(self.id));
        // a point INSIDE the critical section: without it a write-locked interval that contains no
        // other operation would be atomic, and nothing (e.g. a `try_read`) could ever observe it held
        point(Op::Yield("w-held"));
        RwLockWriteGuard { l: self }
    }
    pub fn get_mut(&mut self) -> &mut T { self.data.get_mut() }
}
pub struct RwLockReadGuard<'a, T: ?Sized> { l: &'a RwLock<T> }
pub struct RwLockWriteGuard<'a, T: ?Sized> { l: &'a RwLock<T> }
unsafe impl<T: ?Sized + Sync> Sync for RwLockReadGuard<'_, T> {}
unsafe impl<T: ?Sized + Sync> Sync for RwLockWriteGuard<'_, T> {}
impl<T: ?Sized> Deref for RwLockReadGuard<'_, T> { type Target = T; fn deref(&self) -> &T { unsafe { &*self.l.data.get() } } }
impl<T: ?Sized> Deref for RwLockWriteGuard<'_, T> { type Target = T; fn deref(&self) -> &T { unsafe { &*self.l.data.get() } } }
impl<T: ?Sized> DerefMut for RwLockWriteGuard<'_, T> { fn deref_mut(&mut self) -> &mut T { unsafe { &mut *self.l.data.get() } } }
impl<T: ?Sized> Drop for RwLockReadGuard<'_, T> { fn drop(&mut self) { with_obj(self.l.id, |o| if let Obj::RwLock { readers, .. } = o { *readers = readers.saturating_sub(1) }); } }
impl<T: ?Sized> Drop for RwLockWriteGuard<'_, T> { fn drop(&mut self) { with_obj(self.l.id, |o| if let Obj::RwLock { writer, .. } = o { *writer = None }); } }

pub struct Mutex<T: ?Sized> { id: ObjId, data: UnsafeCell<T> }
unsafe impl<T: ?Sized + Send> Send for Mutex<T> {}
unsafe impl<T: ?Sized + Send> Sync for Mutex<T> {}
impl<T> Mutex<T> { pub fn new(t: T) -> Self { Mutex { id: new_obj(Obj::Mutex { owner: None }), data: UnsafeCell::new(t) } } }
impl<T: Default> Default for Mutex<T> { fn default() -> Self { Mutex::new(T::default()) } }
impl<T: ?Sized> Mutex<T> { pub fn lock(&self) -> MutexGuard<'_, T> { point(Op::MutexLock(self.id)); MutexGuard { m: self } } }
pub struct MutexGuard<'a, T: ?Sized> { m: &'a Mutex<T> }
impl<T: ?Sized> Deref for MutexGuard<'_, T> { type Target = T; fn deref(&self) -> &T { unsafe { &*self.m.data.get() } } }
impl<T: ?Sized> DerefMut for MutexGuard<'_, T> { fn deref_mut(&mut self) -> &mut T { unsafe { &mut *self.m.data.get() } } }
impl<T: ?Sized> Drop for MutexGuard<'_, T> { fn drop(&mut self) { with_obj(self.m.id, |o| *o = Obj::Mutex { owner: None }); } }

pub struct Condvar { id: ObjId }
impl Default for Condvar { fn default() -> Self { Condvar::new() } }
impl Condvar {
    pub fn new() -> Self { Condvar { id: new_obj(Obj::Condvar { waiters: vec![], notified: vec![] }) } }
    pub fn notify_all(&self) -> usize { point(Op::CondNotifyAll(self.id)); 0 }
    /// wakes one waiter — which one is the explorer's (adversarial) choice
    pub fn notify_one(&self) -> bool {
        let n = with_obj(self.id, |o| if let Obj::Condvar { waiters, .. } = o { waiters.len() } else { 0 }).unwrap_or(0);
        let k = detsched::choose(n.max(1));
        point(Op::CondNotifyOneAt(self.id, k));
        n > 0
    }
    pub fn wait<T: ?Sized>(&self, g: &mut MutexGuard<'_, T>) { point(Op::CondWait(self.id, g.m.id)); point(Op::CondReacquire(self.id, g.m.id)); }
}

// --- conformance helpers (used only by the shim conformance table) ---------------------------
impl<T: ?Sized> RwLock<T> {
    /// would `read()` be admitted right now (no writer holds the lock)?
    pub fn stub_can_read(&self) -> bool {
        with_obj(self.id, |o| matches!(o, Obj::RwLock { writer: None, .. })).unwrap_or(true)
    }
    /// would `write()` be admitted right now?
    pub fn stub_can_write(&self) -> bool {
        with_obj(self.id, |o| matches!(o, Obj::RwLock { writer: None, readers: 0, upgradable: None, .. })).unwrap_or(true)
    }
}
impl<T: ?Sized> Mutex<T> {
    pub fn stub_can_lock(&self) -> bool {
        with_obj(self.id, |o| matches!(o, Obj::Mutex { owner: None })).unwrap_or(true)
    }
}

impl<T: ?Sized> RwLock<T> {
    pub fn try_read(&self) -> Option<RwLockReadGuard<'_, T>> { point(Op::Yield("try-read")); if self.stub_can_read() { with_obj(self.id, |o| if let Obj::RwLock { readers, .. } = o { *readers += 1 }); Some(RwLockReadGuard { l: self }) } else { None } }
    pub fn try_write(&self) -> Option<RwLockWriteGuard<'_, T>> { point(Op::Yield("try-write")); if self.stub_can_write() { with_obj(self.id, |o| if let Obj::RwLock { writer, .. } = o { *writer = Some(detsched::current_tid().unwrap_or(0)) }); Some(RwLockWriteGuard { l: self }) } else { None } }
}
impl<T: ?Sized> Mutex<T> {
    pub fn try_lock(&self) -> Option<MutexGuard<'_, T>> { point(Op::Yield("try-lock")); if self.stub_can_lock() { with_obj(self.id, |o| *o = Obj::Mutex { owner: Some(detsched::current_tid().unwrap_or(0)) }); Some(MutexGuard { m: self }) } else { None } }
    pub fn get_mut(&mut self) -> &mut T { self.data.get_mut() }
}
impl<T> Mutex<T> { pub fn into_inner(self) -> T { self.data.into_inner() } }

// --- upgradable reads ---------------------------------------------------------------------------
pub struct RwLockUpgradableReadGuard<'a, T: ?Sized> { l: &'a RwLock<T> }
unsafe impl<T: ?Sized + Sync> Sync for RwLockUpgradableReadGuard<'_, T> {}
impl<T: ?Sized> RwLock<T> {
    pub fn upgradable_read(&self) -> RwLockUpgradableReadGuard<'_, T> { point(Op::RwUpgradable(self.id)); RwLockUpgradableReadGuard { l: self } }
    pub fn is_locked(&self) -> bool { !self.stub_can_write() }
    pub fn is_locked_exclusive(&self) -> bool { !self.stub_can_read() }
}
impl<'a, T: ?Sized> RwLockUpgradableReadGuard<'a, T> {
    pub fn upgrade(s: Self) -> RwLockWriteGuard<'a, T> {
        let l = s.l;
        std::mem::forget(s);
        point(Op::RwUpgrade(l.id));
        point(Op::Yield("w-held"));
        RwLockWriteGuard { l }
    }
    pub fn downgrade(s: Self) -> RwLockReadGuard<'a, T> {
        let l = s.l;
        std::mem::forget(s);
        with_obj(l.id, |o| if let Obj::RwLock { upgradable, readers, .. } = o { *upgradable = None; *readers += 1 });
        RwLockReadGuard { l }
    }
}
impl<T: ?Sized> Deref for RwLockUpgradableReadGuard<'_, T> { type Target = T; fn deref(&self) -> &T { unsafe { &*self.l.data.get() } } }
impl<T: ?Sized> Drop for RwLockUpgradableReadGuard<'_, T> { fn drop(&mut self) { with_obj(self.l.id, |o| if let Obj::RwLock { upgradable, .. } = o { *upgradable = None }); } }
impl<'a, T: ?Sized> RwLockWriteGuard<'a, T> {
    pub fn downgrade(s: Self) -> RwLockReadGuard<'a, T> {
        let l = s.l;
        std::mem::forget(s);
        with_obj(l.id, |o| if let Obj::RwLock { writer, readers, .. } = o { *writer = None; *readers += 1 });
        RwLockReadGuard { l }
    }
}
// --- the rest of the commonly used surface --------------------------------------------------------
impl<T: Default> Default for RwLock<T> { fn default() -> Self { RwLock::new(T::default()) } }
impl<T> From<T> for RwLock<T> { fn from(t: T) -> Self { RwLock::new(t) } }
impl<T> From<T> for Mutex<T> { fn from(t: T) -> Self { Mutex::new(t) } }
impl<T: ?Sized> std::fmt::Debug for RwLock<T> { fn fmt(&self, f: &mut std::fmt::Formatter) -> std::fmt::Result { f.write_str("RwLock { .. }") } }
impl<T: ?Sized> std::fmt::Debug for Mutex<T> { fn fmt(&self, f: &mut std::fmt::Formatter) -> std::fmt::Result { f.write_str("Mutex { .. }") } }
impl std::fmt::Debug for Condvar { fn fmt(&self, f: &mut std::fmt::Formatter) -> std::fmt::Result { f.write_str("Condvar { .. }") } }
impl<T: ?Sized> Mutex<T> { pub fn is_locked(&self) -> bool { !self.stub_can_lock() } }
impl Condvar {
    /// `wait_while` of parking_lot 0.12: blocks while `condition` holds
    pub fn wait_while<T: ?Sized, F: FnMut(&mut T) -> bool>(&self, g: &mut MutexGuard<'_, T>, mut condition: F) {
        while condition(&mut **g) {
            self.wait(g);
        }
    }
}
impl<T: ?Sized> RwLock<T> {
    /// would `upgradable_read()` be admitted right now?
    pub fn stub_can_upgradable(&self) -> bool {
        with_obj(self.id, |o| matches!(o, Obj::RwLock { writer: None, upgradable: None, .. })).unwrap_or(true)
    }
    /// would `upgrade` complete right now (no plain reader left)?
    pub fn stub_can_upgrade(&self) -> bool {
        with_obj(self.id, |o| matches!(o, Obj::RwLock { readers: 0, .. })).unwrap_or(true)
    }
    pub fn try_upgradable_read(&self) -> Option<RwLockUpgradableReadGuard<'_, T>> {
        point(Op::Yield("try-upgradable"));
        if self.stub_can_upgradable() {
            with_obj(self.id, |o| if let Obj::RwLock { upgradable, .. } = o { *upgradable = Some(detsched::current_tid().unwrap_or(0)) });
            Some(RwLockUpgradableReadGuard { l: self })
        } else {
            None
        }
    }
}
impl<'a, T: ?Sized> RwLockUpgradableReadGuard<'a, T> {
    pub fn try_upgrade(s: Self) -> Result<RwLockWriteGuard<'a, T>, Self> {
        point(Op::Yield("try-upgrade"));
        if s.l.stub_can_upgrade() {
            let l = s.l;
            std::mem::forget(s);
            with_obj(l.id, |o| if let Obj::RwLock { upgradable, writer, .. } = o { *upgradable = None; *writer = Some(detsched::current_tid().unwrap_or(0)) });
            Ok(RwLockWriteGuard { l })
        } else {
            Err(s)
        }
    }
}

// --- timed waits ---------------------------------------------------------------------------------
// Time is not modelled: a time-out may fire at any moment.  While anything else can run that is a
// costed deviation of the exploration (like a preemption); when nothing else can run it fires for
// free (time passes), a bounded number of times per thread.  Durations and deadlines are ignored.
#[derive(Debug, PartialEq, Eq, Copy, Clone)]
pub struct WaitTimeoutResult(bool);
impl WaitTimeoutResult { pub fn timed_out(&self) -> bool { self.0 } }
impl Condvar {
    pub fn wait_for<T: ?Sized>(&self, g: &mut MutexGuard<'_, T>, _timeout: std::time::Duration) -> WaitTimeoutResult {
        point(Op::CondWait(self.id, g.m.id));
        point(Op::CondReacquireTimed(self.id, g.m.id));
        WaitTimeoutResult(detsched::last_timed_out())
    }
    pub fn wait_until<T: ?Sized>(&self, g: &mut MutexGuard<'_, T>, _deadline: std::time::Instant) -> WaitTimeoutResult {
        self.wait_for(g, std::time::Duration::ZERO)
    }
    pub fn wait_while_for<T: ?Sized, F: FnMut(&mut T) -> bool>(&self, g: &mut MutexGuard<'_, T>, mut condition: F, timeout: std::time::Duration) -> WaitTimeoutResult {
        while condition(&mut **g) {
            if self.wait_for(g, timeout).timed_out() {
                return WaitTimeoutResult(true);
            }
        }
        WaitTimeoutResult(false)
    }
    pub fn wait_while_until<T: ?Sized, F: FnMut(&mut T) -> bool>(&self, g: &mut MutexGuard<'_, T>, condition: F, _deadline: std::time::Instant) -> WaitTimeoutResult {
        self.wait_while_for(g, condition, std::time::Duration::ZERO)
    }
}
impl<T: ?Sized> Mutex<T> {
    pub fn try_lock_for(&self, _d: std::time::Duration) -> Option<MutexGuard<'_, T>> { self.try_lock() }
    pub fn try_lock_until(&self, _d: std::time::Instant) -> Option<MutexGuard<'_, T>> { self.try_lock() }
}
impl<T: ?Sized> RwLock<T> {
    pub fn try_read_for(&self, _d: std::time::Duration) -> Option<RwLockReadGuard<'_, T>> { self.try_read() }
    pub fn try_write_for(&self, _d: std::time::Duration) -> Option<RwLockWriteGuard<'_, T>> { self.try_write() }
    pub fn try_read_until(&self, _d: std::time::Instant) -> Option<RwLockReadGuard<'_, T>> { self.try_read() }
    pub fn try_write_until(&self, _d: std::time::Instant) -> Option<RwLockWriteGuard<'_, T>> { self.try_write() }
}
