//! ahash::RandomState replacement: SipHash seeded by a harness-controlled global.
use std::hash::{BuildHasher, Hasher};
use std::sync::atomic::{AtomicU64, Ordering};
static SEED: AtomicU64 = AtomicU64::new(0);
pub fn stub_set_seed(s: u64) { SEED.store(s, Ordering::SeqCst); }
#[derive(Clone, Debug)] pub struct RandomState(u64);
impl RandomState { pub fn new() -> Self { RandomState(SEED.load(Ordering::SeqCst)) } }
impl Default for RandomState { fn default() -> Self { Self::new() } }
impl BuildHasher for RandomState { type Hasher = std::collections::hash_map::DefaultHasher; fn build_hasher(&self) -> Self::Hasher { let mut h = std::collections::hash_map::DefaultHasher::new(); h.write_u64(self.0); h } }
