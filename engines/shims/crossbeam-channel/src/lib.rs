//! crossbeam-channel API subset over detsched.
use detsched::{choose, new_obj, point, with_obj, Obj, ObjId, Op};
use std::collections::VecDeque;
use std::fmt;
use std::sync::{Arc, Mutex};

struct Chan<T> { id: ObjId, q: Mutex<VecDeque<T>> }
pub struct Sender<T> { ch: Arc<Chan<T>> }
pub struct Receiver<T> { ch: Arc<Chan<T>> }
pub struct SendError<T>(pub T);
impl<T> fmt::Debug for SendError<T> { fn fmt(&self, f: &mut fmt::Formatter) -> fmt::Result { f.write_str("SendError(..)") } }
#[derive(Debug, PartialEq, Eq, Clone, Copy)] pub enum TryRecvError { Empty, Disconnected }

pub fn unbounded<T>() -> (Sender<T>, Receiver<T>) {
    let ch = Arc::new(Chan { id: new_obj(Obj::Chan { len: 0, senders: 1, receivers: 1, cap: usize::MAX }), q: Mutex::new(VecDeque::new()) });
    (Sender { ch: ch.clone() }, Receiver { ch })
}
/// bounded channel: `send` blocks while the channel is full (cap 0 is modelled as cap 1)
pub fn bounded<T>(cap: usize) -> (Sender<T>, Receiver<T>) {
    let ch = Arc::new(Chan { id: new_obj(Obj::Chan { len: 0, senders: 1, receivers: 1, cap: cap.max(1) }), q: Mutex::new(VecDeque::new()) });
    (Sender { ch: ch.clone() }, Receiver { ch })
}
#[derive(Debug, PartialEq, Eq, Clone, Copy)] pub struct RecvError;
#[derive(Debug, PartialEq, Eq, Clone, Copy)] pub enum RecvTimeoutError { Timeout, Disconnected }
impl fmt::Display for RecvTimeoutError { fn fmt(&self, f: &mut fmt::Formatter) -> fmt::Result { f.write_str(match self { RecvTimeoutError::Timeout => "timed out waiting on receive operation", RecvTimeoutError::Disconnected => "channel is empty and disconnected" }) } }
impl std::error::Error for RecvTimeoutError {}
impl RecvTimeoutError { pub fn is_timeout(&self) -> bool { matches!(self, RecvTimeoutError::Timeout) } pub fn is_disconnected(&self) -> bool { matches!(self, RecvTimeoutError::Disconnected) } }
#[derive(Debug, PartialEq, Eq, Clone, Copy)] pub struct ReadyTimeoutError;
impl fmt::Display for ReadyTimeoutError { fn fmt(&self, f: &mut fmt::Formatter) -> fmt::Result { f.write_str("timed out waiting on select") } }
impl std::error::Error for ReadyTimeoutError {}
impl fmt::Display for RecvError { fn fmt(&self, f: &mut fmt::Formatter) -> fmt::Result { f.write_str("receiving on an empty and disconnected channel") } }
impl std::error::Error for RecvError {}
impl fmt::Display for TryRecvError { fn fmt(&self, f: &mut fmt::Formatter) -> fmt::Result { f.write_str(match self { TryRecvError::Empty => "receiving on an empty channel", TryRecvError::Disconnected => "receiving on an empty and disconnected channel" }) } }
impl std::error::Error for TryRecvError {}
impl<T> fmt::Display for SendError<T> { fn fmt(&self, f: &mut fmt::Formatter) -> fmt::Result { f.write_str("sending on a disconnected channel") } }
impl<T> std::error::Error for SendError<T> {}
impl<T> SendError<T> { pub fn into_inner(self) -> T { self.0 } }
impl TryRecvError { pub fn is_empty(&self) -> bool { matches!(self, TryRecvError::Empty) } pub fn is_disconnected(&self) -> bool { matches!(self, TryRecvError::Disconnected) } }
/// a channel that never delivers anything and is never disconnected (so it is never ready)
pub fn never<T>() -> Receiver<T> {
    let ch = Arc::new(Chan { id: new_obj(Obj::Chan { len: 0, senders: 1, receivers: 1, cap: usize::MAX }), q: Mutex::new(VecDeque::new()) });
    Receiver { ch }
}
pub enum TrySendError<T> { Full(T), Disconnected(T) }
impl<T> fmt::Debug for TrySendError<T> { fn fmt(&self, f: &mut fmt::Formatter) -> fmt::Result { f.write_str("TrySendError(..)") } }
impl<T> Clone for Sender<T> { fn clone(&self) -> Self { with_obj(self.ch.id, |o| if let Obj::Chan { senders, .. } = o { *senders += 1 }); Sender { ch: self.ch.clone() } } }
impl<T> Drop for Sender<T> { fn drop(&mut self) { with_obj(self.ch.id, |o| if let Obj::Chan { senders, .. } = o { *senders = senders.saturating_sub(1) }); } }
impl<T> Clone for Receiver<T> { fn clone(&self) -> Self { with_obj(self.ch.id, |o| if let Obj::Chan { receivers, .. } = o { *receivers += 1 }); Receiver { ch: self.ch.clone() } } }
impl<T> Drop for Receiver<T> { fn drop(&mut self) { with_obj(self.ch.id, |o| if let Obj::Chan { receivers, .. } = o { *receivers = receivers.saturating_sub(1) }); } }
impl<T> fmt::Debug for Sender<T> { fn fmt(&self, f: &mut fmt::Formatter) -> fmt::Result { f.write_str("Sender { .. }") } }
impl<T> fmt::Debug for Receiver<T> { fn fmt(&self, f: &mut fmt::Formatter) -> fmt::Result { f.write_str("Receiver { .. }") } }
impl<T> Sender<T> {
    pub fn try_send(&self, t: T) -> Result<(), TrySendError<T>> {
        point(Op::Send(self.ch.id));
        let st = with_obj(self.ch.id, |o| if let Obj::Chan { receivers, len, cap, .. } = o { if *receivers == 0 { 2 } else if *len >= *cap { 1 } else { *len += 1; 0 } } else { 2 });
        match st { Some(0) | None => { self.ch.q.lock().unwrap().push_back(t); Ok(()) } Some(1) => Err(TrySendError::Full(t)), _ => Err(TrySendError::Disconnected(t)) }
    }
    pub fn len(&self) -> usize { self.ch.q.lock().unwrap().len() }
    pub fn is_empty(&self) -> bool { self.len() == 0 }
    pub fn send(&self, t: T) -> Result<(), SendError<T>> {
        let bounded = with_obj(self.ch.id, |o| matches!(o, Obj::Chan { cap, .. } if *cap != usize::MAX)).unwrap_or(false);
        point(if bounded { Op::SendBounded(self.ch.id) } else { Op::Send(self.ch.id) });
        let alive = with_obj(self.ch.id, |o| if let Obj::Chan { receivers, len, .. } = o { if *receivers > 0 { *len += 1; true } else { false } } else { false });
        match alive { Some(false) => Err(SendError(t)), _ => { self.ch.q.lock().unwrap().push_back(t); Ok(()) } }
    }
}
impl<T> Receiver<T> {
    /// blocking receive
    pub fn recv(&self) -> Result<T, RecvError> {
        point(Op::Recv(self.ch.id));
        match self.ch.q.lock().unwrap().pop_front() {
            Some(t) => { with_obj(self.ch.id, |o| if let Obj::Chan { len, .. } = o { *len -= 1 }); Ok(t) }
            None => Err(RecvError),
        }
    }
    /// timed receive: the time-out may fire at any moment (see the parking_lot shim); the duration is ignored
    pub fn recv_timeout(&self, _d: std::time::Duration) -> Result<T, RecvTimeoutError> {
        point(Op::RecvTimed(self.ch.id));
        if detsched::last_timed_out() { return Err(RecvTimeoutError::Timeout); }
        match self.ch.q.lock().unwrap().pop_front() {
            Some(t) => { with_obj(self.ch.id, |o| if let Obj::Chan { len, .. } = o { *len -= 1 }); Ok(t) }
            None => Err(RecvTimeoutError::Disconnected),
        }
    }
    pub fn recv_deadline(&self, _d: std::time::Instant) -> Result<T, RecvTimeoutError> { self.recv_timeout(std::time::Duration::ZERO) }
    pub fn try_iter(&self) -> impl Iterator<Item = T> + '_ { std::iter::from_fn(move || self.try_recv().ok()) }
    pub fn iter(&self) -> impl Iterator<Item = T> + '_ { std::iter::from_fn(move || self.recv().ok()) }
    pub fn len(&self) -> usize { self.ch.q.lock().unwrap().len() }
    pub fn is_empty(&self) -> bool { self.len() == 0 }
    pub fn try_recv(&self) -> Result<T, TryRecvError> {
        point(Op::TryRecv(self.ch.id));
        match self.ch.q.lock().unwrap().pop_front() {
            Some(t) => { with_obj(self.ch.id, |o| if let Obj::Chan { len, .. } = o { *len -= 1 }); Ok(t) }
            None => { let s = with_obj(self.ch.id, |o| if let Obj::Chan { senders, .. } = o { *senders } else { 1 }).unwrap_or(1); if s == 0 { Err(TryRecvError::Disconnected) } else { Err(TryRecvError::Empty) } }
        }
    }
}
pub struct Select<'a> { ids: Vec<Option<ObjId>>, _p: std::marker::PhantomData<&'a ()> }
impl<'a> Select<'a> {
    pub fn new() -> Self { point(Op::Yield("select-new")); Select { ids: vec![], _p: std::marker::PhantomData } }
    pub fn recv<T>(&mut self, r: &'a Receiver<T>) -> usize { self.ids.push(Some(r.ch.id)); self.ids.len() - 1 }
    /// removes a previously added operation (as in the real crate, panics if it is not there)
    pub fn remove(&mut self, index: usize) { assert!(self.ids.get(index).map(|x| x.is_some()).unwrap_or(false), "index out of bounds; {index} was already removed"); self.ids[index] = None; }
    fn live(&self) -> Vec<ObjId> { self.ids.iter().flatten().copied().collect() }
    pub fn try_ready(&mut self) -> Result<usize, ()> {
        point(Op::Yield("try-ready"));
        let ready = self.stub_ready_set();
        if ready.is_empty() { Err(()) } else { Ok(ready[choose(ready.len())]) }
    }
    pub fn ready_timeout(&mut self, _d: std::time::Duration) -> Result<usize, ReadyTimeoutError> {
        point(Op::SelectReadyTimed(self.live()));
        if detsched::last_timed_out() { return Err(ReadyTimeoutError); }
        let ready = self.stub_ready_set();
        if ready.is_empty() { return Err(ReadyTimeoutError); }
        Ok(ready[choose(ready.len())])
    }
    pub fn ready_deadline(&mut self, _d: std::time::Instant) -> Result<usize, ReadyTimeoutError> { self.ready_timeout(std::time::Duration::ZERO) }
    pub fn ready(&mut self) -> usize {
        point(Op::SelectReady(self.live()));
        let ready = self.stub_ready_set();
        if ready.is_empty() { return 0; }
        ready[choose(ready.len())]
    }
}

// --- conformance helpers ---------------------------------------------------------------------
impl<'a> Select<'a> {
    /// indices that `ready()` may return right now (empty = it would block)
    pub fn stub_ready_set(&self) -> Vec<usize> {
        self.ids.iter().enumerate().filter(|(_, id)| id.map(|id| with_obj(id, |o| matches!(o, Obj::Chan { len, senders, .. } if *len > 0 || *senders == 0)).unwrap_or(false)).unwrap_or(false)).map(|(i, _)| i).collect()
    }
}

// --- `select!` over receive operations ---------------------------------------------------------
#[doc(hidden)]
pub fn __recv_selected<T>(r: &Receiver<T>) -> Result<T, RecvError> {
    // the channel was reported ready: a message is there, or it is disconnected; with several
    // consumers the message may be gone again, in which case this blocks like the chosen arm would
    match r.try_recv() {
        Ok(t) => Ok(t),
        Err(TryRecvError::Disconnected) => Err(RecvError),
        Err(TryRecvError::Empty) => r.recv(),
    }
}
/// `select!` with `recv(r) -> res => body` arms and an optional `default => body` arm (no `send`
/// arms, no timeouts): blocks until one of the channels is ready, the explorer choosing among the
/// ready ones, exactly like `Select::ready` followed by a receive on that channel.
#[macro_export]
macro_rules! select {
    ($($t:tt)*) => { $crate::__select_munch!( [] [] $($t)* ) };
}
#[doc(hidden)]
#[macro_export]
macro_rules! __select_munch {
    ( [$( ($r:expr, $res:pat, $body:expr) )+] [$($d:expr)?] ) => { $crate::__select_emit!( [$( ($r, $res, $body) )+] [$($d)?] ) };
    ( [$($arms:tt)*] [] default => $b:block $(,)? $($rest:tt)* ) => { $crate::__select_munch!( [$($arms)*] [$b] $($rest)* ) };
    ( [$($arms:tt)*] [] default => $b:expr , $($rest:tt)* ) => { $crate::__select_munch!( [$($arms)*] [$b] $($rest)* ) };
    ( [$($arms:tt)*] [] default => $b:expr ) => { $crate::__select_munch!( [$($arms)*] [$b] ) };
    ( [$($arms:tt)*] [$($d:tt)*] recv($r:expr) -> $res:pat => $b:block $(,)? $($rest:tt)* ) => { $crate::__select_munch!( [$($arms)* ($r, $res, $b)] [$($d)*] $($rest)* ) };
    ( [$($arms:tt)*] [$($d:tt)*] recv($r:expr) -> $res:pat => $b:expr , $($rest:tt)* ) => { $crate::__select_munch!( [$($arms)* ($r, $res, $b)] [$($d)*] $($rest)* ) };
    ( [$($arms:tt)*] [$($d:tt)*] recv($r:expr) -> $res:pat => $b:expr ) => { $crate::__select_munch!( [$($arms)* ($r, $res, $b)] [$($d)*] ) };
}
#[doc(hidden)]
#[macro_export]
macro_rules! __select_emit {
    ( [$( ($r:expr, $res:pat, $body:expr) )+] [] ) => {{
        let __i = {
            let mut __sel = $crate::Select::new();
            $( let _ = __sel.recv(&$r); )+
            __sel.ready()
        };
        let mut __k = 0usize;
        $( if { let __hit = __i == __k; __k += 1; __hit } { let $res = $crate::__recv_selected(&$r); $body } else )+ { let _ = __k; unreachable!() }
    }};
    ( [$( ($r:expr, $res:pat, $body:expr) )+] [$d:expr] ) => {{
        let __i = {
            let mut __sel = $crate::Select::new();
            $( let _ = __sel.recv(&$r); )+
            __sel.try_ready()
        };
        match __i {
            Err(_) => $d,
            Ok(__i) => {
                let mut __k = 0usize;
                $( if { let __hit = __i == __k; __k += 1; __hit } { let $res = $crate::__recv_selected(&$r); $body } else )+ { let _ = __k; unreachable!() }
            }
        }
    }};
}
