//! Shared plumbing of the three engines: sub-check result format, CLI parsing, and a
//! multi-process worker pool (a detsched process runs one execution at a time, and crash-shaped
//! cases must not take the enumerator down with them).
use serde::{Deserialize, Serialize};
use serde_json::Value;
use std::collections::BTreeSet;
use std::hash::{Hash, Hasher};
use std::time::{Duration, Instant};

#[derive(Serialize, Deserialize, Clone, Debug)]
pub struct Violation {
    /// stable, minimised witness key: what `known_findings.json` is matched against
    pub key: String,
    pub desc: String,
    /// everything needed to replay (`<engine> --replay file`)
    pub replay: Value,
    /// enumeration rank (case index): on merge the simplest (lowest) witness per key is kept
    #[serde(default)]
    pub rank: u64,
}

#[derive(Serialize, Deserialize, Clone, Debug, Default)]
pub struct SubResult {
    pub subcheck: String,
    pub property: String,
    /// scheduling points / canonical states visited
    pub states: u64,
    /// steps / operations executed
    pub transitions: u64,
    /// complete executions / histories / inputs
    pub evaluations: u64,
    /// hashes of distinct observed outcomes (or canonical states); merged as a set
    pub distinct: BTreeSet<u64>,
    pub exhaustive: bool,
    pub bound: String,
    pub caps: Vec<String>,
    pub traces_validated: u64,
    pub samples: Vec<Value>,
    pub rule: String,
    pub violations: Vec<Violation>,
    pub notes: serde_json::Map<String, Value>,
    pub wall_s: f64,
    #[serde(default)]
    pub cur_rank: u64,
}

pub fn h64<T: Hash + ?Sized>(t: &T) -> u64 {
    let mut h = std::collections::hash_map::DefaultHasher::new();
    t.hash(&mut h);
    h.finish()
}

impl SubResult {
    pub fn new(property: &str, subcheck: &str) -> Self {
        SubResult { subcheck: subcheck.into(), property: property.into(), exhaustive: true, ..Default::default() }
    }
    pub fn outcome<T: Hash + ?Sized>(&mut self, t: &T) {
        self.distinct.insert(h64(t));
    }
    pub fn sample(&mut self, v: Value) {
        if self.samples.len() < 6 {
            self.samples.push(v);
        }
    }
    pub fn violation(&mut self, key: impl Into<String>, desc: impl Into<String>, replay: Value) {
        let rank = self.cur_rank;
        self.violation_ranked(key.into(), desc.into(), replay, rank);
    }
    pub fn violation_ranked(&mut self, key: String, desc: String, replay: Value, rank: u64) {
        // keep one violation per key: the simplest in enumeration order
        if let Some(v) = self.violations.iter_mut().find(|v| v.key == key) {
            if rank < v.rank {
                *v = Violation { key, desc, replay, rank };
            }
            return;
        }
        if self.violations.len() < 200 {
            self.violations.push(Violation { key, desc, replay, rank });
        }
    }
    pub fn cap(&mut self, what: impl Into<String>) {
        let w = what.into();
        self.exhaustive = false;
        if !self.caps.contains(&w) && self.caps.len() < 20 {
            self.caps.push(w);
        }
    }
    pub fn note(&mut self, k: &str, v: Value) {
        self.notes.insert(k.into(), v);
    }
    pub fn add_note_count(&mut self, k: &str, n: u64) {
        let cur = self.notes.get(k).and_then(|v| v.as_u64()).unwrap_or(0);
        self.notes.insert(k.into(), Value::from(cur + n));
    }
    pub fn merge(&mut self, o: SubResult) {
        self.states += o.states;
        self.transitions += o.transitions;
        self.evaluations += o.evaluations;
        self.distinct.extend(o.distinct);
        self.exhaustive &= o.exhaustive;
        for c in o.caps {
            if !self.caps.contains(&c) {
                self.caps.push(c);
            }
        }
        self.traces_validated += o.traces_validated;
        for s in o.samples {
            self.sample(s);
        }
        for v in o.violations {
            self.violation_ranked(v.key, v.desc, v.replay, v.rank);
        }
        for (k, v) in o.notes {
            match (self.notes.get(&k).and_then(|x| x.as_u64()), v.as_u64()) {
                (Some(a), Some(b)) => {
                    self.notes.insert(k, Value::from(a + b));
                }
                _ => {
                    self.notes.entry(k).or_insert(v);
                }
            }
        }
        if self.bound.is_empty() {
            self.bound = o.bound;
        }
        if self.rule.is_empty() {
            self.rule = o.rule;
        }
    }
    pub fn write(&self, path: &str) {
        std::fs::write(path, serde_json::to_vec_pretty(self).unwrap()).unwrap_or_else(|e| {
            eprintln!("cannot write {path}: {e}");
            std::process::exit(2)
        });
    }
}

#[derive(Clone, Debug)]
pub struct Args {
    pub subcheck: String,
    pub tier: String,
    pub seed: u64,
    pub out: Option<String>,
    pub worker: Option<(usize, usize)>,
    pub replay: Option<String>,
    pub jobs: usize,
    /// run exactly this case index in-process (replay of a worker crash)
    pub only_case: Option<usize>,
    /// worker continuation after a re-exec (memory cap): first case index still to run, part number
    pub resume_from: usize,
    pub part: usize,
    pub rest: Vec<String>,
}
impl Args {
    pub fn thorough(&self) -> bool {
        self.tier == "thorough"
    }
}

pub fn parse_args() -> Args {
    let mut a = Args { subcheck: String::new(), tier: "quick".into(), seed: 0, out: None, worker: None, replay: None, jobs: 0, only_case: None, resume_from: 0, part: 0, rest: vec![] };
    let mut it = std::env::args().skip(1);
    while let Some(x) = it.next() {
        match x.as_str() {
            "--tier" => a.tier = it.next().unwrap(),
            "--seed" => a.seed = it.next().unwrap().parse().unwrap_or(0),
            "--out" => a.out = it.next(),
            "--replay" => a.replay = it.next(),
            "--jobs" => a.jobs = it.next().unwrap().parse().unwrap(),
            "--only-case" => a.only_case = it.next().and_then(|x| x.parse().ok()),
            "--resume-from" => a.resume_from = it.next().and_then(|x| x.parse().ok()).unwrap_or(0),
            "--part" => a.part = it.next().and_then(|x| x.parse().ok()).unwrap_or(0),
            "--worker" => {
                let w = it.next().unwrap();
                let (k, n) = w.split_once('/').unwrap();
                a.worker = Some((k.parse().unwrap(), n.parse().unwrap()));
            }
            _ if a.subcheck.is_empty() && !x.starts_with("--") => a.subcheck = x,
            _ => a.rest.push(x),
        }
    }
    if a.jobs == 0 {
        a.jobs = std::env::var("VERIF_JOBS").ok().and_then(|s| s.parse().ok()).unwrap_or_else(|| std::thread::available_parallelism().map(|n| n.get()).unwrap_or(4).min(16));
    }
    a
}

/// Run `total` independent cases, partitioned over worker *processes* (re-invocations of the
/// current executable with `--worker k/n`).  In a worker (or with a single job), `case(idx, &mut res)`
/// is called for each owned index.  Returns the merged result in the parent, and exits the
/// process after writing the partial result in a worker.
pub fn run_cases(args: &Args, mut res: SubResult, total: usize, timeout: Duration, mut case: impl FnMut(usize, &mut SubResult)) -> SubResult {
    let t0 = Instant::now();
    if let Some(idx) = args.only_case {
        res.cur_rank = idx as u64;
        case(idx, &mut res);
        res.wall_s = t0.elapsed().as_secs_f64();
        return res;
    }
    if let Some((k, n)) = args.worker {
        pin_to_cpu(k);
        let marker = format!("{}.cur", args.out.as_deref().unwrap_or("worker"));
        let out = args.out.as_deref().expect("--out required for workers");
        let cap = worker_rss_cap();
        let mine: Vec<usize> = (0..total).filter(|i| i % n == k && *i >= args.resume_from).collect();
        for (pos, idx) in mine.iter().copied().enumerate() {
            res.cur_rank = idx as u64;
            // which case is running, should the subject take the whole process down (UB, abort, stack overflow)
            let _ = std::fs::write(&marker, idx.to_string());
            case(idx, &mut res);
            // Memory cap: a worker runs up to millions of executions of the real code in one process;
            // what those leave behind (leaked `'static` caches, retired threads, deduplication tables) adds
            // up -- 16 workers of 4 GB each once exhausted the machine and the OOM killer's victims were
            // read as results.  Above the cap the worker writes what it has as a *part* and continues in a
            // fresh process image from the next case; the parent merges all parts.
            if pos + 1 < mine.len() && current_rss() > cap {
                res.wall_s = t0.elapsed().as_secs_f64();
                res.write(&format!("{out}.part{}", args.part));
                use std::os::unix::process::CommandExt;
                let mut argv: Vec<String> = vec![];
                let mut it = std::env::args().skip(1);
                while let Some(a) = it.next() {
                    if a == "--resume-from" || a == "--part" {
                        it.next();
                        continue;
                    }
                    argv.push(a);
                }
                let e = std::process::Command::new(std::env::current_exe().unwrap()).args(&argv).arg("--resume-from").arg((idx + 1).to_string()).arg("--part").arg((args.part + 1).to_string()).exec();
                eprintln!("MACHINERY: re-exec of a worker failed: {e}");
                std::process::exit(2);
            }
        }
        res.wall_s = t0.elapsed().as_secs_f64();
        res.write(out);
        std::process::exit(0);
    }
    let n = args.jobs.min(total).max(1);
    if n == 1 {
        for idx in 0..total {
            res.cur_rank = idx as u64;
            case(idx, &mut res);
        }
        res.wall_s = t0.elapsed().as_secs_f64();
        return res;
    }
    let exe = std::env::current_exe().unwrap();
    let dir = std::env::temp_dir().join(format!("vmc-{}-{}", std::process::id(), args.subcheck));
    let _ = std::fs::remove_dir_all(&dir); // left over by an earlier process with the same id
    let _ = std::fs::create_dir_all(&dir);
    let mut kids = vec![];
    for k in 0..n {
        let out = dir.join(format!("w{k}.json"));
        let mut cmd = std::process::Command::new(&exe);
        cmd.arg(&args.subcheck).arg("--tier").arg(&args.tier).arg("--seed").arg(args.seed.to_string()).arg("--worker").arg(format!("{k}/{n}")).arg("--out").arg(&out);
        for r in &args.rest {
            cmd.arg(r);
        }
        // the worker's stderr is kept: how a worker died decides between "the code under test crashed"
        // and "the harness process ran out of a resource"
        if let Ok(f) = std::fs::File::create(dir.join(format!("w{k}.err"))) {
            cmd.stderr(f);
        }
        let child = cmd.spawn().unwrap_or_else(|e| {
            eprintln!("spawn worker: {e}");
            std::process::exit(2)
        });
        kids.push((child, out));
    }
    let pids: Vec<u32> = kids.iter().map(|(c, _)| c.id()).collect();
    for (mut child, out) in kids {
        let status = loop {
            match child.try_wait() {
                Ok(Some(s)) => break s,
                Ok(None) => {
                    // the time limit is a budget of CPU time per worker (a starved pool on a loaded machine
                    // is not a stuck pool); wall-clock time ends the wait only after six times the budget
                    let over = t0.elapsed() > timeout && {
                        let cpu: Duration = pids.iter().filter_map(|p| proc_cpu(*p)).sum();
                        cpu > timeout * (pids.len() as u32) / 2 || t0.elapsed() > timeout * 6
                    };
                    if over {
                        let _ = child.kill();
                        for p in &pids {
                            unsafe {
                                libc::kill(*p as i32, libc::SIGKILL);
                            }
                        }
                        eprintln!("MACHINERY: worker of {} timed out after {:?}", args.subcheck, timeout);
                        std::process::exit(2);
                    }
                    std::thread::sleep(Duration::from_millis(20));
                }
                Err(e) => {
                    eprintln!("wait: {e}");
                    std::process::exit(2)
                }
            }
        };
        if !status.success() {
            use std::os::unix::process::ExitStatusExt;
            let err_txt = std::fs::read_to_string(out.with_extension("err")).unwrap_or_default();
            let tail: String = err_txt.chars().rev().take(3000).collect::<Vec<_>>().into_iter().rev().collect();
            if !tail.trim().is_empty() {
                eprintln!("{tail}");
            }
            if status.signal().is_some() && ["failed to initiate panic", "failed to spawn thread", "Cannot allocate memory", "Resource temporarily unavailable", "failed to allocate an alternative stack"].iter().any(|m| tail.contains(m)) {
                // the exploring process itself ran out of threads / memory (e.g. threads of torn-down
                // executions that could not be reaped): a failure of the machinery, not an observation
                eprintln!("MACHINERY: a worker of {} died of resource exhaustion in the harness process", args.subcheck);
                std::process::exit(2);
            }
            if status.signal() == Some(libc::SIGKILL) {
                // nothing in the process sends itself SIGKILL: the kernel's out-of-memory killer or an outer
                // time limit did.  That says nothing about the code under test.
                eprintln!("MACHINERY: a worker of {} was killed from outside (SIGKILL: out-of-memory killer or an outer limit)", args.subcheck);
                std::process::exit(2);
            }
            if let Some(sig) = status.signal() {
                // the subject killed the worker (segfault / abort): that is an observation about the
                // code under test, reported as a violation of the case that was running; the cases
                // this worker had not reached yet are reported as not covered
                let cur: Option<usize> = std::fs::read_to_string(format!("{}.cur", out.display())).ok().and_then(|x| x.trim().parse().ok());
                res.violation_ranked(
                    format!("{}:crash[signal{sig}]", args.subcheck),
                    format!("a worker process died with signal {sig} while running case {cur:?} of {}", args.subcheck),
                    serde_json::json!({"engine": "?", "harness": "worker-crash", "subcheck": args.subcheck, "tier": args.tier, "seed": args.seed, "case": cur}),
                    cur.unwrap_or(0) as u64,
                );
                res.cap(format!("worker died with signal {sig}: its remaining cases were not run"));
                res.evaluations += 1;
                continue;
            }
            eprintln!("MACHINERY: worker of {} exited with {status}", args.subcheck);
            std::process::exit(2);
        }
        let txt = std::fs::read(&out).unwrap_or_else(|e| {
            eprintln!("MACHINERY: worker output missing: {e}");
            std::process::exit(2)
        });
        let part: SubResult = serde_json::from_slice(&txt).unwrap();
        res.merge(part);
        // parts written by a worker that continued in a fresh process image (memory cap)
        for j in 0.. {
            let Ok(txt) = std::fs::read(format!("{}.part{j}", out.display())) else { break };
            let Ok(part) = serde_json::from_slice::<SubResult>(&txt) else {
                eprintln!("MACHINERY: unreadable worker part {j} of {}", out.display());
                std::process::exit(2)
            };
            res.merge(part);
        }
    }
    let _ = std::fs::remove_dir_all(&dir);
    res.wall_s = t0.elapsed().as_secs_f64();
    res
}

/// resident set size of this process in bytes (0 if unknown)
pub fn current_rss() -> u64 {
    let Ok(t) = std::fs::read_to_string("/proc/self/statm") else { return 0 };
    let pages: u64 = t.split_whitespace().nth(1).and_then(|x| x.parse().ok()).unwrap_or(0);
    pages * (unsafe { libc::sysconf(libc::_SC_PAGESIZE) }.max(1) as u64)
}
/// memory cap per worker process (`VERIF_WORKER_RSS_MB`, default 1024 MiB), see `run_cases`
pub fn worker_rss_cap() -> u64 {
    std::env::var("VERIF_WORKER_RSS_MB").ok().and_then(|s| s.parse::<u64>().ok()).unwrap_or(1024) * 1024 * 1024
}

/// CPU time (user + system, children included) consumed so far by process `pid`, from /proc.
pub fn proc_cpu(pid: u32) -> Option<Duration> {
    let stat = std::fs::read_to_string(format!("/proc/{pid}/stat")).ok()?;
    let rest = stat.rsplit(')').next()?;
    let f: Vec<&str> = rest.split_whitespace().collect();
    // after the command name: state(0) ppid(1) ... utime(11) stime(12) cutime(13) cstime(14)
    let ticks: u64 = [11, 12, 13, 14].iter().filter_map(|i| f.get(*i).and_then(|x| x.parse::<u64>().ok())).sum();
    let hz = unsafe { libc::sysconf(libc::_SC_CLK_TCK) }.max(1) as u64;
    Some(Duration::from_millis(ticks * 1000 / hz))
}

/// Run a closure in a child process (re-invocation with `--child <tag>`); used for crash shapes.
/// `timeout` is a budget of CPU time: a child that has not finished after consuming that much is
/// reported as hanging.  Wall-clock time alone would call a starved child (a loaded machine) hung;
/// it only ends the wait after eight times the budget.  (A child that blocks without using the CPU
/// is ended by its own scheduler's watchdog long before that.)
pub fn child_status(args: &[String], timeout: Duration) -> Result<std::process::ExitStatus, String> {
    let exe = std::env::current_exe().unwrap();
    let mut child = std::process::Command::new(exe).args(args).stdout(std::process::Stdio::null()).stderr(std::process::Stdio::null()).spawn().map_err(|e| e.to_string())?;
    let t0 = Instant::now();
    loop {
        match child.try_wait() {
            Ok(Some(s)) => return Ok(s),
            Ok(None) => {
                if t0.elapsed() > timeout {
                    let cpu = proc_cpu(child.id()).unwrap_or(t0.elapsed());
                    if cpu > timeout || t0.elapsed() > timeout * 8 {
                        let _ = child.kill();
                        let _ = child.wait();
                        return Err("timeout".into());
                    }
                }
                std::thread::sleep(Duration::from_millis(5));
            }
            Err(e) => return Err(e.to_string()),
        }
    }
}

/// Pin the current process to one CPU (worker k -> k-th allowed CPU).  A detsched process runs one
/// thread at a time, so keeping the token-passing threads on one core avoids cross-core wake-up
/// latency (measured: 3-4x more executions per second); it also fixes `available_parallelism()`
/// to 1, i.e. 4 shards in `AssetMap`.
pub fn pin_to_cpu(k: usize) {
    unsafe {
        let mut cur: libc::cpu_set_t = std::mem::zeroed();
        if libc::sched_getaffinity(0, std::mem::size_of::<libc::cpu_set_t>(), &mut cur) != 0 {
            return;
        }
        let allowed: Vec<usize> = (0..libc::CPU_SETSIZE as usize).filter(|c| libc::CPU_ISSET(*c, &cur)).collect();
        if allowed.is_empty() {
            return;
        }
        let cpu = allowed[k % allowed.len()];
        let mut set: libc::cpu_set_t = std::mem::zeroed();
        libc::CPU_SET(cpu, &mut set);
        libc::sched_setaffinity(0, std::mem::size_of::<libc::cpu_set_t>(), &set);
    }
}
