//! C16 (sequential part): `SharedBytes` / `SharedString` as immutable shared buffers.
//!
//! Reference (from the property text): a `SharedBytes` dereferences to exactly the bytes it was
//! built from, through every clone, for as long as any clone lives; clones alias; the buffer is
//! released exactly once after the last drop, with the layout it was allocated with (observed
//! through the allocator ledger of `alloc.rs`); both types compare, order and hash like the slices
//! they hold (`Borrow` contract); `SharedString::from_utf8` and deserialisation accept exactly the
//! valid UTF-8 inputs.
use crate::alloc::{scope_begin, scope_end, Report};
use crate::{Ctx, Plan};
use assets_manager::{SharedBytes, SharedString};
use serde::de::value::{BorrowedBytesDeserializer, BorrowedStrDeserializer, BytesDeserializer, Error as DeError, StrDeserializer, StringDeserializer};
use serde::Deserialize;
use serde_json::{json, Value};
use std::borrow::Cow;
use std::collections::{BTreeSet, HashSet};
use std::hash::{Hash, Hasher};
use vcommon::Args;

// ---------------------------------------------------------------------------------------------
// memory cases

const CTORS: [&str; 16] = [
    "from_slice",
    "from_vec-exact",
    "from_vec-excess",
    "from_vec-Vec::new+extend",
    "From<Box<[u8]>>",
    "From<Cow::Borrowed>",
    "From<Cow::Owned>",
    "FromIterator-exact",
    "From<&SharedBytes>",
    "From<&[u8]>",
    "From<Vec<u8>>",
    "FromIterator-unsized",
    "FromIterator-exact-hint-too-small",
    "FromIterator-exact-hint-too-large",
    "FromIterator-lower-bound-too-large",
    "FromIterator-upper-bound-zero",
];

/// an iterator whose `size_hint` is not what it yields: `size_hint` is advisory ("a buggy iterator may
/// yield less than the lower bound or more than the upper bound"), so the buffer must still hold
/// exactly the bytes that were yielded
struct Hinted<I> {
    it: I,
    lo: usize,
    hi: Option<usize>,
}
impl<I: Iterator<Item = u8>> Iterator for Hinted<I> {
    type Item = u8;
    fn next(&mut self) -> Option<u8> {
        self.it.next()
    }
    fn size_hint(&self) -> (usize, Option<usize>) {
        (self.lo, self.hi)
    }
}

fn pattern(len: usize) -> Vec<u8> {
    // contains 0x00 and 0xff, not periodic with a small period
    (0..len).map(|i| ((i * 31 + 7) ^ (i >> 8) ^ if i % 5 == 0 { 0xff } else { 0 }) as u8).collect()
}

/// initial handles (1, or 2 for From<&SharedBytes>)
fn construct(ctor: usize, src: &[u8]) -> Vec<SharedBytes> {
    match ctor {
        0 => vec![SharedBytes::from_slice(src)],
        1 => {
            let mut v = Vec::with_capacity(src.len());
            v.extend_from_slice(src);
            vec![SharedBytes::from_vec(v)]
        }
        2 => {
            let mut v = Vec::with_capacity(src.len() + 17);
            v.extend_from_slice(src);
            vec![SharedBytes::from_vec(v)]
        }
        3 => {
            let mut v = Vec::new();
            for &b in src {
                v.push(b);
            }
            vec![SharedBytes::from_vec(v)]
        }
        4 => vec![SharedBytes::from(src.to_vec().into_boxed_slice())],
        5 => vec![SharedBytes::from(Cow::Borrowed(src))],
        6 => {
            let mut v = Vec::with_capacity(src.len() + 3);
            v.extend_from_slice(src);
            vec![SharedBytes::from(Cow::<[u8]>::Owned(v))]
        }
        7 => vec![src.iter().copied().collect::<SharedBytes>()],
        8 => {
            let base = SharedBytes::from_slice(src);
            let second = SharedBytes::from(&base);
            vec![base, second]
        }
        9 => vec![SharedBytes::from(src)],
        10 => vec![SharedBytes::from(src.to_vec())],
        11 => vec![src.iter().copied().filter(|_| true).collect::<SharedBytes>()],
        12 => {
            let n = src.len() / 2;
            vec![Hinted { it: src.iter().copied(), lo: n, hi: Some(n) }.collect::<SharedBytes>()]
        }
        13 => {
            let n = src.len() + 3;
            vec![Hinted { it: src.iter().copied(), lo: n, hi: Some(n) }.collect::<SharedBytes>()]
        }
        14 => vec![Hinted { it: src.iter().copied(), lo: src.len() + 5, hi: None }.collect::<SharedBytes>()],
        _ => vec![Hinted { it: src.iter().copied(), lo: 0, hi: Some(0) }.collect::<SharedBytes>()],
    }
}

fn perms(m: usize) -> Vec<Vec<usize>> {
    fn go(cur: &mut Vec<usize>, used: &mut Vec<bool>, m: usize, out: &mut Vec<Vec<usize>>) {
        if cur.len() == m {
            out.push(cur.clone());
            return;
        }
        for i in 0..m {
            if !used[i] {
                used[i] = true;
                cur.push(i);
                go(cur, used, m, out);
                cur.pop();
                used[i] = false;
            }
        }
    }
    let mut out = vec![];
    go(&mut vec![], &mut vec![false; m], m, &mut out);
    out
}

#[derive(Clone, Debug)]
struct MemCase {
    len: usize,
    ctor: usize,
    handles: usize,
    order: Vec<usize>,
    clone_of_last: bool,
    last_drop_on_thread: bool,
}
impl MemCase {
    fn short(&self) -> String {
        format!(
            "mem len={} {} handles={} drop={} clone-of-{}{}",
            self.len,
            CTORS[self.ctor],
            self.handles,
            self.order.iter().map(|x| x.to_string()).collect::<Vec<_>>().join(""),
            if self.clone_of_last { "last" } else { "first" },
            if self.last_drop_on_thread { " last-drop-on-thread" } else { "" }
        )
    }
    fn json(&self) -> Value {
        json!({"what": "mem", "len": self.len, "ctor": self.ctor, "handles": self.handles, "order": self.order, "clone_of_last": self.clone_of_last, "thread": self.last_drop_on_thread})
    }
}

/// Runs one memory case inside a ledger scope. Nothing in here may keep an allocation past the
/// scope, so failures are recorded as codes and formatted afterwards.
fn mem_case_raw(c: &MemCase, src: &[u8]) -> ([(u8, u8); 4], usize, Report) {
    let mut fails = [(0u8, 0u8); 4];
    let mut nf = 0usize;
    let sc = scope_begin();
    {
        let mut hs: Vec<Option<SharedBytes>> = construct(c.ctor, src).into_iter().map(Some).collect();
        hs.reserve(4);
        while hs.len() < c.handles {
            let from = if c.clone_of_last { hs.len() - 1 } else { 0 };
            let cl = hs[from].as_ref().unwrap().clone();
            hs.push(Some(cl));
        }
        let mut check = |hs: &Vec<Option<SharedBytes>>, step: u8| {
            let mut first: Option<*const u8> = None;
            for h in hs.iter().flatten() {
                let s: &[u8] = h;
                let code = if s.len() != src.len() {
                    3
                } else if s != src {
                    1
                } else if *first.get_or_insert(s.as_ptr()) != s.as_ptr() {
                    2
                } else {
                    0
                };
                if code != 0 && nf < 4 {
                    fails[nf] = (code, step);
                    nf += 1;
                }
            }
        };
        check(&hs, 0);
        for (j, &i) in c.order.iter().enumerate() {
            let h = hs[i].take();
            if c.last_drop_on_thread && j + 1 == c.order.len() {
                let _ = std::thread::spawn(move || drop(h)).join();
            } else {
                drop(h);
            }
            check(&hs, j as u8 + 1);
        }
        drop(hs);
    }
    let rep = scope_end(sc);
    (fails, nf, rep)
}

fn judge_report(rep: &Report, prefix: &str, out: &mut Vec<(&'static str, String)>) {
    if rep.mismatched > 0 {
        let e = rep.events.iter().find(|e| e.kind == 1 || e.kind == 4);
        out.push(("mem_layout_mismatch", format!("{prefix}: a block was freed with a layout different from its allocation: {}", e.map_or(String::new(), |e| format!("freed as (size {}, align {}), allocated as (size {}, align {})", e.got.0, e.got.1, e.recorded.0, e.recorded.1)))));
    }
    if rep.double_free > 0 {
        out.push(("mem_double_free", format!("{prefix}: a block was freed twice ({} times)", rep.double_free)));
    }
    if rep.unknown_free > 0 {
        out.push(("mem_unknown_free", format!("{prefix}: a pointer that is not a live heap block was freed ({} times)", rep.unknown_free)));
    }
    if rep.leaked != 0 {
        out.push(("mem_leak", format!("{prefix}: {} block(s) allocated by the case are still live after the last drop (size, align): {:?}", rep.leaked, rep.leaked_layouts)));
    }
}

fn run_mem_case(c: &MemCase, src: &[u8], ctx: &mut Ctx) {
    let short = c.short();
    ctx.progress(&short);
    let (fails, nf, rep) = mem_case_raw(c, src);
    ctx.res.evaluations += 1;
    ctx.res.traces_validated += 1;
    ctx.res.transitions += (c.handles + c.order.len()) as u64;
    ctx.res.states += c.order.len() as u64 + 1;
    let mut v: Vec<(&'static str, String)> = vec![];
    for &(code, step) in &fails[..nf.min(4)] {
        let at = if step == 0 { "after construction".to_string() } else { format!("after drop #{step}") };
        match code {
            1 => v.push(("mem_content", format!("{short}: {at}: a live handle no longer dereferences to the source bytes"))),
            3 => v.push(("mem_content", format!("{short}: {at}: a live handle has a different length than the source"))),
            _ => v.push(("mem_alias", format!("{short}: {at}: two live clones do not share the same data pointer"))),
        }
    }
    judge_report(&rep, &short, &mut v);
    if ctx.verbose {
        println!("case {short}: content/alias failures {:?}, ledger {rep:?}", &fails[..nf.min(4)]);
    }
    let mut seen: Vec<&str> = vec![];
    for (k, d) in v {
        if !seen.contains(&k) {
            seen.push(k);
            ctx.violation(k, &short, d, c.json());
        }
    }
}

fn mem_unit(len: usize, ctor: usize, ctx: &mut Ctx) {
    let src = pattern(len);
    let init = if ctor == 8 { 2 } else { 1 };
    let mut inner = 0u64;
    for handles in init..=4 {
        for clone_of_last in [false, true] {
            if clone_of_last && handles - init < 2 {
                continue; // identical to clone-of-first
            }
            for order in perms(handles) {
                for thread in [false, true] {
                    ctx.inner = inner;
                    inner += 1;
                    let c = MemCase { len, ctor, handles, order: order.clone(), clone_of_last, last_drop_on_thread: thread };
                    run_mem_case(&c, &src, ctx);
                }
            }
        }
    }
    ctx.res.outcome(&("mem", len, ctor));
}

/// SharedString conversions inside a ledger scope
fn str_mem_unit(ctx: &mut Ctx) {
    let strings: Vec<String> = vec!["".into(), "a".into(), "héllo wörld €".into(), "x".repeat(100), "\u{10ffff}\0".into(), "€".repeat(30000)];
    let mut inner = 0;
    for s in &strings {
        for conv in 0..7u8 {
            for order in 0..2u8 {
                ctx.inner = inner;
                inner += 1;
                let short = format!("strmem len={} conv={conv} order={order}", s.len());
                ctx.progress(&short);
                let mut bad = 0u8;
                let sc = scope_begin();
                {
                    let ss: SharedString = match conv {
                        0 => SharedString::from(s.as_str()),
                        1 => SharedString::from(s.clone()),
                        2 => {
                            let mut t = String::with_capacity(s.len() + 33);
                            t.push_str(s);
                            SharedString::from(t)
                        }
                        3 => SharedString::from(Cow::Borrowed(s.as_str())),
                        4 => SharedString::from(Cow::<str>::Owned(s.clone())),
                        5 => SharedString::from_utf8(SharedBytes::from_slice(s.as_bytes())).unwrap(),
                        _ => {
                            let mut v = Vec::with_capacity(s.len() + 9);
                            v.extend_from_slice(s.as_bytes());
                            SharedString::from_utf8(SharedBytes::from_vec(v)).unwrap()
                        }
                    };
                    let cl = ss.clone();
                    if &*ss != s.as_str() || cl.as_str() != s.as_str() || ss.as_ptr() != cl.as_ptr() {
                        bad |= 1;
                    }
                    if ss.to_string() != *s {
                        bad |= 2;
                    }
                    if order == 0 {
                        drop(ss);
                        let b = cl.into_bytes();
                        if &*b != s.as_bytes() {
                            bad |= 4;
                        }
                    } else {
                        let b = ss.into_bytes();
                        drop(b);
                        if &*cl != s.as_str() {
                            bad |= 4;
                        }
                    }
                }
                let rep = scope_end(sc);
                ctx.res.evaluations += 1;
                ctx.res.transitions += 5;
                let case = json!({"what": "strmem"});
                let mut v = vec![];
                if bad != 0 {
                    v.push(("string_content", format!("{short}: SharedString conversion does not preserve the content (flags {bad:#b})")));
                }
                judge_report(&rep, &short, &mut v);
                for (k, d) in v {
                    ctx.violation(k, &short, d, case.clone());
                }
            }
        }
    }
    // invalid input rejected by from_utf8 must release the buffer too
    for (n, bytes) in [vec![0xffu8], vec![b'a', 0xe2, 0x82], vec![0xed, 0xa0, 0x80]].into_iter().enumerate() {
        for vec_path in [false, true] {
            ctx.inner = inner;
            inner += 1;
            let short = format!("strmem invalid#{n} {}", if vec_path { "from_vec" } else { "from_slice" });
            ctx.progress(&short);
            let sc = scope_begin();
            let accepted = {
                let b = if vec_path { SharedBytes::from_vec(bytes.clone()) } else { SharedBytes::from_slice(&bytes) };
                SharedString::from_utf8(b).is_ok()
            };
            let rep = scope_end(sc);
            ctx.res.evaluations += 1;
            let mut v = vec![];
            if accepted {
                v.push(("from_utf8_accepts_invalid", format!("{short}: SharedString::from_utf8 accepted {bytes:02x?}")));
            }
            judge_report(&rep, &short, &mut v);
            for (k, d) in v {
                ctx.violation(k, &short, d, json!({"what": "strmem"}));
            }
        }
    }
}

// ---------------------------------------------------------------------------------------------
// comparison / hashing

fn byte_set() -> Vec<Vec<u8>> {
    let full: Vec<u8> = (0..=255u8).collect();
    let mut full_mod = full.clone();
    full_mod[255] = 0xfe;
    let mut v: Vec<Vec<u8>> = vec![
        vec![],
        vec![0],
        vec![0, 0],
        vec![0xff],
        vec![0xff, 0xff],
        vec![0, 0xff],
        vec![0xff, 0],
        b"a".to_vec(),
        b"aa".to_vec(),
        b"ab".to_vec(),
        b"abc".to_vec(),
        b"abd".to_vec(),
        b"b".to_vec(),
        vec![0x61, 0],
        vec![0x7f],
        vec![0x80],
        vec![0x7f, 0x80],
        vec![0x80, 0x7f],
        vec![1],
        vec![1, 2, 3],
        vec![1, 2, 3, 4],
        vec![1, 2, 4],
        vec![1, 2],
        full.clone(),
        full[..255].to_vec(),
        full_mod,
        vec![0; 4096],
        vec![0; 4095],
        vec![0xff; 4096],
        {
            let mut z = vec![0; 4096];
            z[4095] = 1;
            z
        },
        {
            let mut z = vec![0; 4096];
            z[0] = 1;
            z
        },
        b"\xe2\x82\xac".to_vec(),
        b"\xe2\x82".to_vec(),
        b"\xe2".to_vec(),
        vec![8, 0, 0, 0, 0, 0, 0, 0],
        vec![1, 0, 0, 0, 0, 0, 0, 0, 0],
        vec![0; 8],
        vec![0; 9],
        vec![2, 0, 0, 0, 0, 0, 0, 0, 0x61, 0x62],
        pattern(70000),
    ];
    v.truncate(40);
    assert_eq!(v.len(), 40);
    v
}

fn str_set() -> Vec<String> {
    let v: Vec<String> = vec![
        "", "\0", "\0\0", "a", "aa", "ab", "abc", "abd", "b", "A", "a\0", "\u{7f}", "\u{80}", "\u{7f}\u{80}", "\u{7ff}", "\u{800}", "\u{ffff}", "\u{10000}", "\u{10ffff}", "é", "e\u{301}", "€", "€€", "€a", "a€", "é€", "日本", "日本語", "日", "z", "zz", "zzz", " ", "  ", " a", "a ", "\n", "\r\n", "\t", "0",
    ]
    .into_iter()
    .map(String::from)
    .collect();
    assert_eq!(v.len(), 40);
    v
}

fn sip<T: Hash + ?Sized>(t: &T) -> u64 {
    let mut h = std::collections::hash_map::DefaultHasher::new();
    t.hash(&mut h);
    h.finish()
}
/// A hasher that keeps the exact stream of bytes it is fed (with call boundaries): two values that
/// must hash alike for *every* hasher must produce the same stream.
#[derive(Default)]
struct Stream(Vec<u8>);
impl Hasher for Stream {
    fn finish(&self) -> u64 {
        0
    }
    fn write(&mut self, bytes: &[u8]) {
        self.0.extend_from_slice(&(bytes.len() as u32).to_le_bytes());
        self.0.extend_from_slice(bytes);
    }
}
fn stream<T: Hash + ?Sized>(t: &T) -> Vec<u8> {
    let mut h = Stream::default();
    t.hash(&mut h);
    h.0
}

fn mk_bytes(i: usize, b: &[u8]) -> SharedBytes {
    match i % 3 {
        0 => SharedBytes::from_slice(b),
        1 => {
            let mut v = Vec::with_capacity(b.len() + 5);
            v.extend_from_slice(b);
            SharedBytes::from_vec(v)
        }
        _ => SharedBytes::from_slice(b).clone(),
    }
}

fn cmp_bytes_unit(ctx: &mut Ctx) {
    let set = byte_set();
    let mut inner = 0;
    let hset: HashSet<SharedBytes> = set.iter().enumerate().map(|(i, b)| mk_bytes(i, b)).collect();
    let bset: BTreeSet<SharedBytes> = set.iter().enumerate().map(|(i, b)| mk_bytes(i + 1, b)).collect();
    let mut sorted = set.clone();
    sorted.sort();
    sorted.dedup();
    let case = json!({"what": "cmp_bytes"});
    if bset.iter().map(|s| s.to_vec()).collect::<Vec<_>>() != sorted {
        ctx.violation("ord", "cmp_bytes btreeset-order", "a BTreeSet<SharedBytes> does not iterate in the order of the byte slices".into(), case.clone());
    }
    for (i, a) in set.iter().enumerate() {
        ctx.inner = inner;
        inner += 1;
        let short = format!("cmp_bytes lookup #{i} len={}", a.len());
        if !hset.contains(&a[..]) {
            ctx.violation("hashset_lookup", &short, format!("{short}: HashSet<SharedBytes>::contains(&[u8]) does not find a member (Borrow<[u8]> contract)"), case.clone());
        }
        if !bset.contains(&a[..]) {
            ctx.violation("ord", &short, format!("{short}: BTreeSet<SharedBytes>::contains(&[u8]) does not find a member"), case.clone());
        }
        let mut other = a.clone();
        other.push(9);
        if hset.contains(&other[..]) || bset.contains(&other[..]) {
            ctx.violation("hashset_lookup", &short, format!("{short}: a set of SharedBytes claims to contain a slice that is not a member"), case.clone());
        }
        let sa = mk_bytes(i, a);
        if sip(&sa) != sip(&a[..]) || stream(&sa) != stream(&a[..]) {
            ctx.violation("hash", &short, format!("{short}: Hash of SharedBytes differs from Hash of the [u8] it holds (hash stream {:02x?} vs {:02x?})", &stream(&sa)[..stream(&sa).len().min(24)], &stream(&a[..])[..stream(&a[..]).len().min(24)]), case.clone());
        }
        ctx.res.evaluations += 1;
    }
    for (i, a) in set.iter().enumerate() {
        for (j, b) in set.iter().enumerate() {
            ctx.inner = inner;
            inner += 1;
            let short = format!("cmp_bytes pair #{i},#{j}");
            let sa = mk_bytes(i, a);
            let sb = mk_bytes(j + 1, b);
            let want_eq = a == b;
            let want_ord = a.cmp(b);
            let bs: &[u8] = b;
            let eqs = [sa == *bs, sa == bs, sa == *b, sa == sb, !(sa != sb), !(sa != *bs)];
            if eqs.iter().any(|&e| e != want_eq) {
                ctx.violation("eq", &short, format!("{short}: == against [u8], &[u8], Vec<u8>, SharedBytes gives {eqs:?}, the slices compare {want_eq}"), case.clone());
            }
            let ords = [sa.partial_cmp(bs), sa.partial_cmp(&sb), Some(sa.cmp(&sb))];
            if ords.iter().any(|&o| o != Some(want_ord)) || (sa < sb) != (a < b) || (sa >= sb) != (a >= b) {
                ctx.violation("ord", &short, format!("{short}: partial_cmp([u8]), partial_cmp(Self), cmp give {ords:?}, the slices compare {want_ord:?}"), case.clone());
            }
            if want_eq && sip(&sa) != sip(&sb) {
                ctx.violation("hash", &short, format!("{short}: equal SharedBytes hash differently"), case.clone());
            }
            ctx.res.evaluations += 1;
            ctx.res.transitions += 10;
            ctx.res.outcome(&("cmpb", want_eq, want_ord as i8, a.len().min(3), b.len().min(3)));
        }
    }
}

fn cmp_str_unit(ctx: &mut Ctx) {
    let set = str_set();
    let mk = |i: usize, s: &str| -> SharedString {
        match i % 4 {
            0 => SharedString::from(s),
            1 => SharedString::from(String::from(s)),
            2 => SharedString::from_utf8(SharedBytes::from_slice(s.as_bytes())).unwrap(),
            _ => SharedString::from(Cow::Borrowed(s)),
        }
    };
    let case = json!({"what": "cmp_str"});
    let hset: HashSet<SharedString> = set.iter().enumerate().map(|(i, s)| mk(i, s)).collect();
    let bset: BTreeSet<SharedString> = set.iter().enumerate().map(|(i, s)| mk(i + 1, s)).collect();
    let mut sorted = set.clone();
    sorted.sort();
    if bset.iter().map(|s| s.to_string()).collect::<Vec<_>>() != sorted {
        ctx.violation("str_ord", "cmp_str btreeset-order", "a BTreeSet<SharedString> does not iterate in str order".into(), case.clone());
    }
    let mut inner = 0;
    for (i, a) in set.iter().enumerate() {
        ctx.inner = inner;
        inner += 1;
        let short = format!("cmp_str single #{i} {a:?}");
        let sa = mk(i, a);
        if !hset.contains(a.as_str()) || !bset.contains(a.as_str()) || hset.contains(format!("{a}!").as_str()) {
            ctx.violation("str_hashset_lookup", &short, format!("{short}: set lookup by &str disagrees with membership (Borrow<str> contract)"), case.clone());
        }
        if sip(&sa) != sip(a.as_str()) || stream(&sa) != stream(a.as_str()) {
            ctx.violation("str_hash", &short, format!("{short}: Hash of SharedString differs from Hash of the str"), case.clone());
        }
        let as_bytes: &[u8] = sa.as_ref();
        let as_str: &str = sa.as_ref();
        if format!("{sa}") != *a || format!("{sa:?}") != format!("{a:?}") || sa.as_str() != a || sa.to_string() != *a || as_bytes != a.as_bytes() || as_str != a || &*sa.clone().into_bytes() != a.as_bytes() {
            ctx.violation("string_content", &short, format!("{short}: Display/Debug/as_str/to_string/as_ref/into_bytes do not show the source string"), case.clone());
        }
        ctx.res.evaluations += 1;
    }
    for (i, a) in set.iter().enumerate() {
        for (j, b) in set.iter().enumerate() {
            ctx.inner = inner;
            inner += 1;
            let short = format!("cmp_str pair #{i},#{j}");
            let sa = mk(i, a);
            let sb = mk(j + 1, b);
            let want_eq = a == b;
            let want_ord = a.cmp(b);
            let bs: &str = b;
            let eqs = [sa == *bs, sa == bs, sa == *b, sa == sb, !(sa != sb)];
            if eqs.iter().any(|&e| e != want_eq) {
                ctx.violation("str_eq", &short, format!("{short}: == against str, &str, String, SharedString gives {eqs:?}, the strs compare {want_eq}"), case.clone());
            }
            let ords = [sa.partial_cmp(bs), sa.partial_cmp(&sb), Some(sa.cmp(&sb))];
            if ords.iter().any(|&o| o != Some(want_ord)) {
                ctx.violation("str_ord", &short, format!("{short}: partial_cmp(str), partial_cmp(Self), cmp give {ords:?}, the strs compare {want_ord:?}"), case.clone());
            }
            if want_eq && sip(&sa) != sip(&sb) {
                ctx.violation("str_hash", &short, format!("{short}: equal SharedStrings hash differently"), case.clone());
            }
            ctx.res.evaluations += 1;
            ctx.res.transitions += 9;
            ctx.res.outcome(&("cmps", want_eq, want_ord as i8, a.len().min(3), b.len().min(3)));
        }
    }
}

// ---------------------------------------------------------------------------------------------
// exhaustive UTF-8 boundary strings

const ALPHABET: [u8; 16] = [0x00, 0x61, 0x7F, 0x80, 0xBF, 0xC2, 0xC3, 0xA9, 0xE2, 0x82, 0xAC, 0xED, 0xA0, 0xF0, 0x9F, 0xFF];

/// Deserializer that hands its bytes to `visit_byte_buf`.
struct ByteBufDe(Vec<u8>);
impl<'de> serde::Deserializer<'de> for ByteBufDe {
    type Error = DeError;
    fn deserialize_any<V: serde::de::Visitor<'de>>(self, v: V) -> Result<V::Value, DeError> {
        v.visit_byte_buf(self.0)
    }
    serde::forward_to_deserialize_any! {
        bool i8 i16 i32 i64 i128 u8 u16 u32 u64 u128 f32 f64 char str string bytes byte_buf option unit
        unit_struct newtype_struct seq tuple tuple_struct map struct enum identifier ignored_any
    }
}

const DE_PATHS: [&str; 3] = ["BytesDeserializer/visit_bytes", "BorrowedBytesDeserializer/visit_borrowed_bytes", "custom/visit_byte_buf"];

fn de_string(path: usize, s: &[u8]) -> Result<SharedString, DeError> {
    match path {
        0 => SharedString::deserialize(BytesDeserializer::<DeError>::new(s)),
        1 => SharedString::deserialize(BorrowedBytesDeserializer::<DeError>::new(s)),
        _ => SharedString::deserialize(ByteBufDe(s.to_vec())),
    }
}
fn de_bytes(path: usize, s: &[u8]) -> Result<SharedBytes, DeError> {
    match path {
        0 => SharedBytes::deserialize(BytesDeserializer::<DeError>::new(s)),
        1 => SharedBytes::deserialize(BorrowedBytesDeserializer::<DeError>::new(s)),
        _ => SharedBytes::deserialize(ByteBufDe(s.to_vec())),
    }
}

fn hex(s: &[u8]) -> String {
    s.iter().map(|b| format!("{b:02x}")).collect::<Vec<_>>().join("")
}

/// all checks on one byte string; returns (kind, description) list. Runs inside a ledger scope:
/// nothing it allocates may survive it, so results are bit flags.
fn utf8_one_raw(s: &[u8]) -> (u32, Report) {
    let mut f = 0u32;
    let sc = scope_begin();
    {
        let std_res = std::str::from_utf8(s);
        let valid = std_res.is_ok();
        for vec_path in [false, true] {
            let b = if vec_path {
                let mut v = Vec::with_capacity(s.len() + 1);
                v.extend_from_slice(s);
                SharedBytes::from_vec(v)
            } else {
                SharedBytes::from_slice(s)
            };
            match SharedString::from_utf8(b) {
                Ok(ss) => {
                    if !valid {
                        f |= 1; // accepted invalid: do not look at it as a str
                        let raw: &[u8] = ss.as_ref();
                        if raw != s {
                            f |= 1 << 12;
                        }
                    } else {
                        let want = std_res.unwrap();
                        let raw: &[u8] = ss.as_ref();
                        if &*ss != want || ss.as_str() != want || raw != s || ss.to_string() != want || ss.len() != s.len() {
                            f |= 4;
                        }
                        let cl = ss.clone();
                        if &*ss.into_bytes() != s || &*cl != want {
                            f |= 4;
                        }
                    }
                }
                Err(e) => {
                    if valid {
                        f |= 2;
                    } else if e.valid_up_to() != std_res.unwrap_err().valid_up_to() {
                        f |= 1 << 13;
                    }
                }
            }
        }
        for path in 0..3 {
            match de_string(path, s) {
                Ok(ss) => {
                    if !valid {
                        f |= 8 << path; // bits 3,4,5
                    } else if &*ss != std_res.unwrap() {
                        f |= 1 << 9;
                    }
                }
                Err(_) => {
                    if valid {
                        f |= 64 << path; // bits 6,7,8
                    }
                }
            }
            match de_bytes(path, s) {
                Ok(sb) => {
                    if &*sb != s {
                        f |= 1 << 10;
                    }
                }
                Err(_) => f |= 1 << 10,
            }
        }
        if let Ok(st) = std_res {
            let a = SharedString::deserialize(StrDeserializer::<DeError>::new(st));
            let b = SharedString::deserialize(StringDeserializer::<DeError>::new(st.to_string()));
            let c = SharedString::deserialize(BorrowedStrDeserializer::<DeError>::new(st));
            for r in [a, b, c] {
                if r.map_or(true, |ss| &*ss != st) {
                    f |= 1 << 9;
                }
            }
            let a = SharedBytes::deserialize(StrDeserializer::<DeError>::new(st));
            let b = SharedBytes::deserialize(StringDeserializer::<DeError>::new(st.to_string()));
            for r in [a, b] {
                if r.map_or(true, |sb| &*sb != s) {
                    f |= 1 << 10;
                }
            }
            let ss = SharedString::from(st);
            let js = serde_json::to_string(&ss).ok();
            if js != serde_json::to_string(st).ok() || js.as_deref().and_then(|j| serde_json::from_str::<SharedString>(j).ok()).map_or(true, |back| &*back != st) {
                f |= 1 << 11;
            }
            if &*SharedString::from(st.to_string()) != st || &*SharedString::from(Cow::Borrowed(st)) != st || &*SharedString::from(Cow::<str>::Owned(st.to_string())) != st {
                f |= 4;
            }
        }
        let sb = SharedBytes::from_slice(s);
        if serde_json::to_string(&sb).ok() != serde_json::to_string(&s.to_vec()).ok() {
            f |= 1 << 11;
        }
    }
    let rep = scope_end(sc);
    (f, rep)
}

fn utf8_one(s: &[u8], ctx: &mut Ctx) {
    let short = format!("utf8 {}", if s.is_empty() { "<empty>".to_string() } else { hex(s) });
    ctx.progress(&short);
    let (f, rep) = utf8_one_raw(s);
    let valid = std::str::from_utf8(s).is_ok();
    ctx.res.evaluations += 1;
    ctx.res.traces_validated += 1;
    ctx.res.transitions += 22;
    ctx.res.states += 1;
    if ctx.verbose {
        println!("case {short}: std valid={valid} flags={f:#b} ledger={rep:?}");
    }
    let mut v: Vec<(&'static str, String)> = vec![];
    if f & 1 != 0 {
        v.push(("from_utf8_accepts_invalid", format!("{short}: SharedString::from_utf8 accepts bytes that std::str::from_utf8 rejects")));
    }
    if f & 2 != 0 {
        v.push(("from_utf8_rejects_valid", format!("{short}: SharedString::from_utf8 rejects valid UTF-8")));
    }
    if f & (4 | 1 << 12) != 0 {
        v.push(("string_content", format!("{short}: a SharedString does not dereference to its source")));
    }
    if f & (1 << 13) != 0 {
        v.push(("from_utf8_error", format!("{short}: the Utf8Error of from_utf8 differs from std's")));
    }
    for p in 0..3 {
        if f & (8 << p) != 0 {
            v.push(("de_accepts_invalid", format!("{short}: SharedString::deserialize via {} accepts invalid UTF-8", DE_PATHS[p])));
        }
        if f & (64 << p) != 0 {
            v.push(("de_rejects_valid", format!("{short}: SharedString::deserialize via {} rejects valid UTF-8", DE_PATHS[p])));
        }
    }
    if f & (1 << 9) != 0 {
        v.push(("de_string_content", format!("{short}: a deserialized SharedString differs from its input")));
    }
    if f & (1 << 10) != 0 {
        v.push(("de_bytes_content", format!("{short}: SharedBytes::deserialize does not round-trip the bytes")));
    }
    if f & (1 << 11) != 0 {
        v.push(("serialize", format!("{short}: Serialize (through serde_json) differs from the str / byte sequence")));
    }
    judge_report(&rep, &short, &mut v);
    let case = json!({"what": "utf8", "bytes": s});
    let mut seen: Vec<&str> = vec![];
    for (k, d) in v {
        if !seen.contains(&k) {
            seen.push(k);
            ctx.violation(k, &short, d, case.clone());
        }
    }
}

fn utf8_unit(first: Option<u8>, maxlen: usize, ctx: &mut Ctx) {
    let Some(first) = first else {
        ctx.inner = 0;
        utf8_one(&[], ctx);
        return;
    };
    let mut inner = 0;
    let mut nvalid = 0u64;
    for len in 1..=maxlen {
        let free = len - 1;
        for c in 0..16usize.pow(free as u32) {
            let mut s = vec![first; len];
            let mut x = c;
            for k in (1..len).rev() {
                s[k] = ALPHABET[x % 16];
                x /= 16;
            }
            ctx.inner = inner;
            inner += 1;
            if std::str::from_utf8(&s).is_ok() {
                nvalid += 1;
            }
            utf8_one(&s, ctx);
        }
    }
    ctx.res.add_note_count("utf8_valid_inputs", nvalid);
    ctx.res.outcome(&("utf8", first, nvalid));
}

// ---------------------------------------------------------------------------------------------

#[derive(Clone, Debug)]
enum Unit {
    Calibrate,
    Mem(usize, usize),
    StrMem,
    CmpBytes,
    CmpStr,
    Utf8(Option<u8>),
}

fn lengths(args: &Args) -> Vec<usize> {
    let mut v: Vec<usize> = (0..=64).collect();
    if args.thorough() {
        v.extend(65..=130);
        v.extend([255, 256, 257, 4095, 4096, 4097, 65535, 65536, 70000, 1 << 20]);
    } else {
        v.extend([4096, 70000]);
    }
    v
}

fn units(args: &Args) -> Vec<Unit> {
    let mut v = vec![Unit::Calibrate];
    v.push(Unit::Utf8(None));
    for len in lengths(args) {
        for ctor in 0..CTORS.len() {
            v.push(Unit::Mem(len, ctor));
        }
    }
    v.push(Unit::CmpBytes);
    v.push(Unit::CmpStr);
    v.push(Unit::StrMem);
    for b in ALPHABET {
        v.push(Unit::Utf8(Some(b)));
    }
    v
}

/// The harness's own operations (thread spawn + join, Vec juggling) must balance in the ledger,
/// otherwise leak verdicts would be meaningless: checked in every worker before anything else.
fn calibrate() {
    let _ = std::thread::spawn(|| drop(vec![1u8; 10])).join();
    for round in 0..3 {
        let sc = scope_begin();
        {
            let v = vec![7u8; 100];
            let mut hs: Vec<Option<Vec<u8>>> = vec![Some(v.clone()), Some(v)];
            let h = hs[1].take();
            let _ = std::thread::spawn(move || drop(h)).join();
            drop(hs);
        }
        let rep = scope_end(sc);
        if !rep.clean() && round == 2 {
            eprintln!("MACHINERY: the allocator ledger does not balance on the harness itself: {rep:?}");
            std::process::exit(2);
        }
    }
}

pub fn plan(args: &Args) -> Plan<'_> {
    let us = units(args);
    let us2 = us.clone();
    let maxlen = if args.thorough() { 5 } else { 4 };
    let lens = lengths(args);
    let mut calibrated = false;
    Plan {
        total: us.len(),
        name_of: Box::new(move |i| match &us2[i] {
            Unit::Calibrate => "calibrate".into(),
            Unit::Mem(len, ctor) => format!("mem len={len} {}", CTORS[*ctor]),
            Unit::StrMem => "strmem".into(),
            Unit::CmpBytes => "cmp_bytes".into(),
            Unit::CmpStr => "cmp_str".into(),
            Unit::Utf8(None) => "utf8 <empty>".into(),
            Unit::Utf8(Some(b)) => format!("utf8 first={b:02x}"),
        }),
        run: Box::new(move |i, ctx| {
            if ctx.res.bound.is_empty() {
                ctx.res.bound = format!(
                    "SharedBytes: {} lengths (0..={}{}) x {} constructors x 1..4 handles (clone of first / of last) dropped in every order, last drop on this or another thread; ==/cmp/partial_cmp/Hash/set lookup for all 1600 ordered pairs of 40 byte strings and of 40 strs; SharedString: every byte string of length <= {maxlen} over 16 UTF-8 boundary bytes through from_utf8 (2 buffer kinds), 3 byte-visiting and 3 str-visiting deserializers, serde_json; allocator ledger (leak, layout on free, double free) around every case",
                    lens.len(),
                    if lens.len() > 67 { 130 } else { 64 },
                    if lens.len() > 67 { ", 255..257, 4095..4097, 65535, 65536, 70000, 2^20" } else { ", 4096, 70000" },
                    CTORS.len()
                );
                ctx.res.rule = "cases = (length, constructor, #handles, clone source, drop permutation, thread) | ordered pair | byte string; distinct = (length, constructor) | (eq, ordering, length classes) of a pair | (first byte, #valid) of a string block".into();
            }
            if !calibrated {
                calibrate();
                calibrated = true;
            }
            match &us[i] {
                Unit::Calibrate => {}
                Unit::Mem(len, ctor) => mem_unit(*len, *ctor, ctx),
                Unit::StrMem => str_mem_unit(ctx),
                Unit::CmpBytes => cmp_bytes_unit(ctx),
                Unit::CmpStr => cmp_str_unit(ctx),
                Unit::Utf8(f) => utf8_unit(*f, maxlen, ctx),
            }
            if ctx.res.samples.len() < 3 {
                if let Unit::Mem(len, ctor) = &us[i] {
                    if *len % 23 == 5 {
                        ctx.res.sample(json!({"case": format!("mem len={len} {}: 1..4 handles, every drop order, ledger clean", CTORS[*ctor])}));
                    }
                }
            }
        }),
    }
}

pub fn replay(case: &Value, ctx: &mut Ctx) {
    calibrate();
    match case["what"].as_str().unwrap_or("") {
        "mem" => {
            let c = MemCase {
                len: case["len"].as_u64().unwrap_or(0) as usize,
                ctor: (case["ctor"].as_u64().unwrap_or(0) as usize).min(CTORS.len() - 1),
                handles: case["handles"].as_u64().unwrap_or(1) as usize,
                order: case["order"].as_array().map(|a| a.iter().map(|x| x.as_u64().unwrap_or(0) as usize).collect()).unwrap_or_default(),
                clone_of_last: case["clone_of_last"].as_bool().unwrap_or(false),
                last_drop_on_thread: case["thread"].as_bool().unwrap_or(false),
            };
            let src = pattern(c.len);
            run_mem_case(&c, &src, ctx);
        }
        "utf8" => {
            let s: Vec<u8> = case["bytes"].as_array().map(|a| a.iter().map(|x| x.as_u64().unwrap_or(0) as u8).collect()).unwrap_or_default();
            utf8_one(&s, ctx);
        }
        "cmp_bytes" => cmp_bytes_unit(ctx),
        "cmp_str" => cmp_str_unit(ctx),
        _ => str_mem_unit(ctx),
    }
}
