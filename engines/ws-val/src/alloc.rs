//! Counting `#[global_allocator]`: an allocation-free ledger `ptr -> Layout` of every live heap
//! block of the process (open-addressing table in static memory, guarded by a spin lock), so that
//!   * a `dealloc`/`realloc` whose `Layout` differs from the one the block was allocated with,
//!   * a free of a pointer that is not live (double free, foreign pointer),
//!   * a block allocated inside a *scope* and still live when the scope ends (leak)
//! are all observed instead of silently corrupting the heap.  Inside a scope, freed blocks are
//! poisoned (0xDD) and quarantined (not handed back to the system allocator until the scope ends):
//! a second free of the same block is then *certainly* recognised, and a read through a dangling
//! handle sees poison instead of the old contents.  Wrong frees are never forwarded to the system
//! allocator (the block is freed with the layout it was allocated with, or leaked), so the process
//! survives to report them.
use std::alloc::{GlobalAlloc, Layout, System};
use std::sync::atomic::{AtomicBool, AtomicIsize, AtomicU32, AtomicU64, Ordering::*};

const CAP: usize = 1 << 18;
const MASK: usize = CAP - 1;
const QCAP: usize = 512;
const EVCAP: usize = 8;

#[derive(Clone, Copy)]
struct Slot {
    ptr: usize, // 0 = empty
    size: usize,
    align: u32,
    epoch: u32,
    quarantined: bool,
}
const EMPTY: Slot = Slot { ptr: 0, size: 0, align: 0, epoch: 0, quarantined: false };

#[derive(Clone, Copy, Debug)]
pub struct Event {
    pub kind: u8, // 1 mismatch on free, 2 free of unknown pointer, 3 double free (of a quarantined block), 4 mismatch on realloc
    #[allow(dead_code)]
    pub ptr: usize,
    pub got: (usize, usize),
    pub recorded: (usize, usize),
}

struct State {
    table: [Slot; CAP],
    used: usize,
    quarantine: [usize; QCAP],
    qhead: usize,
    qlen: usize,
    events: [Event; EVCAP],
    nevents: usize,
}

static mut STATE: State = State {
    table: [EMPTY; CAP],
    used: 0,
    quarantine: [0; QCAP],
    qhead: 0,
    qlen: 0,
    events: [Event { kind: 0, ptr: 0, got: (0, 0), recorded: (0, 0) }; EVCAP],
    nevents: 0,
};
static LOCK: AtomicBool = AtomicBool::new(false);
static EPOCH: AtomicU32 = AtomicU32::new(0);
static NEXT_EPOCH: AtomicU32 = AtomicU32::new(1);
static SCOPE_LIVE: AtomicIsize = AtomicIsize::new(0);
static N_MISMATCH: AtomicU64 = AtomicU64::new(0);
static N_UNKNOWN: AtomicU64 = AtomicU64::new(0);
static N_DOUBLE: AtomicU64 = AtomicU64::new(0);
static N_ALLOC: AtomicU64 = AtomicU64::new(0);
static N_FREE: AtomicU64 = AtomicU64::new(0);
pub static OVERFLOW: AtomicBool = AtomicBool::new(false);

struct Guard;
fn lock() -> Guard {
    while LOCK.compare_exchange_weak(false, true, Acquire, Relaxed).is_err() {
        std::hint::spin_loop();
    }
    Guard
}
impl Drop for Guard {
    fn drop(&mut self) {
        LOCK.store(false, Release);
    }
}

#[inline]
fn hash(p: usize) -> usize {
    ((p >> 3).wrapping_mul(0x9E37_79B9_7F4A_7C15)) >> (64 - 18)
}

#[allow(static_mut_refs)]
impl State {
    fn find(&self, p: usize) -> Option<usize> {
        let mut i = hash(p) & MASK;
        loop {
            let s = &self.table[i];
            if s.ptr == p {
                return Some(i);
            }
            if s.ptr == 0 {
                return None;
            }
            i = (i + 1) & MASK;
        }
    }
    fn insert(&mut self, slot: Slot) {
        if self.used * 4 >= CAP * 3 {
            OVERFLOW.store(true, Relaxed);
            return;
        }
        let mut i = hash(slot.ptr) & MASK;
        while self.table[i].ptr != 0 {
            i = (i + 1) & MASK;
        }
        self.table[i] = slot;
        self.used += 1;
    }
    /// linear-probing deletion with backward shift (no tombstones)
    fn remove(&mut self, mut i: usize) {
        self.used -= 1;
        let mut j = i;
        loop {
            self.table[i] = EMPTY;
            loop {
                j = (j + 1) & MASK;
                if self.table[j].ptr == 0 {
                    return;
                }
                let k = hash(self.table[j].ptr) & MASK;
                // is k cyclically in (i, j] ? then the entry may stay
                let stay = if i <= j { i < k && k <= j } else { i < k || k <= j };
                if !stay {
                    break;
                }
            }
            self.table[i] = self.table[j];
            i = j;
        }
    }
    fn event(&mut self, e: Event) {
        if self.nevents < EVCAP {
            self.events[self.nevents] = e;
        }
        self.nevents += 1;
    }
}

pub struct Ledger;

#[allow(static_mut_refs)]
unsafe impl GlobalAlloc for Ledger {
    unsafe fn alloc(&self, layout: Layout) -> *mut u8 {
        let p = System.alloc(layout);
        if !p.is_null() {
            track(p as usize, layout);
        }
        p
    }
    unsafe fn alloc_zeroed(&self, layout: Layout) -> *mut u8 {
        let p = System.alloc_zeroed(layout);
        if !p.is_null() {
            track(p as usize, layout);
        }
        p
    }
    unsafe fn dealloc(&self, ptr: *mut u8, layout: Layout) {
        N_FREE.fetch_add(1, Relaxed);
        let p = ptr as usize;
        let mut evict: Option<(usize, Layout)> = None;
        let action: Option<(Layout, bool)>; // (recorded layout, quarantine?)
        {
            let _g = lock();
            let st = &mut STATE;
            match st.find(p) {
                None => {
                    if OVERFLOW.load(Relaxed) {
                        action = Some((layout, false));
                    } else {
                        N_UNKNOWN.fetch_add(1, Relaxed);
                        st.event(Event { kind: 2, ptr: p, got: (layout.size(), layout.align()), recorded: (0, 0) });
                        action = None; // leak it: never forward a wrong free
                    }
                }
                Some(i) if st.table[i].quarantined => {
                    N_DOUBLE.fetch_add(1, Relaxed);
                    let s = st.table[i];
                    st.event(Event { kind: 3, ptr: p, got: (layout.size(), layout.align()), recorded: (s.size, s.align as usize) });
                    action = None;
                }
                Some(i) => {
                    let s = st.table[i];
                    if s.size != layout.size() || s.align as usize != layout.align() {
                        N_MISMATCH.fetch_add(1, Relaxed);
                        st.event(Event { kind: 1, ptr: p, got: (layout.size(), layout.align()), recorded: (s.size, s.align as usize) });
                    }
                    let ep = EPOCH.load(Relaxed);
                    if ep != 0 && s.epoch == ep {
                        SCOPE_LIVE.fetch_sub(1, Relaxed);
                    }
                    let rec = Layout::from_size_align_unchecked(s.size, s.align as usize);
                    if ep != 0 {
                        st.table[i].quarantined = true;
                        if st.qlen == QCAP {
                            // evict the oldest quarantined block
                            let old = st.quarantine[st.qhead];
                            st.qhead = (st.qhead + 1) % QCAP;
                            st.qlen -= 1;
                            if let Some(j) = st.find(old) {
                                let o = st.table[j];
                                st.remove(j);
                                evict = Some((old, Layout::from_size_align_unchecked(o.size, o.align as usize)));
                            }
                        }
                        let tail = (st.qhead + st.qlen) % QCAP;
                        st.quarantine[tail] = p;
                        st.qlen += 1;
                        action = Some((rec, true));
                    } else {
                        st.remove(i);
                        action = Some((rec, false));
                    }
                }
            }
        }
        if let Some((old, l)) = evict {
            System.dealloc(old as *mut u8, l);
        }
        match action {
            Some((rec, true)) => std::ptr::write_bytes(ptr, 0xDD, rec.size()),
            Some((rec, false)) => System.dealloc(ptr, rec),
            None => {}
        }
    }
    unsafe fn realloc(&self, ptr: *mut u8, layout: Layout, new_size: usize) -> *mut u8 {
        let p = ptr as usize;
        let rec: Option<Slot>;
        {
            let _g = lock();
            let st = &mut STATE;
            rec = match st.find(p) {
                Some(i) if !st.table[i].quarantined => {
                    let s = st.table[i];
                    if s.size != layout.size() || s.align as usize != layout.align() {
                        N_MISMATCH.fetch_add(1, Relaxed);
                        st.event(Event { kind: 4, ptr: p, got: (layout.size(), layout.align()), recorded: (s.size, s.align as usize) });
                    }
                    Some(s)
                }
                Some(_) => {
                    N_DOUBLE.fetch_add(1, Relaxed);
                    st.event(Event { kind: 3, ptr: p, got: (layout.size(), layout.align()), recorded: (0, 0) });
                    None
                }
                None => {
                    if !OVERFLOW.load(Relaxed) {
                        N_UNKNOWN.fetch_add(1, Relaxed);
                        st.event(Event { kind: 2, ptr: p, got: (layout.size(), layout.align()), recorded: (0, 0) });
                    }
                    None
                }
            };
        }
        match rec {
            Some(s) if EPOCH.load(Relaxed) != 0 => {
                // inside a scope the allocator's freedom is resolved adversarially: a `realloc` (grow
                // *or shrink*) always moves the block, and the old one is poisoned and quarantined, so
                // a pointer remembered across `shrink_to_fit`/`reserve` is certainly stale (glibc
                // shrinks in place, which would hide that)
                let old = Layout::from_size_align_unchecked(s.size, s.align as usize);
                let nl = Layout::from_size_align_unchecked(new_size, s.align as usize);
                let np = self.alloc(nl);
                if !np.is_null() {
                    std::ptr::copy_nonoverlapping(ptr, np, s.size.min(new_size));
                    self.dealloc(ptr, old);
                }
                np
            }
            Some(s) => {
                let old = Layout::from_size_align_unchecked(s.size, s.align as usize);
                let np = System.realloc(ptr, old, new_size);
                if !np.is_null() {
                    let _g = lock();
                    let st = &mut STATE;
                    if let Some(i) = st.find(p) {
                        st.remove(i);
                    }
                    st.insert(Slot { ptr: np as usize, size: new_size, align: s.align, epoch: s.epoch, quarantined: false });
                }
                np
            }
            None => {
                // unknown / already freed block: do not touch it with the system allocator
                let nl = Layout::from_size_align_unchecked(new_size, layout.align());
                let np = self.alloc(nl);
                if !np.is_null() {
                    std::ptr::copy_nonoverlapping(ptr, np, layout.size().min(new_size));
                }
                np
            }
        }
    }
}

#[allow(static_mut_refs)]
unsafe fn track(p: usize, layout: Layout) {
    N_ALLOC.fetch_add(1, Relaxed);
    let ep = EPOCH.load(Relaxed);
    let _g = lock();
    if ep != 0 {
        SCOPE_LIVE.fetch_add(1, Relaxed);
    }
    STATE.insert(Slot { ptr: p, size: layout.size(), align: layout.align() as u32, epoch: ep, quarantined: false });
}

pub struct Scope {
    epoch: u32,
    base: (u64, u64, u64),
    ev0: usize,
}

#[derive(Debug, Default, Clone)]
pub struct Report {
    /// blocks allocated inside the scope and still live at its end
    pub leaked: isize,
    pub leaked_layouts: Vec<(usize, usize)>,
    pub mismatched: u64,
    pub unknown_free: u64,
    pub double_free: u64,
    pub events: Vec<Event>,
}
impl Report {
    pub fn clean(&self) -> bool {
        self.leaked == 0 && self.mismatched == 0 && self.unknown_free == 0 && self.double_free == 0
    }
}

/// Begin a ledger scope (not re-entrant; one scope per process at a time).
#[allow(static_mut_refs)]
pub fn scope_begin() -> Scope {
    let epoch = NEXT_EPOCH.fetch_add(1, Relaxed);
    let ev0 = {
        let _g = lock();
        unsafe { STATE.nevents }
    };
    SCOPE_LIVE.store(0, Relaxed);
    let base = (N_MISMATCH.load(Relaxed), N_UNKNOWN.load(Relaxed), N_DOUBLE.load(Relaxed));
    EPOCH.store(epoch, SeqCst);
    Scope { epoch, base, ev0 }
}

#[allow(static_mut_refs)]
pub fn scope_end(s: Scope) -> Report {
    EPOCH.store(0, SeqCst);
    let leaked = SCOPE_LIVE.load(Relaxed);
    // release the quarantine
    let mut leaked_fixed = [(0usize, 0usize); 8];
    let mut nleak = 0;
    let mut evs = [Event { kind: 0, ptr: 0, got: (0, 0), recorded: (0, 0) }; EVCAP];
    let mut nev = 0;
    loop {
        let next: Option<(usize, Layout)> = {
            let _g = lock();
            let st = unsafe { &mut STATE };
            if st.qlen == 0 {
                None
            } else {
                let p = st.quarantine[st.qhead];
                st.qhead = (st.qhead + 1) % QCAP;
                st.qlen -= 1;
                match st.find(p) {
                    Some(i) => {
                        let o = st.table[i];
                        st.remove(i);
                        Some((p, unsafe { Layout::from_size_align_unchecked(o.size, o.align as usize) }))
                    }
                    None => Some((0, Layout::new::<u8>())),
                }
            }
        };
        match next {
            None => break,
            Some((0, _)) => {}
            Some((p, l)) => unsafe { System.dealloc(p as *mut u8, l) },
        }
    }
    {
        let _g = lock();
        let st = unsafe { &mut STATE };
        if leaked != 0 {
            for sl in st.table.iter() {
                if sl.ptr != 0 && sl.epoch == s.epoch && !sl.quarantined && nleak < 8 {
                    leaked_fixed[nleak] = (sl.size, sl.align as usize);
                    nleak += 1;
                }
            }
        }
        let hi = st.nevents.min(EVCAP);
        for k in s.ev0.min(EVCAP)..hi {
            evs[nev] = st.events[k];
            nev += 1;
        }
        // keep room for the next scope's events
        if st.nevents >= EVCAP / 2 {
            st.nevents = 0;
        }
    }
    Report {
        leaked,
        leaked_layouts: leaked_fixed[..nleak].to_vec(),
        mismatched: N_MISMATCH.load(Relaxed) - s.base.0,
        unknown_free: N_UNKNOWN.load(Relaxed) - s.base.1,
        double_free: N_DOUBLE.load(Relaxed) - s.base.2,
        events: evs[..nev].to_vec(),
    }
}

#[allow(dead_code)]
pub fn totals() -> (u64, u64) {
    (N_ALLOC.load(Relaxed), N_FREE.load(Relaxed))
}
