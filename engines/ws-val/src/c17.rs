//! C17 (sequential part): `OnceInitCell<U, T>` under every sequence of initialiser outcomes.
//!
//! Reference (from the property text): the first initialiser that succeeds is the only one whose
//! result is kept; afterwards no closure runs and everybody gets the same address; a failing or
//! panicking initialiser leaves the cell uninitialised and the seed intact (including the
//! mutations earlier initialisers made through `&mut U`); `get` is `None` before and `Some(same
//! address)` after; exactly one of {seed, value} is alive at any time; each is dropped exactly
//! once -- also when the seed's destructor panics.
use crate::{Ctx, Plan};
use assets_manager::OnceInitCell;
use serde_json::{json, Value};
use std::cell::{Cell, RefCell};
use std::collections::BTreeMap;
use std::panic::{catch_unwind, AssertUnwindSafe};
use vcommon::Args;

const SEED_MAGIC: u64 = 0x5EED_5EED_5EED_5EED;
const VAL_MAGIC: u64 = 0x7A1E_7A1E_7A1E_7A1E;
const SEED_BASE: u64 = 1_000_000;
const VAL_BASE: u64 = 2_000_000;

#[derive(Default)]
struct Ledger {
    next: u64,
    seeds: BTreeMap<u64, u32>,
    vals: BTreeMap<u64, u32>,
    bogus: Vec<String>,
    /// zero-sized seeds cannot carry an id: creations and destructor runs are counted per case
    zst_created: u32,
    zst_dropped: u32,
}
thread_local! {
    static LEDGER: RefCell<Ledger> = RefCell::new(Ledger::default());
}
fn led<R>(f: impl FnOnce(&mut Ledger) -> R) -> R {
    LEDGER.with(|l| f(&mut l.borrow_mut()))
}
fn new_seed_id() -> u64 {
    led(|l| {
        l.next += 1;
        let id = SEED_BASE + l.next;
        l.seeds.insert(id, 0);
        id
    })
}
fn seed_dropped(magic: u64, id: u64) {
    led(|l| {
        if magic != SEED_MAGIC {
            l.bogus.push(format!("a seed destructor ran on bytes that are not a seed (magic {magic:#x}, id {id})"));
        } else if let Some(c) = l.seeds.get_mut(&id) {
            *c += 1;
        } else {
            l.bogus.push(format!("a seed destructor ran on an unknown seed id {id}"));
        }
    })
}

/// Tracked seed.
pub struct TSeed {
    magic: u64,
    id: u64,
    n: u32,
}
impl Default for TSeed {
    fn default() -> Self {
        TSeed { magic: SEED_MAGIC, id: new_seed_id(), n: 0 }
    }
}
impl Drop for TSeed {
    fn drop(&mut self) {
        seed_dropped(self.magic, self.id);
    }
}
/// Tracked seed whose destructor panics (after doing its bookkeeping).
pub struct PSeed {
    magic: u64,
    id: u64,
    n: u32,
}
impl Default for PSeed {
    fn default() -> Self {
        PSeed { magic: SEED_MAGIC, id: new_seed_id(), n: 0 }
    }
}
impl Drop for PSeed {
    fn drop(&mut self) {
        seed_dropped(self.magic, self.id);
        panic!("seed-dtor");
    }
}
/// Zero-sized seed WITH drop glue (`needs_drop` is true, `size_of` is 0).
pub struct ZSeed;
impl Default for ZSeed {
    fn default() -> Self {
        led(|l| l.zst_created += 1);
        ZSeed
    }
}
impl Drop for ZSeed {
    fn drop(&mut self) {
        led(|l| l.zst_dropped += 1);
    }
}
/// Zero-sized seed whose destructor panics (after doing its bookkeeping).
pub struct ZPSeed;
impl Default for ZPSeed {
    fn default() -> Self {
        led(|l| l.zst_created += 1);
        ZPSeed
    }
}
impl Drop for ZPSeed {
    fn drop(&mut self) {
        led(|l| l.zst_dropped += 1);
        panic!("seed-dtor");
    }
}
/// Tracked value (plain data: interpreting it as something else cannot crash by itself).
#[derive(Debug)]
pub struct TVal {
    magic: u64,
    id: u64,
    #[allow(dead_code)]
    step: u32,
}
impl TVal {
    fn new(step: u32) -> TVal {
        let id = led(|l| {
            l.next += 1;
            let id = VAL_BASE + l.next;
            l.vals.insert(id, 0);
            id
        });
        TVal { magic: VAL_MAGIC, id, step }
    }
}
impl Drop for TVal {
    fn drop(&mut self) {
        let (magic, id) = (self.magic, self.id);
        led(|l| {
            if magic != VAL_MAGIC {
                l.bogus.push(format!("a value destructor ran on bytes that are not a value (magic {magic:#x}, id {id})"));
            } else if let Some(c) = l.vals.get_mut(&id) {
                *c += 1;
            } else {
                l.bogus.push(format!("a value destructor ran on an unknown value id {id}"));
            }
        })
    }
}

/// Plain value without a destructor (`needs_drop::<PVal>()` is false): judged by content and
/// address only, it never appears in the drop ledger.
#[derive(Debug, Clone, Copy)]
pub struct PVal {
    magic: u64,
    id: u64,
    #[allow(dead_code)]
    step: u32,
}
const PLAIN_BASE: u64 = 3_000_000;

trait Val: std::fmt::Debug + Sized + 'static {
    const TRACKED: bool;
    fn make(step: u32) -> Self;
    fn magic(&self) -> u64;
    fn id(&self) -> u64;
}
impl Val for TVal {
    const TRACKED: bool = true;
    fn make(step: u32) -> Self {
        TVal::new(step)
    }
    fn magic(&self) -> u64 {
        self.magic
    }
    fn id(&self) -> u64 {
        self.id
    }
}
impl Val for PVal {
    const TRACKED: bool = false;
    fn make(step: u32) -> Self {
        let id = led(|l| {
            l.next += 1;
            PLAIN_BASE + l.next
        });
        PVal { magic: VAL_MAGIC, id, step }
    }
    fn magic(&self) -> u64 {
        self.magic
    }
    fn id(&self) -> u64 {
        self.id
    }
}

trait Seed: Default + 'static {
    const TRACKED: bool;
    const DROP_PANICS: bool;
    /// read-and-increment the counter kept inside the seed (None: a zero-sized seed has no state)
    fn bump(&mut self) -> Option<u32>;
}
impl Seed for u32 {
    const TRACKED: bool = false;
    const DROP_PANICS: bool = false;
    fn bump(&mut self) -> Option<u32> {
        *self += 1;
        Some(*self - 1)
    }
}
impl Seed for TSeed {
    const TRACKED: bool = true;
    const DROP_PANICS: bool = false;
    fn bump(&mut self) -> Option<u32> {
        self.n += 1;
        Some(self.n - 1)
    }
}
impl Seed for PSeed {
    const TRACKED: bool = true;
    const DROP_PANICS: bool = true;
    fn bump(&mut self) -> Option<u32> {
        self.n += 1;
        Some(self.n - 1)
    }
}

impl Seed for ZSeed {
    const TRACKED: bool = true;
    const DROP_PANICS: bool = false;
    fn bump(&mut self) -> Option<u32> {
        None
    }
}
impl Seed for ZPSeed {
    const TRACKED: bool = true;
    const DROP_PANICS: bool = true;
    fn bump(&mut self) -> Option<u32> {
        None
    }
}

/// (name, seed type index, constructor: 0 new, 1 Default, 2 with_value, value type: 0 tracked
/// Drop value, 1 plain value without destructor). Both `needs_drop::<U>()` answers are exercised
/// with both value kinds. New combinations are appended so that recorded indices stay valid.
const COMBOS: [(&str, u8, u8, u8); 26] = [
    ("u32-new", 0, 0, 0),
    ("tracked-new", 1, 0, 0),
    ("dtorpanic-new", 2, 0, 0),
    ("u32-default", 0, 1, 0),
    ("tracked-default", 1, 1, 0),
    ("dtorpanic-default", 2, 1, 0),
    ("tracked-with_value", 1, 2, 0),
    ("u32-with_value", 0, 2, 0),
    ("u32-new/plain-value", 0, 0, 1),
    ("tracked-new/plain-value", 1, 0, 1),
    ("dtorpanic-new/plain-value", 2, 0, 1),
    ("u32-default/plain-value", 0, 1, 1),
    ("tracked-default/plain-value", 1, 1, 1),
    ("dtorpanic-default/plain-value", 2, 1, 1),
    ("tracked-with_value/plain-value", 1, 2, 1),
    ("u32-with_value/plain-value", 0, 2, 1),
    // zero-sized seeds with drop glue (seed type 3: counting destructor, 4: panicking destructor)
    ("zst-new", 3, 0, 0),
    ("zstdtorpanic-new", 4, 0, 0),
    ("zst-default", 3, 1, 0),
    ("zstdtorpanic-default", 4, 1, 0),
    ("zst-with_value", 3, 2, 0),
    ("zst-new/plain-value", 3, 0, 1),
    ("zstdtorpanic-new/plain-value", 4, 0, 1),
    ("zst-default/plain-value", 3, 1, 1),
    ("zstdtorpanic-default/plain-value", 4, 1, 1),
    ("zst-with_value/plain-value", 3, 2, 1),
];
/// step alphabet: get_or_try_init{Ok,Err,panic}, get_or_init{Ok,panic}
const SYM: [&str; 5] = ["tOk", "tErr", "tPanic", "iOk", "iPanic"];

fn short_of(combo: usize, steps: &[u8]) -> String {
    format!("{}:{}", COMBOS[combo].0, steps.iter().map(|&s| SYM[s as usize]).collect::<Vec<_>>().join(","))
}

fn payload(p: &Box<dyn std::any::Any + Send>) -> String {
    p.downcast_ref::<String>().cloned().or_else(|| p.downcast_ref::<&str>().map(|s| s.to_string())).unwrap_or_else(|| "<non-string>".into())
}

struct Model {
    init: Option<(usize, u64)>, // (address, value id)
    executed: u32,
}

fn run_case(combo: usize, steps: &[u8], ctx: &mut Ctx) {
    match (COMBOS[combo].1, COMBOS[combo].3) {
        (0, 0) => run_typed::<u32, TVal>(combo, steps, ctx),
        (1, 0) => run_typed::<TSeed, TVal>(combo, steps, ctx),
        (2, 0) => run_typed::<PSeed, TVal>(combo, steps, ctx),
        (3, 0) => run_typed::<ZSeed, TVal>(combo, steps, ctx),
        (_, 0) => run_typed::<ZPSeed, TVal>(combo, steps, ctx),
        (0, _) => run_typed::<u32, PVal>(combo, steps, ctx),
        (1, _) => run_typed::<TSeed, PVal>(combo, steps, ctx),
        (2, _) => run_typed::<PSeed, PVal>(combo, steps, ctx),
        (3, _) => run_typed::<ZSeed, PVal>(combo, steps, ctx),
        (_, _) => run_typed::<ZPSeed, PVal>(combo, steps, ctx),
    }
}

fn run_typed<U: Seed, V: Val>(combo: usize, steps: &[u8], ctx: &mut Ctx) {
    let short = short_of(combo, steps);
    ctx.progress(&short);
    let case = json!({"combo": combo, "steps": steps});
    led(|l| *l = Ledger::default());
    let mut viol: Vec<(&'static str, String)> = vec![];
    let ctor = COMBOS[combo].2;
    let cell: OnceInitCell<U, V> = match ctor {
        0 => OnceInitCell::new(U::default()),
        1 => Default::default(),
        _ => OnceInitCell::with_value(V::make(999)),
    };
    let mut model = Model { init: None, executed: 0 };
    if ctor == 2 {
        match cell.get() {
            Some(v) => model.init = Some((v as *const V as usize, v.id())),
            None => viol.push(("get_state", "with_value(..).get() is None".into())),
        }
    }
    let mut trace: Vec<String> = vec![];
    let check_state = |model: &Model, at: &str, viol: &mut Vec<(&'static str, String)>| {
        let before = cell.get().map(|v| (v as *const V as usize, v.magic(), v.id()));
        let dbg = format!("{cell:?}");
        let after = cell.get().map(|v| (v as *const V as usize, v.magic(), v.id()));
        if before != after {
            viol.push(("debug_disturbs", format!("{at}: get() was {before:?} before and {after:?} after formatting with Debug")));
        }
        match (model.init, after) {
            (None, None) => {}
            (Some((a, id)), Some((b, magic, bid))) => {
                if a != b {
                    viol.push(("address_changed", format!("{at}: get() returns address {b:#x}, the value was first seen at {a:#x}")));
                } else if magic != VAL_MAGIC || id != bid {
                    viol.push(("get_state", format!("{at}: get() does not show the value stored by the successful initialiser (id {bid}, expected {id})")));
                } else if !dbg.contains(&format!("id: {id}")) {
                    viol.push(("get_state", format!("{at}: Debug output {dbg:?} does not show the stored value")));
                }
            }
            (None, Some(_)) => viol.push(("get_state", format!("{at}: get() is Some although no initialiser has succeeded"))),
            (Some(_), None) => viol.push(("get_state", format!("{at}: get() is None although an initialiser has succeeded"))),
        }
        let (alive_seeds, alive_vals, bogus) = led(|l| (l.seeds.values().filter(|&&c| c == 0).count() + l.zst_created.saturating_sub(l.zst_dropped) as usize, l.vals.values().filter(|&&c| c == 0).count(), l.bogus.clone()));
        let want_vals = if V::TRACKED { model.init.is_some() as usize } else { 0 };
        let want_seeds = if U::TRACKED && ctor != 2 { 1 - model.init.is_some() as usize } else { 0 };
        if alive_seeds != want_seeds || alive_vals != want_vals {
            viol.push(("alive_count", format!("{at}: {alive_seeds} seed(s) and {alive_vals} value(s) alive, expected {want_seeds} and {want_vals}")));
        }
        if let Some(b) = bogus.first() {
            viol.push(("bogus_drop", format!("{at}: {b}")));
        }
    };
    check_state(&model, "after construction", &mut viol);
    for (i, &sym) in steps.iter().enumerate() {
        let ran = Cell::new(0u32);
        let seen = Cell::new(None::<u32>);
        let made = Cell::new(None::<u64>);
        let i32_ = i as u32;
        let body = |u: &mut U, outcome: u8| -> Result<V, u32> {
            ran.set(ran.get() + 1);
            seen.set(u.bump());
            match outcome {
                0 => {
                    let v = V::make(i32_);
                    made.set(Some(v.id()));
                    Ok(v)
                }
                1 => Err(1000 + i32_),
                _ => panic!("init-panic-{i32_}"),
            }
        };
        // Ok(Ok(addr)) | Ok(Err(e)) | Err(panic payload)
        let r: Result<Result<usize, u32>, String> = catch_unwind(AssertUnwindSafe(|| match sym {
            0 | 1 | 2 => cell.get_or_try_init(|u| body(u, sym)).map(|v| v as *const V as usize),
            3 => Ok(cell.get_or_init(|u| body(u, 0).unwrap()) as *const V as usize),
            _ => Ok(cell.get_or_init(|u| body(u, 2).unwrap()) as *const V as usize),
        }))
        .map_err(|p| payload(&p));
        let at = format!("step {i} ({})", SYM[sym as usize]);
        trace.push(format!("{at}: closure ran {}x, saw counter {:?}, returned {r:?}", ran.get(), seen.get()));
        let outcome = match sym {
            0 | 3 => 0,
            1 => 1,
            _ => 2,
        };
        if let Some((addr, _)) = model.init {
            if ran.get() != 0 {
                viol.push(("closure_ran_after_init", format!("{at}: the cell was already initialised but the closure ran")));
            }
            if r != Ok(Ok(addr)) {
                viol.push(("result", format!("{at}: initialised cell returned {r:?}, expected the address {addr:#x}")));
            }
        } else {
            if ran.get() != 1 {
                viol.push(("closure_not_run", format!("{at}: the cell is uninitialised but the closure ran {} times", ran.get())));
            } else {
                if seen.get().map_or(false, |c| c != model.executed) {
                    viol.push(("seed_not_intact", format!("{at}: the initialiser saw seed counter {:?}, the {} earlier initialiser(s) left it at {}", seen.get(), model.executed, model.executed)));
                }
                model.executed += 1;
            }
            match outcome {
                0 => {
                    // success: value kept; with a panicking seed destructor the call may report that panic
                    let got = cell.get().map(|v| (v as *const V as usize, v.id()));
                    match (&r, got) {
                        (Ok(Ok(a)), Some((b, id))) if *a == b && Some(id) == made.get() => model.init = Some((b, id)),
                        (Err(p), Some((b, id))) if U::DROP_PANICS && p == "seed-dtor" && Some(id) == made.get() => model.init = Some((b, id)),
                        _ => {
                            viol.push(("result", format!("{at}: successful initialiser (made value {:?}) but the call returned {r:?} and get() = {got:?}", made.get())));
                            // follow the implementation so that later steps are judged consistently
                            model.init = got;
                        }
                    }
                }
                1 => {
                    if r != Ok(Err(1000 + i32_)) {
                        viol.push(("result", format!("{at}: failing initialiser, call returned {r:?}, expected its error")));
                    }
                }
                _ => {
                    if r != Err(format!("init-panic-{i32_}")) {
                        viol.push(("result", format!("{at}: panicking initialiser, call returned {r:?}, expected its panic")));
                    }
                }
            }
        }
        check_state(&model, &format!("after {at}"), &mut viol);
        if viol.len() > 6 {
            break;
        }
    }
    ctx.res.transitions += steps.len() as u64 + 1;
    ctx.res.states += steps.len() as u64 + 1;
    let initialised_at_end = model.init.is_some();
    let dr = catch_unwind(AssertUnwindSafe(move || drop(cell))).map_err(|p| payload(&p));
    trace.push(format!("drop(cell): {dr:?}"));
    match &dr {
        Ok(()) => {}
        Err(p) if U::DROP_PANICS && !initialised_at_end && ctor != 2 && p == "seed-dtor" => {}
        Err(p) => viol.push(("result", format!("dropping the cell panicked: {p}"))),
    }
    let (seeds, vals, bogus) = led(|l| (l.seeds.clone(), l.vals.clone(), l.bogus.clone()));
    for (id, c) in seeds.iter().chain(vals.iter()) {
        if *c != 1 {
            let what = if *id >= VAL_BASE { "value" } else { "seed" };
            viol.push(("drop_count", format!("at the end: {what} {id} was dropped {c} times, expected exactly once")));
            break;
        }
    }
    let (zc, zd) = led(|l| (l.zst_created, l.zst_dropped));
    if zc != zd {
        viol.push(("drop_count", format!("at the end: {zc} zero-sized seed(s) were created and their destructor ran {zd} time(s), expected exactly once each")));
    }
    if let Some(b) = bogus.first() {
        viol.push(("bogus_drop", format!("at the end: {b}")));
    }
    ctx.res.evaluations += 1;
    ctx.res.traces_validated += 1;
    ctx.res.outcome(&(COMBOS[combo].1, COMBOS[combo].3, ctor, outcome_sig(steps, U::DROP_PANICS), dr.is_ok()));
    if ctx.verbose {
        println!("case {short}");
        for t in &trace {
            println!("  {t}");
        }
    }
    if ctx.res.samples.len() < 3 && steps.len() >= 3 && ctx.inner % 97 == 5 {
        ctx.res.sample(json!({"case": short, "trace": trace}));
    }
    let mut seen_kinds: Vec<&str> = vec![];
    for (kind, d) in viol {
        if seen_kinds.contains(&kind) {
            continue;
        }
        seen_kinds.push(kind);
        ctx.violation(kind, &short, format!("{short}: {d}"), case.clone());
    }
}

/// observable outcome class of a sequence: which step initialised it and how each step answered
fn outcome_sig(steps: &[u8], dtor_panics: bool) -> (Option<usize>, Vec<u8>, bool) {
    let first_ok = steps.iter().position(|&s| s == 0 || s == 3);
    let answers = steps.iter().enumerate().map(|(i, &s)| if first_ok.map_or(false, |f| i > f) { 9 } else { s }).collect();
    (first_ok, answers, dtor_panics)
}

fn max_len(args: &Args) -> usize {
    if args.thorough() {
        7
    } else {
        5
    }
}

/// units: (length, combo, first symbol for length >= 3)
fn units(args: &Args) -> Vec<(usize, usize, Option<u8>)> {
    let mut v = vec![];
    for len in 0..=max_len(args) {
        for combo in 0..COMBOS.len() {
            if len < 3 {
                v.push((len, combo, None));
            } else {
                for s in 0..5u8 {
                    v.push((len, combo, Some(s)));
                }
            }
        }
    }
    v
}

pub fn plan(args: &Args) -> Plan<'_> {
    let us = units(args);
    let us2 = us.clone();
    let ml = max_len(args);
    Plan {
        total: us.len(),
        name_of: Box::new(move |i| {
            let (len, combo, first) = us2[i];
            format!("{} len={len} first={}", COMBOS[combo].0, first.map_or("*", |s| SYM[s as usize]))
        }),
        run: Box::new(move |i, ctx| {
            if ctx.res.bound.is_empty() {
                ctx.res.bound = format!("every sequence of <= {ml} calls over {{get_or_try_init: Ok, Err, panic; get_or_init: Ok, panic}} x {} cell constructions (seed u32 / tracked Drop / destructor panics / zero-sized with Drop / zero-sized with panicking destructor x value tracked Drop / plain without destructor; new, Default, with_value); get(), Debug and the drop ledger checked after every call", COMBOS.len());
                ctx.res.rule = "cases = (construction, call sequence), enumerated by length then lexicographically; distinct = (seed type, constructor, index of the initialising call, per-call answer class)".into();
            }
            let (len, combo, first) = us[i];
            let free = if first.is_some() { len - 1 } else { len };
            let count = 5usize.pow(free as u32);
            for c in 0..count {
                let mut steps: Vec<u8> = vec![];
                if let Some(f) = first {
                    steps.push(f);
                }
                let mut x = c;
                let mut tail = vec![0u8; free];
                for k in (0..free).rev() {
                    tail[k] = (x % 5) as u8;
                    x /= 5;
                }
                steps.extend(tail);
                ctx.inner = c as u64;
                run_case(combo, &steps, ctx);
            }
        }),
    }
}

pub fn replay(case: &Value, ctx: &mut Ctx) {
    let combo = case["combo"].as_u64().unwrap_or(0) as usize;
    let steps: Vec<u8> = case["steps"].as_array().map(|a| a.iter().map(|x| x.as_u64().unwrap_or(0) as u8).collect()).unwrap_or_default();
    run_case(combo.min(COMBOS.len() - 1), &steps, ctx);
}
