//! C03: a load returns what the source holds (extension order, defaults, error precedence,
//! nothing cached on failure, compounds wrap errors with their own id).
//!
//! Reference (written from the property statement, it contains no folding/precedence code of the
//! crate): result = decoded content of the FIRST declared extension whose file is readable and
//! decodable; else what `default_value` decides; else an error naming the requested id whose class
//! is the best one present among decode > I/O-other > not-found > "no default / no extension".
//! The expected decoded value of every file is known by construction of the file, not by running
//! a loader. `load`/`load_expect` cache successes only; `load_owned` neither reads nor fills the
//! cache.
use crate::{Ctx, Plan};
use assets_manager::source::{DirEntry, FileContent, Source};
use assets_manager::{loader, AnyCache, Asset, AssetCache, BoxedError, Compound, Error, Handle, LocalAssetCache, SharedBytes, SharedString};
use serde_json::{json, Value};
use std::borrow::Cow;
use std::cell::RefCell;
use std::io;
use std::marker::PhantomData;
use std::panic::{catch_unwind, AssertUnwindSafe};
use std::sync::atomic::{AtomicU64, AtomicU8, Ordering::Relaxed};
use std::sync::Arc;
use vcommon::Args;

// ---------------------------------------------------------------------------------------------
// file states and the in-memory source

/// 0 ok, 1 not found, 2 undecodable, 3.. other I/O errors
const ST_NAMES: [&str; 7] = ["ok", "nf", "undec", "perm", "intr", "invdata", "other"];
const ST_OK: u8 = 0;
const ST_NF: u8 = 1;
const ST_UNDEC: u8 = 2;
fn io_kind(st: u8) -> io::ErrorKind {
    match st {
        1 => io::ErrorKind::NotFound,
        3 => io::ErrorKind::PermissionDenied,
        4 => io::ErrorKind::Interrupted,
        5 => io::ErrorKind::InvalidData,
        _ => io::ErrorKind::Other,
    }
}
/// state classes as used in witness keys and canonical ranks: the I/O kinds are one class
fn class_of(st: u8) -> u8 {
    st.min(3)
}
const CLASS_NAMES: [&str; 4] = ["ok", "nf", "undec", "io"];
const DELIVERY: [&str; 3] = ["Slice", "Buffer", "Owned"];
const CALLS: [&str; 3] = ["load", "load_owned", "load_expect"];
const FRONTS: [&str; 4] = ["AssetCache", "AssetCache.as_any_cache", "LocalAssetCache", "LocalAssetCache.as_any_cache"];
const EXT_NAMES: [&str; 3] = ["a", "b", "c"];

struct Slot {
    id: String,
    ext: &'static str,
    st: AtomicU8,
    ok: Arc<Vec<u8>>,
    bad: Arc<Vec<u8>>,
}
struct World {
    slots: Vec<Slot>,
    delivery: AtomicU8,
    reads: AtomicU64,
}
#[derive(Clone)]
struct Mem(Arc<World>);
struct Own(Arc<Vec<u8>>);
impl AsRef<[u8]> for Own {
    fn as_ref(&self) -> &[u8] {
        &self.0
    }
}
impl Source for Mem {
    fn read(&self, id: &str, ext: &str) -> io::Result<FileContent<'_>> {
        self.0.reads.fetch_add(1, Relaxed);
        let Some(slot) = self.0.slots.iter().find(|s| s.id == id && s.ext == ext) else {
            return Err(io::Error::new(io::ErrorKind::NotFound, format!("io:NotFound:{ext}")));
        };
        let st = slot.st.load(Relaxed);
        let content = match st {
            ST_OK => &slot.ok,
            ST_UNDEC => &slot.bad,
            _ => return Err(io::Error::new(io_kind(st), format!("io:{:?}:{ext}", io_kind(st)))),
        };
        Ok(match self.0.delivery.load(Relaxed) {
            0 => FileContent::Slice(&content[..]),
            1 => FileContent::Buffer(content.to_vec()),
            _ => FileContent::from_owned(Own(content.clone())),
        })
    }
    fn read_dir(&self, _id: &str, _f: &mut dyn FnMut(DirEntry)) -> io::Result<()> {
        Err(io::ErrorKind::NotFound.into())
    }
    fn exists(&self, entry: DirEntry) -> bool {
        match entry {
            DirEntry::File(id, ext) => self.0.slots.iter().any(|s| s.id == id && s.ext == ext && s.st.load(Relaxed) != ST_NF),
            DirEntry::Directory(_) => false,
        }
    }
}

// ---------------------------------------------------------------------------------------------
// error classes

#[derive(Clone, Copy, PartialEq, Eq, PartialOrd, Ord, Debug, Hash)]
enum Class {
    NoDefault,
    NotFound,
    IoOther,
    Decode,
    DefaultErr,
    Custom,
    Nested,
    Unknown,
}

#[derive(Debug)]
struct DefaultErr;
impl std::fmt::Display for DefaultErr {
    fn fmt(&self, f: &mut std::fmt::Formatter<'_>) -> std::fmt::Result {
        f.write_str("default-err")
    }
}
impl std::error::Error for DefaultErr {}
#[derive(Debug)]
struct CustomErr(String);
impl std::fmt::Display for CustomErr {
    fn fmt(&self, f: &mut std::fmt::Formatter<'_>) -> std::fmt::Result {
        write!(f, "custom-err:{}", self.0)
    }
}
impl std::error::Error for CustomErr {}

const NO_DEFAULT_TEXT: &str = "the asset has neither extension nor default value";

fn classify(e: &(dyn std::error::Error + 'static)) -> (Class, Option<io::ErrorKind>) {
    if let Some(io) = e.downcast_ref::<io::Error>() {
        // UnexpectedEof is never injected as a source fault: it can only be the *decode* error of
        // the read_exact loader family, and must be ranked as a decode error although it is an io::Error
        return match io.kind() {
            io::ErrorKind::NotFound => (Class::NotFound, Some(io.kind())),
            io::ErrorKind::UnexpectedEof => (Class::Decode, Some(io.kind())),
            _ => (Class::IoOther, Some(io.kind())),
        };
    }
    if e.is::<std::num::ParseIntError>() || e.is::<std::str::Utf8Error>() || e.is::<std::string::FromUtf8Error>() {
        return (Class::Decode, None);
    }
    if e.is::<DefaultErr>() {
        return (Class::DefaultErr, None);
    }
    if e.is::<CustomErr>() {
        return (Class::Custom, None);
    }
    if e.is::<Error>() {
        return (Class::Nested, None);
    }
    if e.to_string() == NO_DEFAULT_TEXT {
        return (Class::NoDefault, None);
    }
    (Class::Unknown, None)
}
/// class of a reason seen only through its Display text (the `load_expect` panic message)
fn classify_text(t: &str) -> Class {
    if t.starts_with("io:NotFound") {
        Class::NotFound
    } else if t.starts_with("io:") {
        Class::IoOther
    } else if t == NO_DEFAULT_TEXT {
        Class::NoDefault
    } else if t == "default-err" {
        Class::DefaultErr
    } else if t.starts_with("custom-err:") {
        Class::Custom
    } else if t.starts_with("failed to load") {
        Class::Nested
    } else {
        Class::Decode
    }
}

thread_local! {
    static DV_LOG: RefCell<Vec<(String, Class)>> = RefCell::new(Vec::new());
}
fn dv_log(id: &SharedString, e: &(dyn std::error::Error + 'static)) {
    let c = classify(e).0;
    DV_LOG.with(|l| l.borrow_mut().push((id.to_string(), c)));
}

// ---------------------------------------------------------------------------------------------
// asset types: 6 loader families x extension lists of length 0..3 x {no override, default_value
// returns Ok(marker), default_value returns Err(other)}

const fn exts(k: usize) -> &'static [&'static str] {
    match k {
        0 => &[],
        1 => &["a"],
        2 => &["a", "b"],
        _ => &["a", "b", "c"],
    }
}

trait TA: Asset {
    fn with_bytes<R>(&self, f: impl FnOnce(&[u8]) -> R) -> R;
}

macro_rules! fam {
    ($N:ident, $D:ident, $inner:ty, $loader:ty, $mark:expr, |$v:ident| $bytes:expr) => {
        pub struct $N<const K: usize>(pub $inner);
        pub struct $D<const K: usize, const OK: bool>(pub $inner);
        impl<const K: usize> From<$inner> for $N<K> {
            fn from(x: $inner) -> Self {
                Self(x)
            }
        }
        impl<const K: usize, const OK: bool> From<$inner> for $D<K, OK> {
            fn from(x: $inner) -> Self {
                Self(x)
            }
        }
        impl<const K: usize> Asset for $N<K> {
            const EXTENSIONS: &'static [&'static str] = exts(K);
            type Loader = loader::LoadFrom<$inner, $loader>;
        }
        impl<const K: usize, const OK: bool> Asset for $D<K, OK> {
            const EXTENSIONS: &'static [&'static str] = exts(K);
            type Loader = loader::LoadFrom<$inner, $loader>;
            fn default_value(id: &SharedString, error: BoxedError) -> Result<Self, BoxedError> {
                dv_log(id, &*error);
                if OK {
                    Ok(Self($mark))
                } else {
                    Err(Box::new(DefaultErr))
                }
            }
        }
        impl<const K: usize> TA for $N<K> {
            fn with_bytes<R>(&self, f: impl FnOnce(&[u8]) -> R) -> R {
                let $v = &self.0;
                let b: Cow<[u8]> = $bytes;
                f(&b)
            }
        }
        impl<const K: usize, const OK: bool> TA for $D<K, OK> {
            fn with_bytes<R>(&self, f: impl FnOnce(&[u8]) -> R) -> R {
                let $v = &self.0;
                let b: Cow<[u8]> = $bytes;
                f(&b)
            }
        }
    };
}
fam!(PN, PD, i32, loader::ParseLoader, -1, |v| Cow::Owned(v.to_string().into_bytes()));
fam!(SN, SD, String, loader::StringLoader, String::from("<default>"), |v| Cow::Borrowed(v.as_bytes()));
fam!(BN, BD, Vec<u8>, loader::BytesLoader, b"<default>".to_vec(), |v| Cow::Borrowed(&v[..]));
fam!(XN, XD, SharedString, loader::StringLoader, SharedString::from("<default>"), |v| Cow::Borrowed(v.as_bytes()));
fam!(YN, YD, SharedBytes, loader::BytesLoader, SharedBytes::from_slice(b"<default>"), |v| Cow::Borrowed(&v[..]));

/// A loader whose decode failure IS a plain `std::io::Error` (kind UnexpectedEof, from
/// `read_exact`): a big-endian u32 in the first four bytes, trailing bytes ignored.
pub struct ReadExactLoader;
impl loader::Loader<u32> for ReadExactLoader {
    fn load(content: Cow<[u8]>, _ext: &str) -> Result<u32, BoxedError> {
        use std::io::Read;
        let mut buf = [0u8; 4];
        let mut r: &[u8] = &content;
        r.read_exact(&mut buf)?;
        Ok(u32::from_be_bytes(buf))
    }
}
fam!(EN, ED, u32, ReadExactLoader, u32::MAX, |v| Cow::Owned(v.to_string().into_bytes()));

const FAMS: [&str; 6] = ["i32/ParseLoader", "String/StringLoader", "Vec<u8>/BytesLoader", "SharedString/StringLoader", "SharedBytes/BytesLoader", "u32/ReadExactLoader(io-error-on-decode)"];
const DVS: [&str; 3] = ["no-default", "default=Ok", "default=Err"];
fn fam_has_undec(fam: u8) -> bool {
    fam == 0 || fam == 1 || fam == 3 || fam == 5
}
fn marker(fam: u8) -> Vec<u8> {
    if fam == 0 {
        b"-1".to_vec()
    } else if fam == 5 {
        u32::MAX.to_string().into_bytes()
    } else {
        b"<default>".to_vec()
    }
}
const STYLES: [[&str; 4]; 3] = [["plain", "padded", "signed+crlf-padded", ""], ["plain", "padded(kept)", "empty", "64KiB"], ["plain", "empty", "64KiB", "non-utf8"]];
fn style_names(fam: u8) -> &'static [&'static str] {
    match fam {
        0 => &STYLES[0][..3],
        1 | 3 => &STYLES[1][..],
        5 => &["4-bytes", "4-bytes+trailing"],
        _ => &STYLES[2][..],
    }
}

/// (file bytes when ok, the value a correct load must produce as bytes, file bytes when undecodable)
fn content(fam: u8, style: u8, i: usize) -> (Vec<u8>, Vec<u8>, Vec<u8>) {
    let d = i as u8;
    match fam {
        5 => match style {
            // too short for read_exact: 2 bytes / empty
            0 => (vec![0, 0, 1, d], (256 + i).to_string().into_bytes(), vec![7, 7]),
            _ => (vec![0, 0, 2, d, 0xff, 0xfe], (512 + i).to_string().into_bytes(), vec![]),
        },
        0 => match style {
            0 => (format!("1{i}").into_bytes(), format!("1{i}").into_bytes(), b"zz".to_vec()),
            1 => (format!(" 2{i}\n").into_bytes(), format!("2{i}").into_bytes(), vec![0xff, 0xfe]),
            _ => (format!("\t\r\n -3{i} \n").into_bytes(), format!("-3{i}").into_bytes(), vec![]),
        },
        1 | 3 => match style {
            0 => (format!("s{i}").into_bytes(), format!("s{i}").into_bytes(), vec![0xff, d]),
            1 => (format!(" s{i}\n\t").into_bytes(), format!(" s{i}\n\t").into_bytes(), vec![b'a', 0xe2, 0x82]),
            2 => {
                let s = if i == 0 { String::new() } else { format!("e{i}") };
                (s.clone().into_bytes(), s.into_bytes(), vec![0xed, 0xa0, 0x80])
            }
            _ => {
                let mut s = String::new();
                while s.len() < 65536 - 16 {
                    s.push_str(&format!("€é{i}\0x"));
                }
                while s.len() < 65536 {
                    s.push('~');
                }
                let mut bad = s.clone().into_bytes();
                bad[65535] = 0xff;
                (s.clone().into_bytes(), s.into_bytes(), bad)
            }
        },
        _ => {
            let b: Vec<u8> = match style {
                0 => format!("b{i}").into_bytes(),
                1 => {
                    if i == 0 {
                        vec![]
                    } else {
                        vec![d]
                    }
                }
                2 => (0..65536usize).map(|k| (k * 7 + i + (k >> 9)) as u8).collect(),
                _ => vec![0xff, 0xfe, d, 0x00, 0x80, 0xc3],
            };
            (b.clone(), b, vec![])
        }
    }
}

// ---------------------------------------------------------------------------------------------
// front-ends

enum Cache {
    A(AssetCache<Mem>),
    L(LocalAssetCache<Mem>),
}
struct Front {
    cache: Cache,
    any: bool,
}
impl Front {
    fn new(kind: u8, src: Mem) -> Front {
        Front { cache: if kind < 2 { Cache::A(AssetCache::without_hot_reloading(src)) } else { Cache::L(LocalAssetCache::with_source(src)) }, any: kind % 2 == 1 }
    }
    fn any(&self) -> AnyCache<'_> {
        match &self.cache {
            Cache::A(c) => c.as_any_cache(),
            Cache::L(c) => c.as_any_cache(),
        }
    }
    fn load<T: Compound>(&self, id: &str) -> Result<&Handle<T>, Error> {
        match (&self.cache, self.any) {
            (_, true) => self.any().load(id),
            (Cache::A(c), _) => c.load(id),
            (Cache::L(c), _) => c.load(id),
        }
    }
    fn load_owned<T: Compound>(&self, id: &str) -> Result<T, Error> {
        match (&self.cache, self.any) {
            (_, true) => self.any().load_owned(id),
            (Cache::A(c), _) => c.load_owned(id),
            (Cache::L(c), _) => c.load_owned(id),
        }
    }
    fn load_expect<T: Compound>(&self, id: &str) -> &Handle<T> {
        match (&self.cache, self.any) {
            (_, true) => self.any().load_expect(id),
            (Cache::A(c), _) => c.load_expect(id),
            (Cache::L(c), _) => c.load_expect(id),
        }
    }
    fn contains<T: Compound>(&self, id: &str) -> bool {
        match (&self.cache, self.any) {
            (_, true) => self.any().contains::<T>(id),
            (Cache::A(c), _) => c.contains::<T>(id),
            (Cache::L(c), _) => c.contains::<T>(id),
        }
    }
    fn get_cached<T: Compound>(&self, id: &str) -> Option<&Handle<T>> {
        match (&self.cache, self.any) {
            (_, true) => self.any().get_cached(id),
            (Cache::A(c), _) => c.get_cached(id),
            (Cache::L(c), _) => c.get_cached(id),
        }
    }
}

// ---------------------------------------------------------------------------------------------
// observations

#[derive(Debug, Clone)]
struct ErrObs {
    /// ids along the reason chain, outermost first
    ids: Vec<String>,
    class: Class,
    kind: Option<io::ErrorKind>,
    text: String,
    /// `std::error::Error::source()` walks the same chain as `reason()`
    source_same: bool,
}
enum Obs<V> {
    Val { v: V, handle: Option<(usize, String)> },
    Err(ErrObs),
    /// load_expect panicked: (message)
    Panic(String),
}

fn walk(e: &Error) -> ErrObs {
    let mut ids = vec![];
    let mut cur: &Error = e;
    let mut source_same = true;
    loop {
        ids.push(cur.id().to_string());
        let r = cur.reason();
        let src = std::error::Error::source(cur);
        if src.map(|s| s as *const dyn std::error::Error as *const u8) != Some(r as *const dyn std::error::Error as *const u8) {
            source_same = false;
        }
        match r.downcast_ref::<Error>() {
            Some(inner) => cur = inner,
            None => {
                let (class, kind) = classify(r);
                return ErrObs { ids, class, kind, text: r.to_string(), source_same };
            }
        }
    }
}

fn panic_text(p: Box<dyn std::any::Any + Send>) -> String {
    p.downcast_ref::<String>().cloned().or_else(|| p.downcast_ref::<&str>().map(|s| s.to_string())).unwrap_or_else(|| "<non-string payload>".into())
}

/// run one call; `view` turns the loaded value into what is compared
fn do_call<T: Compound, V>(front: &Front, call: u8, id: &str, view: impl Fn(&T) -> V) -> Obs<V> {
    let r = catch_unwind(AssertUnwindSafe(|| match call {
        0 => match front.load::<T>(id) {
            Ok(h) => Obs::Val { v: view(&h.read()), handle: Some((h as *const Handle<T> as usize, h.id().to_string())) },
            Err(e) => Obs::Err(walk(&e)),
        },
        1 => match front.load_owned::<T>(id) {
            Ok(t) => Obs::Val { v: view(&t), handle: None },
            Err(e) => Obs::Err(walk(&e)),
        },
        _ => {
            let h = front.load_expect::<T>(id);
            Obs::Val { v: view(&h.read()), handle: Some((h as *const Handle<T> as usize, h.id().to_string())) }
        }
    }));
    match r {
        Ok(o) => o,
        Err(p) => Obs::Panic(panic_text(p)),
    }
}

// ---------------------------------------------------------------------------------------------
// reference model for plain assets

#[derive(Clone, Debug, PartialEq)]
enum Exp {
    /// the decoded content of extension i
    Val(usize),
    /// default_value's marker
    Default,
    /// an error of this class; for IoOther the kinds that are present
    Err(Class, Vec<io::ErrorKind>),
}

/// What the *source* holds for this type right now (no cache involved).
fn from_source(states: &[u8], dv: u8) -> Exp {
    if let Some(i) = states.iter().position(|&s| s == ST_OK) {
        return Exp::Val(i);
    }
    match dv {
        1 => Exp::Default,
        2 => Exp::Err(Class::DefaultErr, vec![]),
        _ => {
            let (c, k) = best_class(states);
            Exp::Err(c, k)
        }
    }
}
/// decode > I/O-other > not-found > no-default
fn best_class(states: &[u8]) -> (Class, Vec<io::ErrorKind>) {
    let mut best = Class::NoDefault;
    let mut kinds = vec![];
    for &s in states {
        let c = match s {
            ST_NF => Class::NotFound,
            ST_UNDEC => Class::Decode,
            _ => Class::IoOther,
        };
        if c == Class::IoOther {
            kinds.push(io_kind(s));
        }
        best = best.max(c);
    }
    (best, kinds)
}

#[derive(Clone, Debug)]
struct UnitA {
    fam: u8,
    n: usize,
    dv: u8,
    style: u8,
    states: Vec<u8>,
}
impl UnitA {
    /// canonical form used in witness keys (I/O kinds folded into one class)
    fn key_name(&self) -> String {
        format!("{} ext={} {} {} [{}]", FAMS[self.fam as usize], self.n, DVS[self.dv as usize], style_names(self.fam)[self.style as usize], self.states.iter().map(|&s| CLASS_NAMES[class_of(s) as usize]).collect::<Vec<_>>().join(","))
    }
    fn name(&self) -> String {
        format!("{} ext={} {} {} [{}]", FAMS[self.fam as usize], self.n, DVS[self.dv as usize], style_names(self.fam)[self.style as usize], self.states.iter().map(|&s| ST_NAMES[s as usize]).collect::<Vec<_>>().join(","))
    }
}

const ID: &str = "dir.item";

struct CaseA<'a> {
    u: &'a UnitA,
    delivery: u8,
    call: u8,
    front: u8,
    edits: &'a [(usize, u8)],
}
impl CaseA<'_> {
    fn short(&self) -> String {
        let e = if self.edits.is_empty() { String::new() } else { format!(" then {}", self.edits.iter().map(|(i, s)| format!("{}:={}", EXT_NAMES[*i], ST_NAMES[*s as usize])).collect::<Vec<_>>().join(",")) };
        format!("{} | {} {} via {}{e}", self.u.name(), DELIVERY[self.delivery as usize], CALLS[self.call as usize], FRONTS[self.front as usize])
    }
    fn key(&self) -> String {
        let e = if self.edits.is_empty() { String::new() } else { format!(" then {}", self.edits.iter().map(|(i, s)| format!("{}:={}", EXT_NAMES[*i], CLASS_NAMES[class_of(*s) as usize])).collect::<Vec<_>>().join(",")) };
        format!("{} | {} {} via {}{e}", self.u.key_name(), DELIVERY[self.delivery as usize], CALLS[self.call as usize], FRONTS[self.front as usize])
    }
    /// simplest-first order that does not depend on tier or seed: fewer edits, shorter extension
    /// list, family, default kind, style, state classes, edit classes, delivery, call, front-end
    fn canon_rank(&self) -> u64 {
        let mut r = self.edits.len() as u64;
        r <<= 1; // plain assets before chains
        r = (r << 2) | self.u.n as u64;
        r = (r << 3) | self.u.fam as u64;
        r = (r << 2) | self.u.dv as u64;
        r = (r << 2) | self.u.style as u64;
        for i in 0..3 {
            r = (r << 2) | self.u.states.get(i).map_or(0, |&s| class_of(s)) as u64;
        }
        for k in 0..2 {
            let (i, s) = self.edits.get(k).copied().unwrap_or((0, 0));
            r = (r << 4) | ((i as u64) << 2) | class_of(s) as u64;
        }
        r = (r << 2) | self.delivery as u64;
        r = (r << 2) | self.call as u64;
        (r << 2) | self.front as u64
    }
    fn json(&self) -> Value {
        json!({"what": "asset", "fam": self.u.fam, "n": self.u.n, "dv": self.u.dv, "style": self.u.style, "states": self.u.states, "delivery": self.delivery, "call": self.call, "front": self.front, "edits": self.edits.iter().map(|(i, s)| json!([i, s])).collect::<Vec<_>>()})
    }
}

fn build_world(ids_exts: &[(String, &'static str, Vec<u8>, Vec<u8>)]) -> Mem {
    Mem(Arc::new(World {
        slots: ids_exts.iter().map(|(id, ext, ok, bad)| Slot { id: id.clone(), ext, st: AtomicU8::new(ST_NF), ok: Arc::new(ok.clone()), bad: Arc::new(bad.clone()) }).collect(),
        delivery: AtomicU8::new(0),
        reads: AtomicU64::new(0),
    }))
}

fn preview(b: &[u8]) -> String {
    if b.len() <= 24 {
        format!("{:?}", String::from_utf8_lossy(b))
    } else {
        format!("{:?}.. ({} bytes)", String::from_utf8_lossy(&b[..16]), b.len())
    }
}

type Viol = Vec<(&'static str, String)>;

/// Compare an error observation of a plain asset with the expected class.
fn judge_err(o: &ErrObs, class: Class, kinds: &[io::ErrorKind], id: &str, at: &str, v: &mut Viol) {
    if o.ids.len() != 1 || o.class == Class::Nested {
        v.push(("err_id", format!("{at}: the error of a plain asset wraps further load errors: ids {:?}", o.ids)));
    } else if o.ids[0] != id {
        v.push(("err_id", format!("{at}: the error names id {:?}, requested {:?}", o.ids[0], id)));
    }
    if o.class != class {
        v.push(("err_class", format!("{at}: the error is of class {:?} ({:?}), the best class present is {class:?}", o.class, o.text)));
    } else if class == Class::IoOther && !o.kind.map_or(false, |k| kinds.contains(&k)) {
        v.push(("err_io_kind", format!("{at}: the I/O error kind {:?} was produced by none of the extensions ({kinds:?})", o.kind)));
    }
    if !o.source_same {
        v.push(("err_source", format!("{at}: Error::source() is not the reason()")));
    }
}

fn run_asset_case<T: TA>(c: &CaseA, world: &Mem, contents: &[(Vec<u8>, Vec<u8>, Vec<u8>)], ctx: &mut Ctx) {
    let u = c.u;
    ctx.rank_override = Some(c.canon_rank());
    let mut states = u.states.clone();
    for (i, s) in states.iter().enumerate() {
        world.0.slots[i].st.store(*s, Relaxed);
    }
    world.0.delivery.store(c.delivery, Relaxed);
    let front = Front::new(c.front, world.clone());
    let mark = marker(u.fam);
    let mut cached: Option<Exp> = None;
    let mut v: Viol = vec![];
    let mut sig: Vec<(u8, u8)> = Vec::with_capacity(3);
    let mut trace: Vec<String> = vec![];
    for step in 0..=c.edits.len() {
        if step > 0 {
            let (i, s) = c.edits[step - 1];
            states[i] = s;
            world.0.slots[i].st.store(s, Relaxed);
            ctx.res.transitions += 1;
        }
        let at = if step == 0 { "first call".to_string() } else { format!("call after edit #{step}") };
        // reference
        let served_from_cache = c.call != 1 && cached.is_some();
        let exp = if served_from_cache { cached.clone().unwrap() } else { from_source(&states, u.dv) };
        if c.call != 1 && cached.is_none() && !matches!(exp, Exp::Err(..)) {
            cached = Some(exp.clone());
        }
        let want: Option<&[u8]> = match &exp {
            Exp::Val(i) => Some(&contents[*i].1),
            Exp::Default => Some(&mark),
            Exp::Err(..) => None,
        };
        DV_LOG.with(|l| l.borrow_mut().clear());
        let obs = do_call::<T, (bool, String)>(&front, c.call, ID, |t| t.with_bytes(|b| (Some(b) == want, if Some(b) == want { String::new() } else { preview(b) })));
        ctx.res.transitions += 1;
        ctx.res.states += 1;
        if ctx.verbose {
            let o = match &obs {
                Obs::Val { v, .. } => format!("Ok(matches expected value: {}) {}", v.0, v.1),
                Obs::Err(e) => format!("Err {e:?}"),
                Obs::Panic(m) => format!("panic {m:?}"),
            };
            trace.push(format!("{at}: files [{}] expected {exp:?} observed {o}", states.iter().map(|&s| ST_NAMES[s as usize]).collect::<Vec<_>>().join(",")));
        }
        // judge the result
        match (&obs, &exp) {
            (Obs::Val { v: (ok, got), handle }, Exp::Val(_) | Exp::Default) => {
                sig.push((0, match exp {
                    Exp::Val(i) => i as u8,
                    _ => 9,
                }));
                if !ok {
                    v.push(("value", format!("{at}: got {got}, the source holds {} for the first loadable extension ({exp:?})", preview(want.unwrap()))));
                }
                if let Some((_, hid)) = handle {
                    if hid != ID {
                        v.push(("handle_id", format!("{at}: the handle's id is {hid:?}")));
                    }
                }
            }
            (Obs::Val { v: (_, got), .. }, Exp::Err(class, _)) => {
                sig.push((1, 0));
                v.push(("ok_expected_err", format!("{at}: got a value ({got}) although no extension is loadable and there is no default; expected an error of class {class:?}")));
            }
            (Obs::Err(o), Exp::Err(class, kinds)) => {
                sig.push((2, *class as u8));
                judge_err(o, *class, kinds, ID, &at, &mut v);
                tie_note(o, &states, ctx);
            }
            (Obs::Err(o), _) => {
                sig.push((3, 0));
                v.push(("err_expected_ok", format!("{at}: got error {:?} ({}), expected the value {}", o.class, o.text, preview(want.unwrap()))));
            }
            (Obs::Panic(m), Exp::Err(class, _)) if c.call == 2 => {
                sig.push((4, *class as u8));
                let reason = m.split_once("\": ").map(|x| x.1).unwrap_or("");
                if !m.contains(&format!("\"{ID}\"")) {
                    v.push(("expect_msg", format!("{at}: the load_expect panic does not name the requested id: {m:?}")));
                } else if classify_text(reason) != *class {
                    v.push(("err_class", format!("{at}: load_expect panicked with reason {reason:?} (class {:?}), the best class present is {class:?}", classify_text(reason))));
                }
            }
            (Obs::Panic(m), _) => {
                sig.push((5, 0));
                v.push(("panic", format!("{at}: unexpected panic {m:?}, expected {exp:?}")));
            }
        }
        // default_value: consulted exactly when the source was consulted and nothing was loadable
        if u.dv != 0 {
            let log = DV_LOG.with(|l| l.borrow().clone());
            let consulted = !served_from_cache && !matches!(from_source(&states, 0), Exp::Val(_));
            if consulted {
                let (best, _) = best_class(&states);
                if log.len() != 1 || log[0].0 != ID || log[0].1 != best {
                    v.push(("default_arg", format!("{at}: default_value was called with {log:?}, expected once with id {ID:?} and an error of class {best:?}")));
                }
            } else if !log.is_empty() {
                v.push(("default_arg", format!("{at}: default_value was called ({log:?}) although a file was loadable or the value was cached")));
            }
        }
        // cache afterwards: a failure caches nothing, load_owned caches nothing, a successful load does
        let contains = front.contains::<T>(ID);
        let got_cached = front.get_cached::<T>(ID).map(|h| h as *const Handle<T> as usize);
        ctx.res.transitions += 2;
        if cached.is_none() {
            if contains || got_cached.is_some() {
                v.push(("cached_after_failure", format!("{at}: contains = {contains}, get_cached = {} although no load has succeeded through the cache", if got_cached.is_some() { "Some" } else { "None" })));
            }
        } else {
            if !contains || got_cached.is_none() {
                v.push(("not_cached_after_success", format!("{at}: contains = {contains}, get_cached is {} after a successful load", if got_cached.is_some() { "Some" } else { "None" })));
            }
            if let Obs::Val { handle: Some((addr, _)), .. } = &obs {
                if got_cached != Some(*addr) {
                    v.push(("not_cached_after_success", format!("{at}: get_cached returns a different handle than load")));
                }
            }
        }
        if v.len() > 4 {
            break;
        }
    }
    ctx.res.evaluations += 1;
    ctx.res.traces_validated += 1;
    ctx.res.outcome(&(u.fam, u.n, u.dv, c.call, &sig));
    if ctx.verbose {
        println!("case {}", c.short());
        for t in &trace {
            println!("  {t}");
        }
    }
    if !v.is_empty() {
        let short = c.short();
        let key = c.key();
        let mut seen: Vec<&str> = vec![];
        for (k, d) in v {
            if !seen.contains(&k) {
                seen.push(k);
                ctx.violation(k, &key, format!("{short}: {d}"), c.json());
            }
        }
    }
}

/// Not judged (the property leaves it open): when several extensions fail with the same best
/// class, which one is reported? Counted so that a change of the tie-break is at least visible.
fn tie_note(o: &ErrObs, states: &[u8], ctx: &mut Ctx) {
    if o.class != Class::NotFound && o.class != Class::IoOther {
        return;
    }
    let same: Vec<usize> = states.iter().enumerate().filter(|(_, &s)| if o.class == Class::NotFound { s == ST_NF } else { s >= 3 }).map(|(i, _)| i).collect();
    if same.len() < 2 {
        return;
    }
    let Some(ext) = o.text.rsplit(':').next() else { return };
    let Some(i) = EXT_NAMES.iter().position(|e| *e == ext) else { return };
    let which = if i == same[0] { "first" } else if i == *same.last().unwrap() { "last" } else { "middle" };
    ctx.res.add_note_count(&format!("unjudged_same_class_pick:{}:{which}", if o.class == Class::NotFound { "not-found" } else { "io-other" }), 1);
}

struct Tier {
    thorough: bool,
    seed: u64,
}

/// edits available on a unit: make extension i ok / break it again
fn edit_alphabet(states: &[u8], fam: u8, t: &Tier) -> Vec<(usize, u8)> {
    let mut e = vec![];
    for i in 0..states.len() {
        e.push((i, ST_OK));
    }
    for i in 0..states.len() {
        if t.thorough {
            e.push((i, ST_NF));
            if fam_has_undec(fam) {
                e.push((i, ST_UNDEC));
            }
            e.push((i, 3 + ((i as u64 + t.seed) % 4) as u8));
        } else {
            e.push((i, if states[i] == ST_OK { ST_NF } else { states[i] }));
        }
    }
    e
}

fn edit_seqs(alpha: &[(usize, u8)]) -> Vec<Vec<(usize, u8)>> {
    let mut v = vec![vec![]];
    for &a in alpha {
        v.push(vec![a]);
    }
    for &a in alpha {
        for &b in alpha {
            v.push(vec![a, b]);
        }
    }
    v
}

fn run_unit_a<T: TA>(u: &UnitA, t: &Tier, only: Option<&CaseA>, ctx: &mut Ctx) {
    let contents: Vec<_> = (0..u.n).map(|i| content(u.fam, u.style, i)).collect();
    let world = build_world(&(0..u.n).map(|i| (ID.to_string(), EXT_NAMES[i], contents[i].0.clone(), contents[i].2.clone())).collect::<Vec<_>>());
    if let Some(c) = only {
        run_asset_case::<T>(c, &world, &contents, ctx);
        return;
    }
    let seqs = edit_seqs(&edit_alphabet(&u.states, u.fam, t));
    let mut inner = 0u64;
    // simplest first: no edits before edits; then delivery, call, front-end
    for edits in &seqs {
        for delivery in 0..3u8 {
            for call in 0..3u8 {
                for front in 0..4u8 {
                    ctx.inner = inner;
                    inner += 1;
                    let c = CaseA { u, delivery, call, front, edits };
                    run_asset_case::<T>(&c, &world, &contents, ctx);
                }
            }
        }
    }
    if ctx.res.samples.len() < 2 && u.n == 2 && u.states == [ST_UNDEC, ST_OK] {
        ctx.res.sample(json!({"unit": u.name(), "cases": inner, "expected": format!("{:?}", from_source(&u.states, u.dv))}));
    }
}

macro_rules! by_k {
    ($k:expr, $f:ident, $T:ident, [$($g:tt)*], ($($a:expr),*)) => {
        match $k {
            0 => $f::<$T<0 $($g)*>>($($a),*),
            1 => $f::<$T<1 $($g)*>>($($a),*),
            2 => $f::<$T<2 $($g)*>>($($a),*),
            _ => $f::<$T<3 $($g)*>>($($a),*),
        }
    };
}
macro_rules! by_dv {
    ($dv:expr, $k:expr, $f:ident, $N:ident, $D:ident, $args:tt) => {
        match $dv {
            0 => by_k!($k, $f, $N, [], $args),
            1 => by_k!($k, $f, $D, [, true], $args),
            _ => by_k!($k, $f, $D, [, false], $args),
        }
    };
}
fn dispatch_a(u: &UnitA, t: &Tier, only: Option<&CaseA>, ctx: &mut Ctx) {
    match u.fam {
        0 => by_dv!(u.dv, u.n, run_unit_a, PN, PD, (u, t, only, ctx)),
        1 => by_dv!(u.dv, u.n, run_unit_a, SN, SD, (u, t, only, ctx)),
        2 => by_dv!(u.dv, u.n, run_unit_a, BN, BD, (u, t, only, ctx)),
        3 => by_dv!(u.dv, u.n, run_unit_a, XN, XD, (u, t, only, ctx)),
        4 => by_dv!(u.dv, u.n, run_unit_a, YN, YD, (u, t, only, ctx)),
        _ => by_dv!(u.dv, u.n, run_unit_a, EN, ED, (u, t, only, ctx)),
    }
}

// ---------------------------------------------------------------------------------------------
// compound chains

type Leaf = PN<1>;

trait Chain: Compound {
    fn show(&self) -> String;
    /// contains::<Self>(id), then the same for the children, top first
    fn contains_chain(cache: &Front, id: &str, out: &mut Vec<bool>);
}
impl Chain for Leaf {
    fn show(&self) -> String {
        self.0.to_string()
    }
    fn contains_chain(cache: &Front, id: &str, out: &mut Vec<bool>) {
        out.push(cache.contains::<Self>(id));
    }
}
trait Kind: Send + Sync + 'static {
    const K: u8;
}
struct KLoad;
struct KOwned;
struct KCustom;
impl Kind for KLoad {
    const K: u8 = 0;
}
impl Kind for KOwned {
    const K: u8 = 1;
}
impl Kind for KCustom {
    const K: u8 = 2;
}
const KINDS: [&str; 3] = ["load", "load_owned", "load-then-own-error"];

/// A compound that requests the child with id `<own id>.c` and records what it saw.
struct Node<K, C> {
    text: String,
    _p: PhantomData<fn() -> (K, C)>,
}
impl<K: Kind, C: Chain> Compound for Node<K, C> {
    fn load(cache: AnyCache, id: &SharedString) -> Result<Self, BoxedError> {
        let cid = format!("{id}.c");
        let child = match K::K {
            0 => cache.load::<C>(&cid)?.read().show(),
            1 => cache.load_owned::<C>(&cid)?.show(),
            _ => {
                let s = cache.load::<C>(&cid)?.read().show();
                return Err(Box::new(CustomErr(s)));
            }
        };
        Ok(Node { text: format!("N{}<{id}>({child})", K::K), _p: PhantomData })
    }
}
impl<K: Kind, C: Chain> Chain for Node<K, C> {
    fn show(&self) -> String {
        self.text.clone()
    }
    fn contains_chain(cache: &Front, id: &str, out: &mut Vec<bool>) {
        out.push(cache.contains::<Self>(id));
        C::contains_chain(cache, &format!("{id}.c"), out);
    }
}

#[derive(Clone, Debug)]
struct UnitC {
    /// kinds[0] is the compound directly above the leaf
    kinds: Vec<u8>,
    leaf: u8,
}
impl UnitC {
    fn name(&self) -> String {
        format!("chain {} over leaf[{}]", self.kinds.iter().rev().map(|&k| KINDS[k as usize]).collect::<Vec<_>>().join(" > "), ST_NAMES[self.leaf as usize])
    }
    fn depth(&self) -> usize {
        self.kinds.len()
    }
    /// id of level l (0 = leaf .. depth = top)
    fn id(&self, l: usize) -> String {
        format!("k{}", ".c".repeat(self.depth() - l))
    }
}

#[derive(Clone, Debug, PartialEq)]
enum Terminal {
    Class(Class, Vec<io::ErrorKind>),
    Custom(String),
}
#[derive(Clone, Debug, PartialEq)]
struct ExpErr {
    ids: Vec<String>,
    terminal: Terminal,
}

struct ChainModel<'a> {
    u: &'a UnitC,
    leaf_state: u8,
    leaf_value: String,
    cached: Vec<Option<String>>,
}
impl ChainModel<'_> {
    /// `through_cache`: the request is `load` (served from / stored in the cache), else `load_owned`
    fn eval(&mut self, l: usize, through_cache: bool) -> Result<String, ExpErr> {
        if through_cache {
            if let Some(v) = &self.cached[l] {
                return Ok(v.clone());
            }
        }
        let id = self.u.id(l);
        let r = if l == 0 {
            match from_source(&[self.leaf_state], 0) {
                Exp::Val(_) => Ok(self.leaf_value.clone()),
                Exp::Err(c, k) => Err(ExpErr { ids: vec![id], terminal: Terminal::Class(c, k) }),
                Exp::Default => unreachable!(),
            }
        } else {
            let k = self.u.kinds[l - 1];
            let child = match k {
                1 => self.eval(l - 1, false),
                _ => self.eval(l - 1, true),
            };
            match child {
                Err(mut e) => {
                    e.ids.insert(0, id);
                    Err(e)
                }
                Ok(s) if k == 2 => Err(ExpErr { ids: vec![id], terminal: Terminal::Custom(s) }),
                Ok(s) => Ok(format!("N{k}<{id}>({s})")),
            }
        };
        if through_cache {
            if let Ok(v) = &r {
                self.cached[l] = Some(v.clone());
            }
        }
        r
    }
}

struct CaseC<'a> {
    u: &'a UnitC,
    delivery: u8,
    call: u8,
    front: u8,
    edits: &'a [(usize, u8)],
}
impl CaseC<'_> {
    fn key(&self) -> String {
        let e = if self.edits.is_empty() { String::new() } else { format!(" then leaf:={}", self.edits.iter().map(|(_, s)| CLASS_NAMES[class_of(*s) as usize]).collect::<Vec<_>>().join(",")) };
        format!("chain {} over leaf[{}] | {} {} via {}{e}", self.u.kinds.iter().rev().map(|&k| KINDS[k as usize]).collect::<Vec<_>>().join(" > "), CLASS_NAMES[class_of(self.u.leaf) as usize], DELIVERY[self.delivery as usize], CALLS[self.call as usize], FRONTS[self.front as usize])
    }
    fn canon_rank(&self) -> u64 {
        let mut r = self.edits.len() as u64;
        r = (r << 1) | 1;
        r = (r << 2) | self.u.depth() as u64;
        for i in 0..3 {
            r = (r << 2) | self.u.kinds.get(i).copied().unwrap_or(0) as u64;
        }
        r = (r << 2) | class_of(self.u.leaf) as u64;
        for k in 0..2 {
            r = (r << 2) | self.edits.get(k).map_or(0, |e| class_of(e.1)) as u64;
        }
        r <<= 9; // same width as the plain-asset rank
        r = (r << 2) | self.delivery as u64;
        r = (r << 2) | self.call as u64;
        (r << 2) | self.front as u64
    }
    fn short(&self) -> String {
        let e = if self.edits.is_empty() { String::new() } else { format!(" then leaf:={}", self.edits.iter().map(|(_, s)| ST_NAMES[*s as usize]).collect::<Vec<_>>().join(",")) };
        format!("{} | {} {} via {}{e}", self.u.name(), DELIVERY[self.delivery as usize], CALLS[self.call as usize], FRONTS[self.front as usize])
    }
    fn json(&self) -> Value {
        json!({"what": "chain", "kinds": self.u.kinds, "leaf": self.u.leaf, "delivery": self.delivery, "call": self.call, "front": self.front, "edits": self.edits.iter().map(|(i, s)| json!([i, s])).collect::<Vec<_>>()})
    }
}

fn run_chain_case<T: Chain>(c: &CaseC, world: &Mem, ctx: &mut Ctx) {
    let u = c.u;
    let d = u.depth();
    ctx.rank_override = Some(c.canon_rank());
    world.0.slots[0].st.store(u.leaf, Relaxed);
    world.0.delivery.store(c.delivery, Relaxed);
    let front = Front::new(c.front, world.clone());
    let top = u.id(d);
    let mut model = ChainModel { u, leaf_state: u.leaf, leaf_value: "10".into(), cached: vec![None; d + 1] };
    let mut v: Viol = vec![];
    let mut sig: Vec<(u8, usize)> = vec![];
    let mut trace = vec![];
    for step in 0..=c.edits.len() {
        if step > 0 {
            let s = c.edits[step - 1].1;
            model.leaf_state = s;
            world.0.slots[0].st.store(s, Relaxed);
            ctx.res.transitions += 1;
        }
        let at = if step == 0 { "first call".to_string() } else { format!("call after edit #{step}") };
        let exp = model.eval(d, c.call != 1);
        let obs = do_call::<T, String>(&front, c.call, &top, |t| t.show());
        ctx.res.transitions += 1;
        ctx.res.states += 1;
        if ctx.verbose {
            let o = match &obs {
                Obs::Val { v, .. } => format!("Ok({v})"),
                Obs::Err(e) => format!("Err {e:?}"),
                Obs::Panic(m) => format!("panic {m:?}"),
            };
            trace.push(format!("{at}: leaf file [{}] expected {exp:?} observed {o}", ST_NAMES[model.leaf_state as usize]));
        }
        match (&obs, &exp) {
            (Obs::Val { v: got, handle }, Ok(want)) => {
                sig.push((0, 0));
                if got != want {
                    v.push(("compound_value", format!("{at}: the compound's value is {got:?}, its load function computes {want:?} from the source")));
                }
                if let Some((_, hid)) = handle {
                    if *hid != top {
                        v.push(("handle_id", format!("{at}: the handle's id is {hid:?}")));
                    }
                }
            }
            (Obs::Val { v: got, .. }, Err(e)) => {
                sig.push((1, 0));
                v.push(("ok_expected_err", format!("{at}: got the value {got:?}, expected the error chain {e:?}")));
            }
            (Obs::Err(o), Err(e)) => {
                sig.push((2, e.ids.len()));
                if o.ids != e.ids {
                    v.push(("compound_err_ids", format!("{at}: the ids along the reason chain are {:?}, expected {:?} (each compound wraps the inner error with its own id)", o.ids, e.ids)));
                }
                match &e.terminal {
                    Terminal::Class(cl, kinds) => {
                        if o.class != *cl {
                            v.push(("compound_err_reason", format!("{at}: the innermost reason is of class {:?} ({:?}), expected {cl:?}", o.class, o.text)));
                        } else if *cl == Class::IoOther && !o.kind.map_or(false, |k| kinds.contains(&k)) {
                            v.push(("err_io_kind", format!("{at}: innermost I/O error kind {:?}, the leaf file fails with {kinds:?}", o.kind)));
                        }
                    }
                    Terminal::Custom(s) => {
                        if o.class != Class::Custom || o.text != format!("custom-err:{s}") {
                            v.push(("compound_err_reason", format!("{at}: the innermost reason is {:?} ({:?}), expected the compound's own error custom-err:{s}", o.class, o.text)));
                        }
                    }
                }
                if !o.source_same {
                    v.push(("err_source", format!("{at}: Error::source() does not walk the reason() chain")));
                }
            }
            (Obs::Err(o), Ok(want)) => {
                sig.push((3, 0));
                v.push(("err_expected_ok", format!("{at}: got error ids {:?} {:?} ({}), expected the value {want:?}", o.ids, o.class, o.text)));
            }
            (Obs::Panic(m), Err(_)) if c.call == 2 => {
                sig.push((4, 0));
                if !m.contains(&format!("\"{top}\"")) {
                    v.push(("expect_msg", format!("{at}: the load_expect panic does not name the requested id {top:?}: {m:?}")));
                }
            }
            (Obs::Panic(m), _) => {
                sig.push((5, 0));
                v.push(("panic", format!("{at}: unexpected panic {m:?}, expected {exp:?}")));
            }
        }
        // what is cached at every level afterwards (top first)
        let mut have = vec![];
        T::contains_chain(&front, &top, &mut have);
        ctx.res.transitions += have.len() as u64;
        let want: Vec<bool> = (0..=d).rev().map(|l| model.cached[l].is_some()).collect();
        if have != want {
            let kind = if want.iter().zip(&have).any(|(w, h)| !*w && *h) { "cached_after_failure" } else { "not_cached_after_success" };
            v.push((kind, format!("{at}: contains along the chain (top first) is {have:?}, expected {want:?}")));
        }
        if v.len() > 4 {
            break;
        }
    }
    ctx.res.evaluations += 1;
    ctx.res.traces_validated += 1;
    ctx.res.outcome(&("chain", &u.kinds, c.call, &sig));
    if ctx.verbose {
        println!("case {}", c.short());
        for t in &trace {
            println!("  {t}");
        }
    }
    if !v.is_empty() {
        let short = c.short();
        let key = c.key();
        let mut seen: Vec<&str> = vec![];
        for (k, d) in v {
            if !seen.contains(&k) {
                seen.push(k);
                ctx.violation(k, &key, format!("{short}: {d}"), c.json());
            }
        }
    }
}

struct ChainRun<'a, 'b> {
    u: &'a UnitC,
    t: &'a Tier,
    only: Option<&'a CaseC<'a>>,
    ctx: &'b mut Ctx,
}
impl ChainRun<'_, '_> {
    fn call<T: Chain>(self) {
        let u = self.u;
        let (ok, _, bad) = content(0, 0, 0);
        let world = build_world(&[(u.id(0), "a", ok, bad)]);
        if let Some(c) = self.only {
            run_chain_case::<T>(c, &world, self.ctx);
            return;
        }
        let seqs = edit_seqs(&edit_alphabet(&[u.leaf], 0, self.t));
        let mut inner = 0;
        for edits in &seqs {
            for delivery in 0..3u8 {
                for call in 0..3u8 {
                    for front in 0..4u8 {
                        self.ctx.inner = inner;
                        inner += 1;
                        run_chain_case::<T>(&CaseC { u, delivery, call, front, edits }, &world, self.ctx);
                    }
                }
            }
        }
        if self.ctx.res.samples.len() < 3 && u.kinds == [0, 2, 0] && u.leaf == ST_OK {
            self.ctx.res.sample(json!({"unit": u.name(), "cases": inner}));
        }
    }
}
fn d1<C: Chain>(k: &[u8], r: ChainRun) {
    match k[k.len() - 1] {
        0 => r.call::<Node<KLoad, C>>(),
        1 => r.call::<Node<KOwned, C>>(),
        _ => r.call::<Node<KCustom, C>>(),
    }
}
fn d2<C: Chain>(k: &[u8], r: ChainRun) {
    match k[k.len() - 2] {
        0 => d1::<Node<KLoad, C>>(k, r),
        1 => d1::<Node<KOwned, C>>(k, r),
        _ => d1::<Node<KCustom, C>>(k, r),
    }
}
fn d3<C: Chain>(k: &[u8], r: ChainRun) {
    match k[k.len() - 3] {
        0 => d2::<Node<KLoad, C>>(k, r),
        1 => d2::<Node<KOwned, C>>(k, r),
        _ => d2::<Node<KCustom, C>>(k, r),
    }
}
fn dispatch_c(u: &UnitC, t: &Tier, only: Option<&CaseC>, ctx: &mut Ctx) {
    let r = ChainRun { u, t, only, ctx };
    match u.kinds.len() {
        1 => d1::<Leaf>(&u.kinds, r),
        2 => d2::<Leaf>(&u.kinds, r),
        _ => d3::<Leaf>(&u.kinds, r),
    }
}

// ---------------------------------------------------------------------------------------------
// enumeration

#[derive(Clone, Debug)]
enum Unit {
    A(UnitA),
    C(UnitC),
}

fn state_vectors(n: usize, alphabet: &[u8]) -> Vec<Vec<u8>> {
    let mut out = vec![vec![]];
    for _ in 0..n {
        let mut next = vec![];
        for v in &out {
            for &a in alphabet {
                let mut w: Vec<u8> = v.clone();
                w.push(a);
                next.push(w);
            }
        }
        out = next;
    }
    out
}

fn units(args: &Args) -> Vec<Unit> {
    let thorough = args.thorough();
    let mut v = vec![];
    for n in 0..=3usize {
        for fam in 0..6u8 {
            // the SharedString / SharedBytes loader paths get the lists of length <= 2
            if (fam == 3 || fam == 4) && n > 2 {
                continue;
            }
            for dv in 0..3u8 {
                for style in 0..style_names(fam).len() as u8 {
                    let big = style_names(fam)[style as usize] == "64KiB";
                    if big && !thorough && n > 2 {
                        continue;
                    }
                    // read_exact family: the second style (trailing bytes, empty file) on lists <= 2
                    if fam == 5 && style == 1 && n > 2 {
                        continue;
                    }
                    // per-extension states: thorough = all 7 (6 without "undecodable"); quick = the
                    // 4 (3) classes with the I/O kind chosen per extension (rotated by the seed)
                    let vectors: Vec<Vec<u8>> = if thorough {
                        let alpha: Vec<u8> = (0..7u8).filter(|&s| s != ST_UNDEC || fam_has_undec(fam)).collect();
                        state_vectors(n, &alpha)
                    } else {
                        let alpha: Vec<u8> = [0u8, 1, 2, 3].into_iter().filter(|&s| s != ST_UNDEC || fam_has_undec(fam)).collect();
                        state_vectors(n, &alpha).into_iter().map(|w| w.iter().enumerate().map(|(i, &s)| if s == 3 { 3 + ((i as u64 + args.seed) % 4) as u8 } else { s }).collect()).collect()
                    };
                    for states in vectors {
                        v.push(Unit::A(UnitA { fam, n, dv, style, states }));
                    }
                }
            }
        }
        if n == 1 {
            // compound chains of depth 1..3 over a single-extension leaf
            for depth in 1..=3usize {
                for kinds in state_vectors(depth, &[0, 1, 2]) {
                    for leaf in 0..7u8 {
                        v.push(Unit::C(UnitC { kinds: kinds.clone(), leaf }));
                    }
                }
            }
        }
    }
    v
}

pub fn plan(args: &Args) -> Plan<'_> {
    let us = units(args);
    let us2 = us.clone();
    let tier = Tier { thorough: args.thorough(), seed: args.seed };
    Plan {
        total: us.len(),
        name_of: Box::new(move |i| match &us2[i] {
            Unit::A(u) => u.name(),
            Unit::C(u) => u.name(),
        }),
        run: Box::new(move |i, ctx| {
            if ctx.res.bound.is_empty() {
                ctx.res.bound = format!(
                    "6 loader families (incl. one whose decode error is a std::io::Error of kind UnexpectedEof) x extension lists of length 0..3 (SharedString/SharedBytes: 0..2) x {{no default_value, Ok(marker), Err(other)}} x content styles (plain, whitespace-padded, empty, 64 KiB{}, non-UTF-8) x every assignment of {} to the extensions x delivery {{Slice, Buffer, Owned}} x {{load, load_owned, load_expect}} x 4 front-ends x every edit sequence of length <= 2 over {{make ext i ok, break ext i{}}}; compound chains: every depth 1..3 x {{load, load_owned, load-then-own-error}}^depth x 7 leaf states x the same calls and edit sequences",
                    if tier.thorough { "" } else { " (lists <= 2)" },
                    if tier.thorough { "{ok, not-found, undecodable, PermissionDenied, Interrupted, InvalidData, Other}" } else { "{ok, not-found, undecodable, I/O-other (kind per extension rotated by the seed)}" },
                    if tier.thorough { " as not-found / undecodable / I/O-other" } else { " as it was" }
                );
                ctx.res.rule = "cases = (type, file states, content style, delivery, call, front-end, edit sequence), every result compared with the reference; enumerated by list length, then family, default, style, states, edits, delivery, call, front-end; distinct = (family, list length, default kind, call, per-step outcome class and chosen extension)".into();
            }
            match &us[i] {
                Unit::A(u) => dispatch_a(u, &tier, None, ctx),
                Unit::C(u) => dispatch_c(u, &tier, None, ctx),
            }
        }),
    }
}

fn edits_of(case: &Value) -> Vec<(usize, u8)> {
    case["edits"].as_array().map(|a| a.iter().map(|e| (e[0].as_u64().unwrap_or(0) as usize, e[1].as_u64().unwrap_or(0) as u8)).collect()).unwrap_or_default()
}

pub fn replay(case: &Value, ctx: &mut Ctx) {
    let tier = Tier { thorough: false, seed: 0 };
    let g = |k: &str| case[k].as_u64().unwrap_or(0);
    let edits = edits_of(case);
    if case["what"] == "chain" {
        let kinds: Vec<u8> = case["kinds"].as_array().map(|a| a.iter().map(|x| (x.as_u64().unwrap_or(0) as u8).min(2)).collect()).unwrap_or_default();
        if kinds.is_empty() || kinds.len() > 3 {
            eprintln!("MACHINERY: bad chain depth in replay file");
            std::process::exit(2);
        }
        let u = UnitC { kinds, leaf: (g("leaf") as u8).min(6) };
        let c = CaseC { u: &u, delivery: (g("delivery") as u8).min(2), call: (g("call") as u8).min(2), front: (g("front") as u8).min(3), edits: &edits };
        dispatch_c(&u, &tier, Some(&c), ctx);
    } else {
        let states: Vec<u8> = case["states"].as_array().map(|a| a.iter().map(|x| (x.as_u64().unwrap_or(0) as u8).min(6)).collect()).unwrap_or_default();
        let fam = (g("fam") as u8).min(5);
        let u = UnitA { fam, n: states.len().min(3), dv: (g("dv") as u8).min(2), style: (g("style") as u8).min(style_names(fam).len() as u8 - 1), states };
        if edits.iter().any(|(i, _)| *i >= u.n) || u.states.len() > 3 {
            eprintln!("MACHINERY: bad edit / state list in replay file");
            std::process::exit(2);
        }
        let c = CaseA { u: &u, delivery: (g("delivery") as u8).min(2), call: (g("call") as u8).min(2), front: (g("front") as u8).min(3), edits: &edits };
        dispatch_a(&u, &tier, Some(&c), ctx);
    }
}
