//! `valmc`: bounded-exhaustive *input / sequential-history* checks on the real crate
//! (the E2-shaped parts of C03, C16, C17; see /verif/DESIGN.md §2.2 and §3).
//!
//! Every sub-check enumerates a finite space completely (no sampling), compares each observation
//! with a reference written from the property text, and runs in worker *processes* so that a
//! crash (segfault, abort, double panic) of the code under test is a reported violation, not a
//! machinery failure.
mod alloc;
mod c03;
mod c16;
mod c17;

use serde_json::{json, Value};
use std::io::Write;
use std::os::unix::fs::FileExt;
use std::time::{Duration, Instant};
use vcommon::{Args, SubResult};

#[global_allocator]
static LEDGER: alloc::Ledger = alloc::Ledger;

/// What a sub-check hands to the runner: `total` independent units, enumerated simplest-first.
pub struct Plan<'a> {
    pub total: usize,
    pub name_of: Box<dyn Fn(usize) -> String + 'a>,
    pub run: Box<dyn FnMut(usize, &mut Ctx) + 'a>,
}

/// Per-worker context: result accumulator + fine-grained progress marker (for crash attribution).
pub struct Ctx {
    pub res: SubResult,
    pub sub: &'static str,
    pub unit: usize,
    pub inner: u64,
    pub verbose: bool,
    pub reproduced: u64,
    /// canonical (tier- and seed-independent) complexity rank of the current case, if the sub-check defines one
    pub rank_override: Option<u64>,
    prog: Option<std::fs::File>,
}

impl Ctx {
    pub fn new(sub: &'static str, property: &str) -> Ctx {
        Ctx { res: SubResult::new(property, sub), sub, unit: 0, inner: 0, verbose: false, reproduced: 0, rank_override: None, prog: None }
    }
    /// rank of the current case in the global enumeration order
    pub fn rank(&self) -> u64 {
        if let Some(r) = self.rank_override {
            return r;
        }
        ((self.unit as u64) << 24) | self.inner.min((1 << 24) - 1)
    }
    /// Record a violation. `kind` names the violated oracle clause (stable); `case` is the complete
    /// case description (what `--replay` needs), `short` its compact form for the witness key.
    pub fn violation(&mut self, kind: &str, short: &str, desc: String, case: Value) {
        self.reproduced += 1;
        if self.verbose {
            println!("  VIOLATION {kind}: {desc}");
        }
        let rank = self.rank();
        let replay = json!({"sub": self.sub, "kind": kind, "short": short, "case": case});
        self.res.violation_ranked(kind.to_string(), desc, replay, rank);
    }
    /// Mark the case that is about to run (only used by sub-checks whose cases may crash).
    pub fn progress(&mut self, short: &str) {
        if let Some(f) = &self.prog {
            let mut buf = [b' '; 200];
            let s = format!("{} {}", self.unit, short);
            let n = s.len().min(199);
            buf[..n].copy_from_slice(&s.as_bytes()[..n]);
            buf[199] = b'\n';
            let _ = f.write_all_at(&buf, 0);
        }
    }
    pub fn say(&self, s: impl AsRef<str>) {
        if self.verbose {
            println!("  {}", s.as_ref());
        }
    }
}

fn arg_after(rest: &[String], flag: &str) -> Option<String> {
    rest.iter().position(|x| x == flag).and_then(|i| rest.get(i + 1).cloned())
}

fn plan_for<'a>(sub: &str, args: &'a Args) -> (Ctx, Plan<'a>) {
    match sub {
        "c03_load" => (Ctx::new("c03_load", "C03"), c03::plan(args)),
        "c16_shared" => (Ctx::new("c16_shared", "C16"), c16::plan(args)),
        "c17_cell_seq" => (Ctx::new("c17_cell_seq", "C17"), c17::plan(args)),
        s => {
            eprintln!("unknown subcheck {s}");
            std::process::exit(2)
        }
    }
}

fn silence_panics() {
    std::panic::set_hook(Box::new(|_| {}));
}

/// Worker: run the owned units, write the partial result, exit 0.
fn worker(args: &Args, k: usize, n: usize) -> ! {
    let (mut ctx, mut plan) = plan_for(&args.subcheck, args);
    let skip: Vec<usize> = arg_after(&args.rest, "--skip").map(|s| s.split(',').filter_map(|x| x.parse().ok()).collect()).unwrap_or_default();
    let out = args.out.clone().expect("--out required for workers");
    ctx.prog = std::fs::File::create(format!("{out}.prog")).ok();
    let t0 = Instant::now();
    for idx in (0..plan.total).filter(|i| i % n == k) {
        if skip.contains(&idx) {
            continue;
        }
        ctx.unit = idx;
        ctx.inner = 0;
        ctx.rank_override = None;
        ctx.progress("");
        let r = std::panic::catch_unwind(std::panic::AssertUnwindSafe(|| (plan.run)(idx, &mut ctx)));
        if let Err(p) = r {
            let msg = p.downcast_ref::<String>().cloned().or_else(|| p.downcast_ref::<&str>().map(|s| s.to_string())).unwrap_or_else(|| "<non-string payload>".into());
            let name = (plan.name_of)(idx);
            ctx.violation("panic_escaped", &name, format!("a panic escaped unit {name}: {msg}"), json!({"unit": idx, "tier": args.tier, "seed": args.seed}));
        }
    }
    if alloc::OVERFLOW.load(std::sync::atomic::Ordering::Relaxed) {
        eprintln!("MACHINERY: allocator ledger table overflowed");
        std::process::exit(2);
    }
    ctx.res.wall_s = t0.elapsed().as_secs_f64();
    ctx.res.write(&out);
    std::process::exit(0)
}

fn spawn_worker(args: &Args, k: usize, n: usize, out: &std::path::Path, skip: &[usize]) -> std::process::Child {
    let exe = std::env::current_exe().unwrap();
    let mut cmd = std::process::Command::new(exe);
    cmd.arg(&args.subcheck).arg("--tier").arg(&args.tier).arg("--seed").arg(args.seed.to_string()).arg("--worker").arg(format!("{k}/{n}")).arg("--out").arg(out);
    if !skip.is_empty() {
        cmd.arg("--skip").arg(skip.iter().map(|x| x.to_string()).collect::<Vec<_>>().join(","));
    }
    cmd.stderr(std::process::Stdio::inherit()).stdout(std::process::Stdio::null());
    cmd.spawn().unwrap_or_else(|e| {
        eprintln!("MACHINERY: spawn worker: {e}");
        std::process::exit(2)
    })
}

/// Parent: partition the units over worker processes; a worker that dies (signal, abort) yields a
/// `crash` violation for the case it was executing and is restarted without that unit.
fn parent(args: &Args) -> SubResult {
    let t0 = Instant::now();
    let (ctx, plan) = plan_for(&args.subcheck, args);
    let sub = ctx.sub;
    let mut res = ctx.res;
    let total = plan.total;
    let n = args.jobs.min(total).max(1);
    let dir = std::env::temp_dir().join(format!("valmc-{}-{}", std::process::id(), args.subcheck));
    std::fs::create_dir_all(&dir).unwrap_or_else(|e| {
        eprintln!("MACHINERY: cannot create {dir:?}: {e}");
        std::process::exit(2)
    });
    let timeout = Duration::from_secs(if args.thorough() { 3600 } else { 300 });
    struct W {
        k: usize,
        child: std::process::Child,
        out: std::path::PathBuf,
        skip: Vec<usize>,
        done: bool,
    }
    let mut ws: Vec<W> = (0..n)
        .map(|k| {
            let out = dir.join(format!("w{k}.json"));
            W { k, child: spawn_worker(args, k, n, &out, &[]), out, skip: vec![], done: false }
        })
        .collect();
    let mut crashes = 0u64;
    while ws.iter().any(|w| !w.done) {
        let mut progressed = false;
        for w in ws.iter_mut().filter(|w| !w.done) {
            let status = match w.child.try_wait() {
                Ok(Some(s)) => s,
                Ok(None) => continue,
                Err(e) => {
                    eprintln!("MACHINERY: wait: {e}");
                    std::process::exit(2)
                }
            };
            progressed = true;
            if status.success() {
                let txt = std::fs::read(&w.out).unwrap_or_else(|e| {
                    eprintln!("MACHINERY: worker output missing: {e}");
                    std::process::exit(2)
                });
                let part: SubResult = serde_json::from_slice(&txt).unwrap_or_else(|e| {
                    eprintln!("MACHINERY: worker output unreadable: {e}");
                    std::process::exit(2)
                });
                res.merge(part);
                w.done = true;
                continue;
            }
            if status.code() == Some(2) {
                eprintln!("MACHINERY: worker {} of {} reported a machinery failure", w.k, args.subcheck);
                std::process::exit(2);
            }
            // crashed: which case?
            let prog = std::fs::read_to_string(format!("{}.prog", w.out.display())).unwrap_or_default();
            let line = prog.lines().next().unwrap_or("").trim().to_string();
            let (unit_s, short) = line.split_once(' ').unwrap_or((line.as_str(), ""));
            let Ok(unit) = unit_s.parse::<usize>() else {
                eprintln!("MACHINERY: worker {} of {} died ({status}) before starting a unit", w.k, args.subcheck);
                std::process::exit(2);
            };
            crashes += 1;
            let name = if short.is_empty() { (plan.name_of)(unit) } else { short.to_string() };
            let replay = json!({"sub": sub, "kind": "crash", "short": name, "case": {"unit": unit, "tier": args.tier, "seed": args.seed}});
            res.violation_ranked("crash".into(), format!("the process died ({status}) while executing case `{name}` (unit {unit} = {})", (plan.name_of)(unit)), replay, (unit as u64) << 24);
            w.skip.push(unit);
            if w.skip.len() > 6 {
                res.cap(format!("worker {} crashed more than 6 times; its remaining units were not run", w.k));
                w.done = true;
                continue;
            }
            w.child = spawn_worker(args, w.k, n, &w.out, &w.skip);
        }
        if t0.elapsed() > timeout {
            for w in ws.iter_mut() {
                let _ = w.child.kill();
            }
            eprintln!("MACHINERY: {} timed out after {timeout:?}", args.subcheck);
            std::process::exit(2);
        }
        if !progressed {
            std::thread::sleep(Duration::from_millis(10));
        }
    }
    let _ = std::fs::remove_dir_all(&dir);
    // final witness keys: `<subcheck>:<violated clause>[<1-minimal case in enumeration order>]`
    for v in res.violations.iter_mut() {
        let short = v.replay.get("short").and_then(|s| s.as_str()).unwrap_or("").to_string();
        v.key = format!("{sub}:{}[{short}]", v.key);
    }
    res.violations.sort_by_key(|v| v.rank);
    res.note("units", json!(total));
    res.note("worker_processes", json!(n));
    res.note("crashed_workers", json!(crashes));
    res.wall_s = t0.elapsed().as_secs_f64();
    res
}

/// `--replay FILE`: re-execute the witness in a child (it may crash), print what was observed.
fn replay(path: &str) -> ! {
    let exe = std::env::current_exe().unwrap();
    let st = std::process::Command::new(exe).arg("--replay-child").arg(path).status().unwrap_or_else(|e| {
        eprintln!("MACHINERY: {e}");
        std::process::exit(2)
    });
    match st.code() {
        Some(0) => {
            println!("no violation reproduced");
            std::process::exit(0)
        }
        Some(1) => std::process::exit(1),
        Some(2) => std::process::exit(2),
        _ => {
            println!("REPRODUCED crash: the replay process died with {st}");
            std::process::exit(1)
        }
    }
}

fn replay_child(path: &str) -> ! {
    let v: Value = serde_json::from_slice(&std::fs::read(path).unwrap_or_else(|e| {
        eprintln!("MACHINERY: cannot read {path}: {e}");
        std::process::exit(2)
    }))
    .unwrap_or_else(|e| {
        eprintln!("MACHINERY: {path} is not JSON: {e}");
        std::process::exit(2)
    });
    let r = if v.get("replay").is_some() { v["replay"].clone() } else { v.clone() };
    let sub = r["sub"].as_str().or_else(|| v["subcheck"].as_str()).unwrap_or("").to_string();
    let case = r["case"].clone();
    println!("replay sub={sub} kind={} case={}", r["kind"], case);
    let mut args = vcommon::parse_args();
    args.subcheck = sub.clone();
    args.rest.clear();
    let mut ctx;
    if let Some(unit) = case.get("unit").and_then(|u| u.as_u64()) {
        // unit-level witness (crash / escaped panic): run the whole unit
        args.tier = case["tier"].as_str().unwrap_or("quick").to_string();
        args.seed = case["seed"].as_u64().unwrap_or(0);
        let (c, mut plan) = plan_for(&sub, &args);
        ctx = c;
        ctx.verbose = true;
        ctx.unit = unit as usize;
        println!("unit {unit} = {}", (plan.name_of)(unit as usize));
        (plan.run)(unit as usize, &mut ctx);
    } else {
        ctx = match sub.as_str() {
            "c03_load" => Ctx::new("c03_load", "C03"),
            "c16_shared" => Ctx::new("c16_shared", "C16"),
            "c17_cell_seq" => Ctx::new("c17_cell_seq", "C17"),
            s => {
                eprintln!("MACHINERY: unknown subcheck {s} in replay file");
                std::process::exit(2)
            }
        };
        ctx.verbose = true;
        match sub.as_str() {
            "c03_load" => c03::replay(&case, &mut ctx),
            "c16_shared" => c16::replay(&case, &mut ctx),
            _ => c17::replay(&case, &mut ctx),
        }
    }
    let _ = std::io::stdout().flush();
    if ctx.reproduced > 0 {
        println!("REPRODUCED {} violation(s): {}", ctx.reproduced, ctx.res.violations.iter().map(|v| v.key.clone()).collect::<Vec<_>>().join(", "));
        std::process::exit(1)
    }
    std::process::exit(0)
}

fn main() {
    silence_panics();
    let args = vcommon::parse_args();
    if let Some(p) = &args.replay {
        replay(p);
    }
    let raw: Vec<String> = std::env::args().collect();
    if let Some(p) = arg_after(&raw, "--replay-child") {
        replay_child(&p);
    }
    if let Some((k, n)) = args.worker {
        worker(&args, k, n);
    }
    if !["c03_load", "c16_shared", "c17_cell_seq"].contains(&args.subcheck.as_str()) {
        eprintln!("usage: valmc c03_load|c16_shared|c17_cell_seq --tier quick|thorough --seed N --out FILE | valmc --replay FILE");
        std::process::exit(2);
    }
    let res = parent(&args);
    match &args.out {
        Some(o) => res.write(o),
        None => {
            let mut r = res.clone();
            r.distinct.clear();
            println!("{}", serde_json::to_string_pretty(&r).unwrap());
            println!("distinct={}", res.distinct.len());
        }
    }
}
