//! `seqmc2`: the map/ledger/growth checks of `seqmc` compiled against the crate built with
//! `--no-default-features --features hot-reloading,parking_lot,utils` (real parking_lot, std hasher).
#[path = "../../ws-seq/src/c01g.rs"]
mod c01g;
#[path = "../../ws-seq/src/c02.rs"]
mod c02;
#[path = "../../ws-seq/src/ledger.rs"]
mod ledger;

fn main() {
    std::panic::set_hook(Box::new(|_| {}));
    let args = vcommon::parse_args();
    if let Some(p) = &args.replay {
        let v: serde_json::Value = serde_json::from_slice(&std::fs::read(p).expect("replay file")).expect("json");
        let r = if v.get("replay").is_some() { v["replay"].clone() } else { v };
        std::process::exit(match r["harness"].as_str().unwrap_or("") {
            "c02" => c02::replay(&r),
            _ => 2,
        });
    }
    let res = match args.subcheck.as_str() {
        "c02_map" => c02::run(&args, "C02"),
        "c13_history" => c02::run(&args, "C13"),
        "c01_growth" => c01g::run(&args),
        s => {
            eprintln!("unknown subcheck {s}");
            std::process::exit(2)
        }
    };
    match &args.out {
        Some(o) => res.write(o),
        None => println!("{}", serde_json::to_string_pretty(&res).unwrap()),
    }
}
