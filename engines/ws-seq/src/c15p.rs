//! C15 binding run on the REAL build (real crossbeam, real notify, real threads): the model's
//! verdict "the reloader is blocked when idle and gone after the drop" is compared with what the
//! kernel says about threads named `assets_hot_relo…` (/proc/self/task/*/{comm,stat}).
//! This is the property's own observation point; it is a binding check of the E1 model, the
//! exhaustive part is `c15_lifecycle`.
use crate::c02::MapSrc;
use assets_manager::{source::OwnedDirEntry, AssetCache};
use serde_json::json;
use std::collections::BTreeMap;
use std::sync::Arc;
use std::time::Duration;
use vcommon::{Args, SubResult};

/// (tid, state, utime+stime) of every thread of this process whose name starts with assets_hot_relo
fn reloaders() -> Vec<(u64, char, u64)> {
    let mut v = vec![];
    if let Ok(rd) = std::fs::read_dir("/proc/self/task") {
        for e in rd.flatten() {
            let p = e.path();
            let comm = std::fs::read_to_string(p.join("comm")).unwrap_or_default();
            if !comm.starts_with("assets_hot_relo") {
                continue;
            }
            let stat = std::fs::read_to_string(p.join("stat")).unwrap_or_default();
            // fields after the ")" of comm: state is #1, utime #12, stime #13
            if let Some(rest) = stat.rsplit_once(')').map(|x| x.1) {
                let f: Vec<&str> = rest.split_whitespace().collect();
                let state = f.first().and_then(|s| s.chars().next()).unwrap_or('?');
                let ticks = f.get(11).and_then(|s| s.parse::<u64>().ok()).unwrap_or(0) + f.get(12).and_then(|s| s.parse::<u64>().ok()).unwrap_or(0);
                v.push((e.file_name().to_string_lossy().parse().unwrap_or(0), state, ticks));
            }
        }
    }
    v
}

fn busy(res: &mut SubResult, when: &str, what: serde_json::Value) {
    // samples 120 ms apart: a reloader thread that is runnable or accumulates CPU time in EVERY one
    // of 12 consecutive windows is busy (a single window can be scheduling noise on a loaded machine)
    let mut worst: Option<(u64, char, u64)> = None;
    for _ in 0..12 {
        let a = reloaders();
        std::thread::sleep(Duration::from_millis(120));
        let b = reloaders();
        let mut any = None;
        for (tid, st, t1) in &b {
            let t0 = a.iter().find(|x| x.0 == *tid).map(|x| x.2).unwrap_or(*t1);
            if *st == 'R' || t1 > &(t0 + 1) {
                any = Some((*tid, *st, t1 - t0));
            }
        }
        match any {
            None => return,
            Some(x) => worst = Some(x),
        }
    }
    if let Some((tid, st, dt)) = worst {
        res.violation(format!("c15_proc:busy:{when}"), format!("{when}: reloader thread {tid} was in state {st} / used {dt} clock ticks per 120 ms in 12 consecutive samples"), what);
    }
}

pub fn run(_args: &Args) -> SubResult {
    let mut res = SubResult::new("C15", "c15_proc");
    res.bound = "real build: source kinds {in-memory keeping its sender, in-memory dropping its sender, FileSystem with the real notify watcher} x use sequences {nothing, load, load+hot_reload, event+hot_reload} x 1..3 create/drop cycles; thread names, states and CPU ticks sampled from /proc twice, 120 ms apart".into();
    res.rule = "binding run (not the deciding step): while idle and after the drop no thread named assets_hot_relo* may be runnable or accumulate CPU time; after K create/drop cycles no such thread may be left".into();
    let mut files = BTreeMap::new();
    files.insert(("k".to_string(), "a".to_string()), b"7".to_vec());
    let files = Arc::new(files);
    let tmp = std::env::temp_dir().join(format!("c15p-{}", std::process::id()));
    let _ = std::fs::create_dir_all(&tmp);
    std::fs::write(tmp.join("k.txt"), "v1").unwrap();
    for kind in ["mem", "mem-drop", "fs"] {
        for seq in [vec![], vec!["load"], vec!["load", "hot_reload"], vec!["load", "event", "hot_reload"]] {
            for cycles in 1..=3usize {
                let what = json!({"engine": "seqmc", "harness": "c15p", "kind": kind, "seq": seq, "cycles": cycles});
                for _ in 0..cycles {
                    macro_rules! body {
                        ($c:expr, $ev:expr) => {{
                            let c = $c;
                            for op in &seq {
                                match *op {
                                    "load" => {
                                        let _ = c.load::<String>("k");
                                    }
                                    "hot_reload" => c.hot_reload(),
                                    "event" => $ev,
                                    _ => {}
                                }
                            }
                            std::thread::sleep(Duration::from_millis(30));
                            busy(&mut res, "idle", what.clone());
                            drop(c);
                        }};
                    }
                    if kind == "fs" {
                        body!(AssetCache::new(&tmp).unwrap(), std::fs::write(tmp.join("k.txt"), "v2").unwrap());
                    } else {
                        let src = MapSrc { files: files.clone(), hot: true, tx: Default::default() };
                        let tx = src.tx.clone();
                        let c = AssetCache::with_source(src);
                        if kind == "mem-drop" {
                            *tx.lock().unwrap() = None;
                        }
                        body!(c, {
                            if let Some(t) = tx.lock().unwrap().as_ref() {
                                let _ = t.send(OwnedDirEntry::File("k".into(), "a".into()));
                            }
                        });
                    }
                }
                std::thread::sleep(Duration::from_millis(60));
                busy(&mut res, "after-drop", what.clone());
                let left = reloaders();
                res.evaluations += 1;
                res.traces_validated += 1;
                res.transitions += (seq.len() * cycles) as u64;
                res.outcome(&(kind, &seq, cycles, left.len()));
                if !left.is_empty() {
                    // a sleeping thread is tolerated by the statement ("or at least sleeps for good") only if it never wakes: report how many are left
                    res.add_note_count("sleeping_reloaders_left", left.len() as u64);
                    if left.len() > cycles {
                        res.violation("c15_proc:accumulating".to_string(), format!("{} reloader threads alive after {cycles} create/drop cycles", left.len()), what.clone());
                    }
                }
            }
        }
    }
    let _ = std::fs::remove_dir_all(&tmp);
    res.states = res.distinct.len() as u64;
    res.sample(json!({"kind": "fs", "seq": ["load", "event", "hot_reload"], "cycles": 3, "observed": "0 assets_hot_relo threads after the drops"}));
    res
}
