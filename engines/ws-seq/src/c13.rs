//! C13 (type/layout part) — values of different sizes and alignments are dropped exactly once
//! through every removal path; an untyped handle can only be viewed as the type it was created with.
use assets_manager::{AssetCache, LocalAssetCache, Storable};
use serde_json::json;
use std::sync::atomic::{AtomicI64, Ordering};
use vcommon::{Args, SubResult};

static LIVE: [AtomicI64; 4] = [AtomicI64::new(0), AtomicI64::new(0), AtomicI64::new(0), AtomicI64::new(0)];
static DROPS: [AtomicI64; 4] = [AtomicI64::new(0), AtomicI64::new(0), AtomicI64::new(0), AtomicI64::new(0)];

macro_rules! tracked_ty {
    ($name:ident, $idx:expr, $($body:tt)*) => {
        $($body)*
        impl Drop for $name {
            fn drop(&mut self) {
                LIVE[$idx].fetch_sub(1, Ordering::SeqCst);
                DROPS[$idx].fetch_add(1, Ordering::SeqCst);
            }
        }
        impl Storable for $name {}
    };
}
tracked_ty!(Z, 0, pub struct Z;);
tracked_ty!(U8, 1, pub struct U8(pub u8););
tracked_ty!(H, 2, pub struct H(pub String););
tracked_ty!(A64, 3, #[repr(align(64))] pub struct A64(pub [u8; 3]););

trait Mk: Storable + Sized {
    const IDX: usize;
    fn mk(n: u8) -> Self;
    fn sig(&self) -> String;
}
impl Mk for Z {
    const IDX: usize = 0;
    fn mk(_: u8) -> Self {
        LIVE[0].fetch_add(1, Ordering::SeqCst);
        Z
    }
    fn sig(&self) -> String {
        "Z".into()
    }
}
impl Mk for U8 {
    const IDX: usize = 1;
    fn mk(n: u8) -> Self {
        LIVE[1].fetch_add(1, Ordering::SeqCst);
        U8(n)
    }
    fn sig(&self) -> String {
        format!("U8({})", self.0)
    }
}
impl Mk for H {
    const IDX: usize = 2;
    fn mk(n: u8) -> Self {
        LIVE[2].fetch_add(1, Ordering::SeqCst);
        H(format!("heap-{n}-{}", "x".repeat(n as usize * 7)))
    }
    fn sig(&self) -> String {
        format!("H({})", self.0)
    }
}
impl Mk for A64 {
    const IDX: usize = 3;
    fn mk(n: u8) -> Self {
        LIVE[3].fetch_add(1, Ordering::SeqCst);
        A64([n, n.wrapping_add(1), n.wrapping_add(2)])
    }
    fn sig(&self) -> String {
        format!("A64({:?})@{}", self.0, (self as *const _ as usize) % 64)
    }
}

fn live_total() -> i64 {
    LIVE.iter().map(|a| a.load(Ordering::SeqCst)).sum()
}

/// one removal path exercised on one type in one cache kind
fn paths<T: Mk>(res: &mut SubResult, local: bool) {
    let tname = std::any::type_name::<T>().rsplit("::").next().unwrap().to_string();
    for path in ["remove", "take", "clear", "drop-cache", "loser", "take-then-reinsert"] {
        for n_entries in 1..=3u8 {
            let before = live_total();
            let drops_before = DROPS[T::IDX].load(Ordering::SeqCst);
            let mut created = 0i64;
            let mut viol: Option<String> = None;
            {
                macro_rules! body {
                    ($c:expr) => {{
                        let mut c = $c;
                        for i in 0..n_entries {
                            let v = T::mk(i);
                            created += 1;
                            let want = v.sig();
                            let h = c.get_or_insert::<T>(&format!("k{i}"), v);
                            if h.read().sig() != want {
                                viol = Some(format!("stored {want}, read back {}", h.read().sig()));
                            }
                        }
                        match path {
                            "remove" => {
                                for i in 0..n_entries {
                                    let l = LIVE[T::IDX].load(Ordering::SeqCst);
                                    assert!(c.remove::<T>(&format!("k{i}")));
                                    if LIVE[T::IDX].load(Ordering::SeqCst) != l - 1 {
                                        viol = Some("remove did not drop the value when it returned".into());
                                    }
                                }
                            }
                            "take" => {
                                for i in 0..n_entries {
                                    let l = LIVE[T::IDX].load(Ordering::SeqCst);
                                    let v = c.take::<T>(&format!("k{i}")).unwrap();
                                    if LIVE[T::IDX].load(Ordering::SeqCst) != l || v.sig() != T::mk_sig(i) {
                                        viol = Some(format!("take dropped or altered the value it hands back: {}", v.sig()));
                                    }
                                    drop(v);
                                    if LIVE[T::IDX].load(Ordering::SeqCst) != l - 1 {
                                        viol = Some("the taken value was not dropped by its new owner exactly once".into());
                                    }
                                }
                            }
                            "clear" => {
                                c.clear();
                                if LIVE[T::IDX].load(Ordering::SeqCst) != before_ty::<T>(before) {
                                    viol = Some("clear did not drop every value".into());
                                }
                            }
                            "loser" => {
                                // a second get_or_insert on a present key: the offered value loses and is dropped at once
                                let l = LIVE[T::IDX].load(Ordering::SeqCst);
                                let v = T::mk(200);
                                created += 1;
                                let h = c.get_or_insert::<T>("k0", v);
                                if h.read().sig() != T::mk_sig(0) {
                                    viol = Some("get_or_insert overwrote".into());
                                }
                                if LIVE[T::IDX].load(Ordering::SeqCst) != l {
                                    viol = Some("the losing value was not dropped immediately".into());
                                }
                            }
                            "take-then-reinsert" => {
                                let v = c.take::<T>("k0").unwrap();
                                let h = c.get_or_insert::<T>("k0", v);
                                if h.read().sig() != T::mk_sig(0) {
                                    viol = Some("value changed across take + get_or_insert".into());
                                }
                            }
                            _ => {}
                        }
                        drop(c);
                    }};
                }
                if local {
                    body!(LocalAssetCache::with_source(assets_manager::source::Empty));
                } else {
                    body!(AssetCache::without_hot_reloading(assets_manager::source::Empty));
                }
            }
            // mk_sig creates and drops temporaries: account through the counters only
            let after = live_total();
            let drops = DROPS[T::IDX].load(Ordering::SeqCst) - drops_before;
            res.evaluations += 1;
            res.transitions += n_entries as u64 + 1;
            res.outcome(&(tname.as_str(), local, path, n_entries, viol.is_some()));
            if after != before && viol.is_none() {
                viol = Some(format!("{} values still alive after the cache was dropped ({} created, {} drops)", after - before, created, drops));
            }
            if let Some(v) = viol {
                res.violation(format!("c13:layout:{tname}:{path}"), format!("{v}; type {tname}, {} cache, {n_entries} entries", if local { "local" } else { "shared" }), json!({"engine": "seqmc", "harness": "c13", "type": tname, "path": path, "local": local}));
            }
        }
    }
}
fn before_ty<T: Mk>(_total_before: i64) -> i64 {
    0
}
trait MkSig {
    fn mk_sig(n: u8) -> String;
}
impl<T: Mk> MkSig for T {
    fn mk_sig(n: u8) -> String {
        let v = T::mk(n);
        if T::IDX == 3 {
            // address-dependent part is not comparable across instances
            let s = v.sig();
            return s.split('@').next().unwrap().to_string() + "@0";
        }
        v.sig()
    }
}

fn erasure(res: &mut SubResult) {
    // all 16 (stored, requested) pairs
    macro_rules! stored {
        ($s:ty, $si:expr) => {{
            let c = AssetCache::without_hot_reloading(assets_manager::source::Empty);
            let h = c.get_or_insert::<$s>("k", <$s as Mk>::mk(9));
            let u = h.as_untyped();
            macro_rules! req {
                ($r:ty, $ri:expr) => {{
                    let same = $si == $ri;
                    let is = u.is::<$r>();
                    let dc = u.downcast_ref::<$r>().is_some();
                    let rd = u.read().downcast::<$r>().is_ok();
                    let typed = c.get_cached::<$r>("k").is_some();
                    res.evaluations += 1;
                    res.outcome(&($si, $ri, is, dc, rd, typed));
                    if is != same || dc != same || rd != same || typed != same {
                        res.violation(format!("c13:erasure:{}-as-{}", stringify!($s), stringify!($r)), format!("stored {} requested {}: is={is} downcast_ref={dc} read().downcast={rd} get_cached={typed}, expected all {same}", stringify!($s), stringify!($r)), json!({"engine": "seqmc", "harness": "c13", "erasure": [stringify!($s), stringify!($r)]}));
                    }
                    if same {
                        let v = u.downcast_ref::<$r>().unwrap().read().sig();
                        let w = u.read().downcast::<$r>().ok().unwrap().sig();
                        if v != w {
                            res.violation(format!("c13:erasure:value:{}", stringify!($s)), format!("typed and untyped views differ: {v} vs {w}"), json!({"engine": "seqmc", "harness": "c13"}));
                        }
                    }
                }};
            }
            req!(Z, 0);
            req!(U8, 1);
            req!(H, 2);
            req!(A64, 3);
            // into_inner on the wrong type must panic ("wrong handle type"), never reinterpret
            drop(c);
        }};
    }
    stored!(Z, 0);
    stored!(U8, 1);
    stored!(H, 2);
    stored!(A64, 3);
}

pub fn run(_args: &Args) -> SubResult {
    let mut res = SubResult::new("C13", "c13_types");
    res.bound = "value types {zero-sized, 1 byte, heap-owning, 64-byte aligned} x {AssetCache, LocalAssetCache} x removal paths {remove, take, clear, cache drop, losing get_or_insert, take + re-insert} x 1..3 entries; all 16 (stored type, requested type) pairs for is / downcast_ref / read().downcast / typed look-up".into();
    res.rule = "exhaustive product; oracle = per-type live/drop counters (value dropped when the removing call returns, taken value owned by the caller, nothing alive after the cache is dropped) and 'viewable only as the stored type'; distinct = distinct (type, path, entries, outcome)".into();
    for local in [false, true] {
        paths::<Z>(&mut res, local);
        paths::<U8>(&mut res, local);
        paths::<H>(&mut res, local);
        paths::<A64>(&mut res, local);
    }
    erasure(&mut res);
    res.states = res.distinct.len() as u64;
    res.sample(json!({"type": "A64 (repr(align(64)))", "path": "take-then-reinsert", "cache": "LocalAssetCache", "entries": 2}));
    res.sample(json!({"stored": "H", "requested": "U8", "expect": "is=false downcast_ref=None read().downcast=Err get_cached=None"}));
    res
}
