//! C04 (wrappers): `&S`, `Box<S>`, `Arc<S>`, `Box<dyn Source>` and `AnyCache::raw_source()` must answer
//! exactly like the source they wrap -- read, read_dir, exists, and the hot-reloading plumbing
//! (`make_source`, `configure_hot_reloading`), for every entry of a small tree and for absent /
//! kind-confused ones.
use assets_manager::{
    hot_reloading::EventSender,
    source::{DirEntry, FileContent, Source},
    AssetCache, BoxedError,
};
use serde_json::json;
use std::io;
use std::sync::atomic::{AtomicUsize, Ordering};
use std::sync::Arc;
use vcommon::{Args, SubResult};

/// a source with a fixed small tree that counts hot-reloading calls
#[derive(Clone, Default)]
struct T {
    made: Arc<AtomicUsize>,
    configured: Arc<AtomicUsize>,
    hot: bool,
}
const FILES: &[(&str, &str, &[u8])] = &[("a", "x", b"ax"), ("a", "", b"a-noext"), ("d.b", "y", b""), ("d.e.c", "x", b"deep"), ("\u{e9} x", "x", b"uni")];
fn is_dir(id: &str) -> bool {
    id.is_empty() || id == "d" || id == "d.e" || id == "empty"
}
impl Source for T {
    fn read(&self, id: &str, ext: &str) -> io::Result<FileContent> {
        FILES.iter().find(|f| f.0 == id && f.1 == ext).map(|f| FileContent::Slice(f.2)).ok_or_else(|| io::ErrorKind::NotFound.into())
    }
    fn read_dir(&self, id: &str, f: &mut dyn FnMut(DirEntry)) -> io::Result<()> {
        if !is_dir(id) {
            return Err(io::ErrorKind::NotFound.into());
        }
        for (fid, ext, _) in FILES {
            let parent = fid.rfind('.').map(|n| &fid[..n]).unwrap_or("");
            if parent == id {
                f(DirEntry::File(fid, ext));
            }
        }
        for d in ["d", "d.e", "empty"] {
            let parent = d.rfind('.').map(|n| &d[..n]).unwrap_or("");
            if parent == id {
                f(DirEntry::Directory(d));
            }
        }
        Ok(())
    }
    fn exists(&self, e: DirEntry) -> bool {
        match e {
            DirEntry::File(id, ext) => FILES.iter().any(|f| f.0 == id && f.1 == ext),
            DirEntry::Directory(id) => is_dir(id),
        }
    }
    fn make_source(&self) -> Option<Box<dyn Source + Send>> {
        self.made.fetch_add(1, Ordering::SeqCst);
        if self.hot {
            Some(Box::new(self.clone()))
        } else {
            None
        }
    }
    fn configure_hot_reloading(&self, _e: EventSender) -> Result<(), BoxedError> {
        self.configured.fetch_add(1, Ordering::SeqCst);
        if self.hot {
            Ok(())
        } else {
            Err("no".into())
        }
    }
}

fn answers(s: &dyn Source) -> Vec<String> {
    let mut out = vec![];
    let ids = ["", "a", "d", "d.b", "d.e", "d.e.c", "empty", "\u{e9} x", "nope", "d.nope"];
    for id in ids {
        for ext in ["", "x", "y"] {
            out.push(format!("read({id},{ext})={:?}", s.read(id, ext).map(|c| c.as_ref().to_vec()).map_err(|e| e.kind())));
            out.push(format!("exists(F {id},{ext})={}", s.exists(DirEntry::File(id, ext))));
        }
        out.push(format!("exists(D {id})={}", s.exists(DirEntry::Directory(id))));
        let mut l = vec![];
        let r = s.read_dir(id, &mut |e| l.push(format!("{e:?}")));
        l.sort();
        out.push(format!("read_dir({id})={:?} {:?}", r.map_err(|e| e.kind()), l));
    }
    out
}

pub fn run(_args: &Args) -> SubResult {
    let mut res = SubResult::new("C04", "c04_wrappers");
    res.bound = "wrappers {&S, &&S, Box<S>, Arc<S>, Box<dyn Source>, Arc<dyn Source>, AnyCache::raw_source() of AssetCache and LocalAssetCache} x 10 ids x 3 extensions x {read, exists(File), exists(Directory), read_dir} + make_source / configure_hot_reloading forwarding for a source with and without hot-reloading support".into();
    res.rule = "exhaustive product; oracle = the answers of the wrapped source itself; hot-reloading plumbing: with_source on a wrapper must call make_source and configure_hot_reloading of the inner source exactly as on the bare source (a reloader thread exists iff the inner source supports it)".into();
    for hot in [false, true] {
        let t = T { hot, ..Default::default() };
        let base = answers(&t);
        let mut check = |res: &mut SubResult, name: &str, got: Vec<String>| {
            res.evaluations += 1;
            res.transitions += got.len() as u64;
            res.outcome(&(name, hot, &got));
            if got != base {
                let i = got.iter().zip(base.iter()).position(|(a, b)| a != b).unwrap_or(0);
                res.violation(format!("c04_wrappers:{name}"), format!("wrapper {name} answers `{}` where the source answers `{}`", got.get(i).cloned().unwrap_or_default(), base.get(i).cloned().unwrap_or_default()), json!({"engine": "seqmc", "harness": "c04w", "wrapper": name}));
            }
        };
        check(&mut res, "&S", answers(&&t));
        check(&mut res, "&&S", answers(&&&t));
        check(&mut res, "Box<S>", answers(&Box::new(t.clone())));
        check(&mut res, "Arc<S>", answers(&Arc::new(t.clone())));
        let bd: Box<dyn Source> = Box::new(t.clone());
        check(&mut res, "Box<dyn Source>", answers(&bd));
        let ad: Arc<dyn Source + Send + Sync> = Arc::new(t.clone());
        check(&mut res, "Arc<dyn Source>", answers(&ad));
        {
            let c = AssetCache::without_hot_reloading(t.clone());
            let rs = c.as_any_cache().raw_source();
            check(&mut res, "AnyCache::raw_source(AssetCache)", answers(&rs));
            check(&mut res, "AssetCache::raw_source", answers(c.raw_source()));
            let l = assets_manager::LocalAssetCache::with_source(t.clone());
            let rs = l.as_any_cache().raw_source();
            check(&mut res, "AnyCache::raw_source(LocalAssetCache)", answers(&rs));
        }
        // hot-reloading plumbing through wrappers
        macro_rules! plumb {
            ($name:expr, $mk:expr) => {{
                let inner = T { hot, ..Default::default() };
                let (m, c) = (inner.made.clone(), inner.configured.clone());
                let wrapped = $mk(inner);
                let cache = AssetCache::with_source(wrapped);
                let is_hot = cache.as_any_cache().is_hot_reloaded();
                drop(cache);
                res.evaluations += 1;
                res.outcome(&($name, hot, is_hot, m.load(Ordering::SeqCst), c.load(Ordering::SeqCst)));
                let want_cfg = if hot { 1 } else { 0 };
                if is_hot != hot || m.load(Ordering::SeqCst) != 1 || c.load(Ordering::SeqCst) != want_cfg {
                    res.violation(format!("c04_wrappers:hot-plumbing:{}", $name), format!("AssetCache::with_source({}) over a source with hot-reloading support={hot}: is_hot_reloaded={is_hot}, make_source called {} times, configure_hot_reloading {} times", $name, m.load(Ordering::SeqCst), c.load(Ordering::SeqCst)), json!({"engine": "seqmc", "harness": "c04w", "wrapper": $name}));
                }
            }};
        }
        plumb!("S", |s: T| s);
        plumb!("Box<S>", |s: T| Box::new(s));
        plumb!("Arc<S>", |s: T| Arc::new(s));
        plumb!("&'static S", |s: T| -> &'static T { Box::leak(Box::new(s)) });
        plumb!("Box<dyn Source + Sync>", |s: T| -> Box<dyn Source + Send + Sync> { Box::new(s) });
    }
    res.states = res.distinct.len() as u64;
    res.sample(json!({"wrapper": "Arc<S>", "query": "read_dir(d)", "answer": "Ok [Directory(\"d.e\"), File(\"d.b\", \"y\")]"}));
    res
}
