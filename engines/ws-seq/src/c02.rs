//! C02 — the cache is a faithful map keyed by (id, type) for every front-end; with the drop
//! ledger attached this is also the history part of C13.
use crate::ledger::{self, Tracked};
use assets_manager::{
    hot_reloading::EventSender,
    loader,
    source::{DirEntry, FileContent, Source},
    AnyCache, Asset, AssetCache, BoxedError, Compound, Directory, Error, Handle, LocalAssetCache, SharedString, Storable,
};
use serde_json::json;
use std::collections::{BTreeMap, HashSet, VecDeque};
use std::io;
use std::sync::{Arc, Mutex};
use vcommon::{h64, Args, SubResult};

// ---------------------------------------------------------------- source

#[derive(Clone, Default)]
pub struct MapSrc {
    pub files: Arc<BTreeMap<(String, String), Vec<u8>>>,
    pub hot: bool,
    pub tx: Arc<Mutex<Option<EventSender>>>,
}
impl Source for MapSrc {
    fn read(&self, id: &str, ext: &str) -> io::Result<FileContent> {
        match self.files.get(&(id.to_string(), ext.to_string())) {
            Some(v) => Ok(FileContent::Buffer(v.clone())),
            None => Err(io::ErrorKind::NotFound.into()),
        }
    }
    fn read_dir(&self, id: &str, f: &mut dyn FnMut(DirEntry)) -> io::Result<()> {
        if !id.is_empty() {
            return Err(io::ErrorKind::NotFound.into());
        }
        for (i, e) in self.files.keys() {
            f(DirEntry::File(i, e));
        }
        Ok(())
    }
    fn exists(&self, e: DirEntry) -> bool {
        match e {
            DirEntry::File(i, x) => self.files.contains_key(&(i.to_string(), x.to_string())),
            DirEntry::Directory(i) => i.is_empty(),
        }
    }
    fn make_source(&self) -> Option<Box<dyn Source + Send>> {
        if self.hot {
            Some(Box::new(self.clone()))
        } else {
            None
        }
    }
    fn configure_hot_reloading(&self, ev: EventSender) -> Result<(), BoxedError> {
        *self.tx.lock().unwrap() = Some(ev);
        Ok(())
    }
}

// ---------------------------------------------------------------- types

pub struct A1(pub i64, pub Tracked);
impl From<i64> for A1 {
    fn from(v: i64) -> Self {
        A1(v, Tracked::new())
    }
}
impl Asset for A1 {
    const EXTENSION: &'static str = "a";
    type Loader = loader::LoadFrom<i64, loader::ParseLoader>;
}
pub struct A2(pub i64, pub Tracked);
impl From<i64> for A2 {
    fn from(v: i64) -> Self {
        A2(v, Tracked::new())
    }
}
impl Asset for A2 {
    const EXTENSION: &'static str = "b";
    type Loader = loader::LoadFrom<i64, loader::ParseLoader>;
}
pub struct V(pub i64, pub Tracked);
impl Storable for V {}
pub struct C(pub i64, pub Tracked);
impl Compound for C {
    fn load(cache: AnyCache, id: &SharedString) -> Result<Self, BoxedError> {
        let v = cache.load::<A1>(id)?.read().0;
        Ok(C(v + 1000, Tracked::new()))
    }
}

/// a compound that stores a value under its own key while it is being loaded (re-entrant insert):
/// the value inserted first must win, as for any get_or_insert on a present key
pub struct R(pub i64, pub Tracked);
thread_local! {
    /// address of the handle that the nested `get_or_insert` of `R::load` returned (0: none): the handle
    /// the outer `load` returns for the same (id, type) must be the very same one (C01)
    pub static NESTED_HANDLE: std::cell::Cell<usize> = const { std::cell::Cell::new(0) };
}
impl Compound for R {
    fn load(cache: AnyCache, id: &SharedString) -> Result<Self, BoxedError> {
        let h = cache.get_or_insert::<R>(id, R(500, Tracked::new()));
        NESTED_HANDLE.with(|n| n.set(h as *const _ as usize));
        let first = h.read().0;
        Ok(R(first + 1, Tracked::new()))
    }
}
impl Val for R {
    fn val(&self) -> i64 {
        self.0
    }
}

/// like `R`, but the value computed by the load panics in its destructor when it is dropped as the
/// redundant entry (i.e. inside the map's insert, while the shard lock is held -- which poisons a
/// std lock); the cache must stay a usable map afterwards
pub struct RP(pub i64, pub Tracked, pub bool);
pub static RP_ARMED: std::sync::atomic::AtomicBool = std::sync::atomic::AtomicBool::new(false);
impl Drop for RP {
    fn drop(&mut self) {
        if self.2 && RP_ARMED.load(std::sync::atomic::Ordering::SeqCst) && !std::thread::panicking() {
            panic!("destructor of the redundant value panics");
        }
    }
}
impl Compound for RP {
    fn load(cache: AnyCache, id: &SharedString) -> Result<Self, BoxedError> {
        let first = cache.get_or_insert::<RP>(id, RP(500, Tracked::new(), false)).read().0;
        Ok(RP(first + 1, Tracked::new(), true))
    }
}
impl Val for RP {
    fn val(&self) -> i64 {
        self.0
    }
}

#[derive(Clone, Copy, PartialEq, Eq, PartialOrd, Ord, Debug, Hash)]
pub enum Ty {
    RP,
    R,
    A1,
    A2,
    V,
    C,
    Dir,
}

#[derive(Clone, Debug, PartialEq, Eq, Hash)]
pub enum Op {
    Load(Ty, &'static str),
    Owned(Ty, &'static str),
    Expect(Ty, &'static str),
    Cached(Ty, &'static str),
    Contains(Ty, &'static str),
    Goi(Ty, &'static str, i64),
    Remove(Ty, &'static str),
    Take(Ty, &'static str),
    Clear,
    LoadDir,
}

pub fn alphabet() -> Vec<Op> {
    let mut v = vec![];
    for id in ["p", "q"] {
        for t in [Ty::A1, Ty::A2, Ty::C] {
            v.push(Op::Load(t, id));
            v.push(Op::Owned(t, id));
        }
        v.push(Op::Load(Ty::RP, id));
        v.push(Op::Cached(Ty::RP, id));
        v.push(Op::Take(Ty::RP, id));
        v.push(Op::Load(Ty::R, id));
        v.push(Op::Owned(Ty::R, id));
        v.push(Op::Cached(Ty::R, id));
        v.push(Op::Remove(Ty::R, id));
        v.push(Op::Expect(Ty::A1, id));
        v.push(Op::Expect(Ty::C, id));
        for t in [Ty::A1, Ty::A2, Ty::V, Ty::C] {
            v.push(Op::Cached(t, id));
            v.push(Op::Contains(t, id));
            v.push(Op::Remove(t, id));
            v.push(Op::Take(t, id));
        }
        for t in [Ty::A1, Ty::V] {
            for val in [71, 72] {
                v.push(Op::Goi(t, id, val));
            }
        }
        v.push(Op::Goi(Ty::C, id, 73));
    }
    v.push(Op::Clear);
    v.push(Op::LoadDir);
    v.push(Op::Cached(Ty::Dir, ""));
    v.push(Op::Remove(Ty::Dir, ""));
    v
}

// ---------------------------------------------------------------- front-ends

pub trait Fe {
    fn any(&self) -> AnyCache<'_>;
    fn load<T: Compound>(&self, id: &str) -> Result<&Handle<T>, Error>;
    fn load_owned<T: Compound>(&self, id: &str) -> Result<T, Error>;
    fn load_expect<T: Compound>(&self, id: &str) -> &Handle<T>;
    fn get_cached<T: Storable>(&self, id: &str) -> Option<&Handle<T>>;
    fn contains<T: Storable>(&self, id: &str) -> bool;
    fn get_or_insert<T: Storable>(&self, id: &str, v: T) -> &Handle<T>;
    fn load_dir(&self, id: &str) -> Result<&Handle<Directory<A1>>, Error>;
    fn remove<T: Storable>(&mut self, id: &str) -> bool;
    fn take<T: Storable>(&mut self, id: &str) -> Option<T>;
    fn clear(&mut self);
}
macro_rules! impl_fe {
    ($t:ty) => {
        impl Fe for $t {
            fn any(&self) -> AnyCache<'_> {
                self.as_any_cache()
            }
            fn load<T: Compound>(&self, id: &str) -> Result<&Handle<T>, Error> {
                <$t>::load(self, id)
            }
            fn load_owned<T: Compound>(&self, id: &str) -> Result<T, Error> {
                <$t>::load_owned(self, id)
            }
            fn load_expect<T: Compound>(&self, id: &str) -> &Handle<T> {
                <$t>::load_expect(self, id)
            }
            fn get_cached<T: Storable>(&self, id: &str) -> Option<&Handle<T>> {
                <$t>::get_cached(self, id)
            }
            fn contains<T: Storable>(&self, id: &str) -> bool {
                <$t>::contains::<T>(self, id)
            }
            fn get_or_insert<T: Storable>(&self, id: &str, v: T) -> &Handle<T> {
                <$t>::get_or_insert(self, id, v)
            }
            fn load_dir(&self, id: &str) -> Result<&Handle<Directory<A1>>, Error> {
                <$t>::load_dir::<A1>(self, id)
            }
            fn remove<T: Storable>(&mut self, id: &str) -> bool {
                <$t>::remove::<T>(self, id)
            }
            fn take<T: Storable>(&mut self, id: &str) -> Option<T> {
                <$t>::take::<T>(self, id)
            }
            fn clear(&mut self) {
                <$t>::clear(self)
            }
        }
    };
}
impl_fe!(AssetCache<MapSrc>);
impl_fe!(LocalAssetCache<MapSrc>);

pub trait Val: Sized + 'static {
    fn val(&self) -> i64;
}
impl Val for A1 {
    fn val(&self) -> i64 {
        self.0
    }
}
impl Val for A2 {
    fn val(&self) -> i64 {
        self.0
    }
}
impl Val for V {
    fn val(&self) -> i64 {
        self.0
    }
}
impl Val for C {
    fn val(&self) -> i64 {
        self.0
    }
}

fn err_s(e: &Error) -> String {
    // id of the error, and ids along the reason chain that are assets_manager errors
    let mut s = format!("Err(id={}", e.id());
    let mut cur: Option<&(dyn std::error::Error + 'static)> = Some(e.reason());
    while let Some(r) = cur {
        if let Some(inner) = r.downcast_ref::<Error>() {
            s.push_str(&format!(" <- id={}", inner.id()));
        }
        cur = r.source();
    }
    s.push(')');
    s
}

fn h_s<T: Val>(id: &str, r: Result<&Handle<T>, Error>) -> String {
    match r {
        Ok(h) => {
            let nested = NESTED_HANDLE.with(|n| n.replace(0));
            if nested != 0 && nested != h as *const _ as usize {
                // never dereference either of them: one of the two is dangling or a second entry
                return "TWO-HANDLES-FOR-ONE-KEY".to_string();
            }
            if h.id().as_str() != id {
                return format!("WRONG-HANDLE-ID({})", h.id());
            }
            format!("Ok({})", h.read().val())
        }
        Err(e) => err_s(&e),
    }
}

/// Apply one operation to the real cache; returns the observation.
pub fn apply<F: Fe>(fe: &mut F, any: bool, op: &Op) -> String {
    macro_rules! by_ty {
        ($ty:expr, $m:ident) => {
            match $ty {
                Ty::RP => $m!(RP),
                Ty::R => $m!(R),
                Ty::A1 => $m!(A1),
                Ty::A2 => $m!(A2),
                Ty::V => $m!(V),
                Ty::C => $m!(C),
                Ty::Dir => $m!(DIR),
            }
        };
    }
    match op {
        Op::Load(t, id) => {
            macro_rules! m {
                (V) => {
                    unreachable!()
                };
                (DIR) => {
                    unreachable!()
                };
                ($t:ty) => {
                    if any { h_s::<$t>(id, fe.any().load::<$t>(id)) } else { h_s::<$t>(id, fe.load::<$t>(id)) }
                };
            }
            by_ty!(t, m)
        }
        Op::Owned(t, id) => {
            macro_rules! m {
                (V) => {
                    unreachable!()
                };
                (DIR) => {
                    unreachable!()
                };
                ($t:ty) => {{
                    let r = if any { fe.any().load_owned::<$t>(id) } else { fe.load_owned::<$t>(id) };
                    match r {
                        Ok(v) => format!("Ok({})", v.val()),
                        Err(e) => err_s(&e),
                    }
                }};
            }
            by_ty!(t, m)
        }
        Op::Expect(t, id) => {
            macro_rules! m {
                (V) => {
                    unreachable!()
                };
                (DIR) => {
                    unreachable!()
                };
                ($t:ty) => {{
                    let r = std::panic::catch_unwind(std::panic::AssertUnwindSafe(|| if any { fe.any().load_expect::<$t>(id).read().val() } else { fe.load_expect::<$t>(id).read().val() }));
                    match r {
                        Ok(v) => format!("Ok({v})"),
                        Err(_) => "panic".to_string(),
                    }
                }};
            }
            by_ty!(t, m)
        }
        Op::Cached(t, id) => {
            macro_rules! m {
                (DIR) => {{
                    let r = if any { fe.any().get_cached::<Directory<A1>>(id) } else { fe.get_cached::<Directory<A1>>(id) };
                    match r {
                        Some(h) => format!("Some({:?})", h.read().ids().map(|s| s.to_string()).collect::<Vec<_>>()),
                        None => "None".into(),
                    }
                }};
                ($t:ty) => {{
                    let r = if any { fe.any().get_cached::<$t>(id) } else { fe.get_cached::<$t>(id) };
                    match r {
                        Some(h) if h.id().as_str() != *id => format!("WRONG-HANDLE-ID({})", h.id()),
                        Some(h) => format!("Some({})", h.read().val()),
                        None => "None".into(),
                    }
                }};
            }
            by_ty!(t, m)
        }
        Op::Contains(t, id) => {
            macro_rules! m {
                (DIR) => {
                    if any { fe.any().contains::<Directory<A1>>(id) } else { fe.contains::<Directory<A1>>(id) }.to_string()
                };
                ($t:ty) => {
                    if any { fe.any().contains::<$t>(id) } else { fe.contains::<$t>(id) }.to_string()
                };
            }
            by_ty!(t, m)
        }
        Op::Goi(t, id, v) => {
            macro_rules! m {
                (DIR) => {
                    unreachable!()
                };
                (RP) => {
                    unreachable!()
                };
                ($t:ident) => {{
                    let h = if any { fe.any().get_or_insert::<$t>(id, $t(*v, Tracked::new())) } else { fe.get_or_insert::<$t>(id, $t(*v, Tracked::new())) };
                    if h.id().as_str() != *id {
                        format!("WRONG-HANDLE-ID({})", h.id())
                    } else {
                        format!("{}", h.read().val())
                    }
                }};
            }
            by_ty!(t, m)
        }
        Op::Remove(t, id) => {
            macro_rules! m {
                (DIR) => {
                    fe.remove::<Directory<A1>>(id).to_string()
                };
                ($t:ty) => {
                    fe.remove::<$t>(id).to_string()
                };
            }
            by_ty!(t, m)
        }
        Op::Take(t, id) => {
            macro_rules! m {
                (DIR) => {
                    unreachable!()
                };
                ($t:ty) => {
                    match fe.take::<$t>(id) {
                        Some(v) => {
                            let live_before = ledger::live();
                            let s = format!("Some({})", v.val());
                            drop(v);
                            // the taken value is owned by the caller: it dies now, not earlier
                            if ledger::live() + 1 != live_before {
                                "TAKE-NOT-OWNED".to_string()
                            } else {
                                s
                            }
                        }
                        None => "None".into(),
                    }
                };
            }
            by_ty!(t, m)
        }
        Op::Clear => {
            fe.clear();
            "()".into()
        }
        Op::LoadDir => {
            let r = if any { fe.any().load_dir::<A1>("") } else { fe.load_dir("") };
            match r {
                Ok(h) => format!("Ok({:?})", h.read().ids().map(|s| s.to_string()).collect::<Vec<_>>()),
                Err(e) => err_s(&e),
            }
        }
    }
}

// ---------------------------------------------------------------- reference model

#[derive(Clone, Default, PartialEq, Eq, Hash, Debug)]
pub struct Model {
    pub map: BTreeMap<(Ty, String), i64>,
    pub dir: Option<Vec<String>>,
}

/// state of a file: 0 absent, 1 valid, 2 garbage
pub type WorldSpec = [u8; 4]; // p.a q.a p.b q.b

pub fn world_files(w: &WorldSpec) -> BTreeMap<(String, String), Vec<u8>> {
    let names = [("p", "a", 1), ("q", "a", 2), ("p", "b", 3), ("q", "b", 4)];
    let mut m = BTreeMap::new();
    for (i, (id, ext, v)) in names.iter().enumerate() {
        match w[i] {
            1 => {
                m.insert((id.to_string(), ext.to_string()), format!(" {v}\n").into_bytes());
            }
            2 => {
                m.insert((id.to_string(), ext.to_string()), b"zz".to_vec());
            }
            _ => {}
        }
    }
    m
}

fn file_val(w: &WorldSpec, t: Ty, id: &str) -> Result<i64, ()> {
    let i = match (t, id) {
        (Ty::A1, "p") => 0,
        (Ty::A1, "q") => 1,
        (Ty::A2, "p") => 2,
        (Ty::A2, "q") => 3,
        _ => return Err(()),
    };
    if w[i] == 1 {
        Ok(i as i64 + 1)
    } else {
        Err(())
    }
}

impl Model {
    fn load(&mut self, w: &WorldSpec, t: Ty, id: &str, insert: bool, use_cache: bool) -> Result<i64, String> {
        if use_cache {
            if let Some(v) = self.map.get(&(t, id.to_string())) {
                return Ok(*v);
            }
        }
        let v = match t {
            Ty::RP => {
                // stores 500 first; the computed value is dropped as redundant inside the insert and
                // its destructor panics: the call panics, the stored 500 stays
                self.map.entry((Ty::RP, id.to_string())).or_insert(500);
                return Err("PANIC".into());
            }
            Ty::R => {
                // the load stores 500 under its own key first (if absent), then offers first+1:
                // a cached `load` must keep (and return) the value stored first; `load_owned`
                // hands the computed value to the caller, the stored one stays
                let first = *self.map.entry((Ty::R, id.to_string())).or_insert(500);
                if insert {
                    return Ok(first);
                }
                first + 1
            }
            Ty::A1 | Ty::A2 => file_val(w, t, id).map_err(|_| format!("Err(id={id})"))?,
            Ty::C => match self.load(w, Ty::A1, id, true, true) {
                Ok(v) => v + 1000,
                Err(_) => return Err(format!("Err(id={id} <- id={id})")),
            },
            _ => unreachable!(),
        };
        if insert {
            self.map.insert((t, id.to_string()), v);
        }
        Ok(v)
    }
    pub fn apply(&mut self, w: &WorldSpec, op: &Op) -> String {
        match op {
            Op::Load(t, id) => match self.load(w, *t, id, true, true) {
                Ok(v) => format!("Ok({v})"),
                Err(e) => e,
            },
            Op::Owned(t, id) => match self.load(w, *t, id, false, false) {
                Ok(v) => format!("Ok({v})"),
                Err(e) => e,
            },
            Op::Expect(t, id) => match self.load(w, *t, id, true, true) {
                Ok(v) => format!("Ok({v})"),
                Err(_) => "panic".into(),
            },
            Op::Cached(Ty::Dir, _) => match &self.dir {
                Some(ids) => format!("Some({ids:?})"),
                None => "None".into(),
            },
            Op::Cached(t, id) => match self.map.get(&(*t, id.to_string())) {
                Some(v) => format!("Some({v})"),
                None => "None".into(),
            },
            Op::Contains(Ty::Dir, _) => self.dir.is_some().to_string(),
            Op::Contains(t, id) => self.map.contains_key(&(*t, id.to_string())).to_string(),
            Op::Goi(t, id, v) => self.map.entry((*t, id.to_string())).or_insert(*v).to_string(),
            Op::Remove(Ty::Dir, _) => self.dir.take().is_some().to_string(),
            Op::Remove(t, id) => self.map.remove(&(*t, id.to_string())).is_some().to_string(),
            Op::Take(t, id) => match self.map.remove(&(*t, id.to_string())) {
                Some(v) => format!("Some({v})"),
                None => "None".into(),
            },
            Op::Clear => {
                self.map.clear();
                self.dir = None;
                "()".into()
            }
            Op::LoadDir => {
                if self.dir.is_none() {
                    let mut ids = vec![];
                    if w[0] != 0 {
                        ids.push("p".to_string());
                    }
                    if w[1] != 0 {
                        ids.push("q".to_string());
                    }
                    self.dir = Some(ids);
                }
                format!("Ok({:?})", self.dir.as_ref().unwrap())
            }
        }
    }
}

/// the full presence/value matrix of the real cache
fn matrix<F: Fe>(fe: &F, any: bool) -> Model {
    let mut m = Model::default();
    for id in ["p", "q"] {
        macro_rules! g {
            ($t:ident) => {{
                let h = if any { fe.any().get_cached::<$t>(id) } else { fe.get_cached::<$t>(id) };
                let c = if any { fe.any().contains::<$t>(id) } else { fe.contains::<$t>(id) };
                assert_eq!(h.is_some(), c, "contains and get_cached disagree");
                if let Some(h) = h {
                    m.map.insert((Ty::$t, id.to_string()), h.read().0);
                }
            }};
        }
        g!(RP);
        g!(R);
        g!(A1);
        g!(A2);
        g!(V);
        g!(C);
    }
    m.dir = fe.get_cached::<Directory<A1>>("").map(|h| h.read().ids().map(|s| s.to_string()).collect());
    m
}

#[derive(Clone, Copy, Debug, PartialEq)]
pub enum Front {
    Typed,
    TypedHot,
    Local,
}

pub struct Outcome {
    pub obs: Vec<String>,
    pub violation: Option<(String, String)>,
    pub model: Model,
}

fn run_on<F: Fe>(mut fe: F, any: bool, w: &WorldSpec, ops: &[Op]) -> Outcome {
    let mut model = Model::default();
    let mut obs = vec![];
    let mut violation = None;
    for (i, op) in ops.iter().enumerate() {
        // a panic out of the cache (e.g. "wrong handle type") is an observation, not a crash of the checker
        RP_ARMED.store(matches!(op, Op::Load(Ty::RP, _)), std::sync::atomic::Ordering::SeqCst);
        NESTED_HANDLE.with(|n| n.set(0));
        let real = match std::panic::catch_unwind(std::panic::AssertUnwindSafe(|| apply(&mut fe, any, op))) {
            Ok(r) => r,
            Err(_) if matches!(op, Op::Load(Ty::RP, _)) => "PANIC".to_string(),
            Err(e) => format!("PANIC({})", e.downcast_ref::<String>().cloned().or_else(|| e.downcast_ref::<&str>().map(|s| s.to_string())).unwrap_or_default()),
        };
        RP_ARMED.store(false, std::sync::atomic::Ordering::SeqCst);
        let exp = model.apply(w, op);
        obs.push(real.clone());
        if real != exp && violation.is_none() {
            let key = if real == "TWO-HANDLES-FOR-ONE-KEY" { format!("two-handles:{}", op_class(op)) } else { format!("return:{}", op_class(op)) };
            violation = Some((key, format!("step {i} `{op:?}` returned {real}, the reference map says {exp}")));
        }
        let mx = match std::panic::catch_unwind(std::panic::AssertUnwindSafe(|| matrix(&fe, any))) {
            Ok(m) => m,
            Err(e) => {
                if violation.is_none() {
                    violation = Some((format!("panic-on-lookup:{}", op_class(op)), format!("after step {i} `{op:?}` a look-up panicked: {}", e.downcast_ref::<String>().cloned().or_else(|| e.downcast_ref::<&str>().map(|s| s.to_string())).unwrap_or_default())));
                }
                break;
            }
        };
        if mx != model && violation.is_none() {
            violation = Some((format!("contents:{}", op_class(op)), format!("after step {i} `{op:?}` the cache holds {mx:?}, the reference map {model:?}")));
        }
        let live = ledger::live();
        if live != model.map.len() && violation.is_none() {
            violation = Some((format!("c13:ledger:{}", op_class(op)), format!("after step {i} `{op:?}`: {live} tracked values alive, {} cached", model.map.len())));
        }
        if ledger::double() != 0 && violation.is_none() {
            violation = Some((format!("c13:double-drop:{}", op_class(op)), format!("after step {i} `{op:?}`: a value was dropped twice")));
        }
        if violation.is_some() {
            break;
        }
    }
    drop(fe);
    if violation.is_none() && (ledger::live() != 0 || ledger::double() != 0) {
        violation = Some(("c13:leak-at-drop".into(), format!("after dropping the cache: {} tracked values alive, {} double drops", ledger::live(), ledger::double())));
    }
    Outcome { obs, violation, model }
}

pub fn op_class(op: &Op) -> String {
    let s = format!("{op:?}");
    s.split('(').next().unwrap().to_string()
}

pub fn run_history(front: Front, any: bool, w: &WorldSpec, ops: &[Op]) -> Outcome {
    ledger::reset();
    let files = Arc::new(world_files(w));
    match front {
        Front::Typed => run_on(AssetCache::without_hot_reloading(MapSrc { files, hot: false, tx: Default::default() }), any, w, ops),
        Front::TypedHot => run_on(AssetCache::with_source(MapSrc { files, hot: true, tx: Default::default() }), any, w, ops),
        Front::Local => run_on(LocalAssetCache::with_source(MapSrc { files, hot: false, tx: Default::default() }), any, w, ops),
    }
}

fn op_json(ops: &[Op]) -> Vec<String> {
    ops.iter().map(|o| format!("{o:?}")).collect()
}

pub fn parse_op(s: &str) -> Op {
    alphabet().into_iter().find(|o| format!("{o:?}") == s).unwrap_or_else(|| panic!("unknown op {s}"))
}

fn all_worlds() -> Vec<WorldSpec> {
    let mut v = vec![];
    for a in 0..3u8 {
        for b in 0..3u8 {
            for c in 0..3u8 {
                for d in 0..3u8 {
                    v.push([a, b, c, d]);
                }
            }
        }
    }
    v
}

pub fn run(args: &Args, prop: &str) -> SubResult {
    let mut res = SubResult::new(prop, if prop == "C13" { "c13_history" } else { "c02_map" });
    let thorough = args.thorough();
    let alpha = alphabet();
    let worlds: Vec<WorldSpec> = if thorough {
        all_worlds()
    } else {
        // all-valid, a mix with garbage/absent, and one rotating representative
        let all = all_worlds();
        vec![[1, 1, 1, 1], [1, 2, 0, 1], all[(args.seed as usize * 7 + 5) % all.len()]]
    };
    let fronts = [(Front::Typed, false), (Front::Typed, true), (Front::Local, false), (Front::Local, true), (Front::TypedHot, false), (Front::TypedHot, true)];
    let depth = if thorough { 4 } else { 3 };
    res.bound = format!("{} operations over ids {{p,q}} x types {{A1,A2,V,C(compound),Directory}}; {} source worlds (each of 4 files absent/valid/garbage); front-ends AssetCache (with/without reloader), LocalAssetCache, and the AnyCache view of each; BFS to fix-point over canonical states + every history without deduplication to depth {} (with reloader: depth 2)", alpha.len(), worlds.len(), depth);
    res.rule = "state = history replayed on a fresh real cache; canonical state = sorted cache contents; oracle = BTreeMap reference on every return value, the full contains/get_cached matrix and the drop ledger after every step; distinct = distinct (world, front-end, canonical state, observation trace)".into();
    let mut cases = vec![];
    for (wi, w) in worlds.iter().enumerate() {
        for f in fronts {
            // the ledger view (C13) of the quick tier: first world, typed front-ends (the AnyCache
            // views share the same storage code); C02 itself and the thorough tier run everything
            if prop == "C13" && !thorough && (wi > 0 || f.1) {
                continue;
            }
            if prop == "C13" && thorough && wi >= 9 {
                continue;
            }
            // `--lite`: the second feature configuration re-runs a slice (first world, typed front-ends)
            if args.rest.iter().any(|a| a == "--lite") && (wi > 0 || f.1) {
                continue;
            }
            cases.push((*w, f));
        }
    }
    let total = cases.len();
    vcommon::run_cases(args, res, total, std::time::Duration::from_secs(if thorough { 3400 } else { 300 }), |idx, res| {
        let (w, (front, any)) = cases[idx];
        let mut report = |res: &mut SubResult, ops: &[Op], o: &Outcome| {
            if let Some((k, d)) = &o.violation {
                let key = if k.starts_with("c13:") { k.clone() } else { format!("c02:{k}") };
                res.violation(format!("c02_map:{key}"), format!("{d}; front-end {front:?} any={any} world {w:?} history {:?}", op_json(ops)), json!({"engine": "seqmc", "harness": "c02", "front": format!("{front:?}"), "any": any, "world": w, "ops": op_json(ops)}));
            }
        };
        // (1) explicit-state BFS to fix-point over canonical states (quick: two front-ends on the
        // first world; thorough: everything except the thread-spawning front-end)
        let mut seen: HashSet<u64> = HashSet::new();
        let mut q: VecDeque<Vec<Op>> = VecDeque::new();
        let do_bfs = if thorough { idx < 36 && (front != Front::TypedHot || idx < 6) } else { idx < 6 && front != Front::TypedHot };
        if do_bfs {
            q.push_back(vec![]);
        }
        seen.insert(h64(&Model::default()));
        let mut maxd = 0;
        // quick: one offered value per get_or_insert in the BFS (the depth-bounded sweep below keeps both)
        // (and the fix-point over ONE id; interactions between the two ids are in the depth-bounded sweep)
        let bfs_alpha: Vec<Op> = if thorough { alpha.clone() } else { alpha.iter().filter(|o| !matches!(o, Op::Goi(_, _, 72)) && !format!("{o:?}").contains("\"q\"")).cloned().collect() };
        while let Some(hist) = q.pop_front() {
            for op in &bfs_alpha {
                let mut h2 = hist.clone();
                h2.push(op.clone());
                let o = run_history(front, any, &w, &h2);
                res.evaluations += 1;
                res.transitions += h2.len() as u64;
                report(res, &h2, &o);
                res.outcome(&(w, format!("{front:?}{any}"), &o.model, &o.obs.last()));
                if o.violation.is_none() && seen.insert(h64(&o.model)) {
                    maxd = maxd.max(h2.len());
                    res.states += 1;
                    q.push_back(h2);
                }
            }
        }
        if do_bfs {
            res.add_note_count("bfs_fixpoints_reached", 1);
            res.add_note_count("bfs_depth_sum", maxd as u64);
        }
        // (2) every history without deduplication up to the depth bound
        // quick: full depth on the first world, one level less on the others
        // quick: full depth on the first world, one level less on the others; thorough: depth 4 on the
        // first two worlds (12 cases x 3.5e7 histories), depth 3 on all 81
        let d = if front == Front::TypedHot { 2 } else if !thorough && idx >= 6 { depth - 1 } else if thorough && idx >= 12 { depth - 1 } else { depth };
        let mut idxs = vec![0usize; d];
        'outer: loop {
            let ops: Vec<Op> = idxs.iter().map(|i| alpha[*i].clone()).collect();
            let o = run_history(front, any, &w, &ops);
            res.evaluations += 1;
            res.transitions += ops.len() as u64;
            report(res, &ops, &o);
            res.outcome(&(w, format!("{front:?}{any}"), &o.model, &o.obs));
            if res.samples.len() < 2 && idxs[0] == 7 && idxs[d - 1] == 30 {
                res.sample(json!({"front": format!("{front:?}"), "any": any, "world": w, "history": op_json(&ops), "observations": o.obs}));
            }
            let mut k = d;
            loop {
                if k == 0 {
                    break 'outer;
                }
                k -= 1;
                idxs[k] += 1;
                if idxs[k] < alpha.len() {
                    break;
                }
                idxs[k] = 0;
            }
        }
    })
}

pub fn replay(v: &serde_json::Value) -> i32 {
    let front = match v["front"].as_str().unwrap() {
        "Typed" => Front::Typed,
        "TypedHot" => Front::TypedHot,
        _ => Front::Local,
    };
    let any = v["any"].as_bool().unwrap();
    let wv: Vec<u8> = v["world"].as_array().unwrap().iter().map(|x| x.as_u64().unwrap() as u8).collect();
    let w = [wv[0], wv[1], wv[2], wv[3]];
    let ops: Vec<Op> = v["ops"].as_array().unwrap().iter().map(|x| parse_op(x.as_str().unwrap())).collect();
    let o = run_history(front, any, &w, &ops);
    for (op, ob) in ops.iter().zip(o.obs.iter()) {
        println!("  {op:?} -> {ob}");
    }
    match o.violation {
        Some((k, d)) => {
            println!("REPRODUCED {k}: {d}");
            1
        }
        None => {
            println!("no violation");
            0
        }
    }
}
