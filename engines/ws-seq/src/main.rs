//! E2 `seqmc`: real crate + real dependencies; explicit-state search over operation histories and
//! bounded-exhaustive inputs against reference models (see /verif/DESIGN.md §2.2).
fn main() {
    let args = vcommon::parse_args();
    eprintln!("unknown subcheck {}", args.subcheck);
    std::process::exit(2)
}
