//! E2 `seqmc`: real crate + real dependencies; explicit-state search over operation histories and
//! bounded-exhaustive inputs against reference models (see /verif/DESIGN.md §2.2).
mod c01g;
mod c02;
mod c02sh;
mod c04w;
mod c12;
mod c13;
mod c15p;
mod ledger;
mod shimconf;

fn main() {
    std::panic::set_hook(Box::new(|_| {}));
    let args = vcommon::parse_args();
    if let Some(p) = &args.replay {
        let v: serde_json::Value = serde_json::from_slice(&std::fs::read(p).expect("replay file")).expect("json");
        let v2 = v.clone();
        let r = if v.get("replay").is_some() { v["replay"].clone() } else { v };
        if r["harness"].as_str() == Some("worker-crash") {
            std::process::exit(crash_replay(&r));
        }
        let code = match r["harness"].as_str().unwrap_or("") {
            "c02" => c02::replay(&r),
            "c12" => c12::replay(&v2),
            h => {
                eprintln!("unknown harness {h}");
                2
            }
        };
        std::process::exit(code);
    }
    let res = match args.subcheck.as_str() {
        "c01_growth" => c01g::run(&args),
        "c02_map" => c02::run(&args, "C02"),
        "c13_history" => c02::run(&args, "C13"),
        "c02_shards" => c02sh::run(&args),
        "c12_watcher" => c12::run(&args),
        "c04_wrappers" => c04w::run(&args),
        "c13_types" => c13::run(&args),
        "shimconf" => shimconf::run(&args),
        "c15_proc" => c15p::run(&args),
        s => {
            eprintln!("unknown subcheck {s}");
            std::process::exit(2)
        }
    };
    match &args.out {
        Some(o) => res.write(o),
        None => println!("{}", serde_json::to_string_pretty(&res).unwrap()),
    }
}

/// re-run the single case during which a worker process died, in a child process
fn crash_replay(v: &serde_json::Value) -> i32 {
    let args: Vec<String> = vec![
        v["subcheck"].as_str().unwrap_or("").to_string(),
        "--tier".into(),
        v["tier"].as_str().unwrap_or("quick").to_string(),
        "--seed".into(),
        v["seed"].as_u64().unwrap_or(0).to_string(),
        "--only-case".into(),
        v["case"].as_u64().unwrap_or(0).to_string(),
        "--out".into(),
        std::env::temp_dir().join(format!("crash-replay-{}.json", std::process::id())).display().to_string(),
    ];
    match vcommon::child_status(&args, std::time::Duration::from_secs(600)) {
        Ok(s) if s.success() => {
            println!("the case completed normally");
            0
        }
        Ok(s) => {
            println!("REPRODUCED crash: the case ended with {s}");
            1
        }
        Err(e) => {
            println!("REPRODUCED hang: {e}");
            1
        }
    }
}
