//! E2 `seqmc`: real crate + real dependencies; explicit-state search over operation histories and
//! bounded-exhaustive inputs against reference models (see /verif/DESIGN.md §2.2).
mod c01g;
mod c02;
mod c12;
mod c13;
mod c15p;
mod ledger;
mod shimconf;

fn main() {
    std::panic::set_hook(Box::new(|_| {}));
    let args = vcommon::parse_args();
    if let Some(p) = &args.replay {
        let v: serde_json::Value = serde_json::from_slice(&std::fs::read(p).expect("replay file")).expect("json");
        let v2 = v.clone();
        let r = if v.get("replay").is_some() { v["replay"].clone() } else { v };
        let code = match r["harness"].as_str().unwrap_or("") {
            "c02" => c02::replay(&r),
            "c12" => c12::replay(&v2),
            h => {
                eprintln!("unknown harness {h}");
                2
            }
        };
        std::process::exit(code);
    }
    let res = match args.subcheck.as_str() {
        "c01_growth" => c01g::run(&args),
        "c02_map" => c02::run(&args, "C02"),
        "c13_history" => c02::run(&args, "C13"),
        "c12_watcher" => c12::run(&args),
        "c13_types" => c13::run(&args),
        "shimconf" => shimconf::run(&args),
        "c15_proc" => c15p::run(&args),
        s => {
            eprintln!("unknown subcheck {s}");
            std::process::exit(2)
        }
    };
    match &args.out {
        Some(o) => res.write(o),
        None => println!("{}", serde_json::to_string_pretty(&res).unwrap()),
    }
}
