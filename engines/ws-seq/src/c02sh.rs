//! C02 (configuration part) — the map laws for **every shard count**: the number of shards of an
//! `AssetCache` is derived from `available_parallelism()`, so a look-up path and a removal path that
//! pick the shard differently agree on the power-of-two CPU counts of a developer machine and
//! disagree on 3, 5, 6, 7, … CPUs.  Every CPU count 1..=N of this machine is realised with
//! `sched_setaffinity` before the cache is built; on each, a fixed history (insert K keys of two
//! types through load / get_or_insert, then remove / take them one by one, re-insert, clear) is
//! compared step by step with a `BTreeMap`.
use crate::c02::{MapSrc, A1, V};
use crate::ledger::Tracked;
use assets_manager::{AssetCache, LocalAssetCache};
use serde_json::json;
use std::collections::BTreeMap;
use std::sync::Arc;
use vcommon::{Args, SubResult};

fn set_cpus(n: usize) -> bool {
    unsafe {
        let mut set: libc::cpu_set_t = std::mem::zeroed();
        for c in 0..n {
            libc::CPU_SET(c, &mut set);
        }
        libc::sched_setaffinity(0, std::mem::size_of::<libc::cpu_set_t>(), &set) == 0 && std::thread::available_parallelism().map(|p| p.get()).unwrap_or(0) == n
    }
}

pub fn run(args: &Args) -> SubResult {
    let mut res = SubResult::new("C02", "c02_shards");
    let k: usize = if args.thorough() { 256 } else { 48 };
    let ncpu = unsafe { libc::sysconf(libc::_SC_NPROCESSORS_ONLN) }.max(1) as usize;
    let ncpu = ncpu.min(64);
    res.bound = format!("every CPU count 1..={ncpu} (sched_setaffinity before the cache is built => every shard count the crate derives from available_parallelism on this machine) x front-ends AssetCache / AssetCache with reloader / AnyCache view / LocalAssetCache; history: {k} ids x 2 types inserted (load / get_or_insert), every key removed (remove) or taken (take) one by one, re-inserted, cleared");
    res.rule = "after every step contains / get_cached of every key must equal a BTreeMap model, remove returns true and take returns the stored value exactly for present keys; distinct = distinct (front-end, CPU count, step kind)".into();
    let mut files = BTreeMap::new();
    for i in 0..k {
        files.insert((format!("u{i}"), "a".to_string()), format!("{i}").into_bytes());
    }
    let files = Arc::new(files);
    let mut cases = vec![];
    for cpus in 1..=ncpu {
        for front in ["typed", "hot", "any", "local"] {
            cases.push((cpus, front));
        }
    }
    let total = cases.len();
    vcommon::run_cases(args, res, total, std::time::Duration::from_secs(600), |idx, res| {
        let (cpus, front) = cases[idx];
        if !set_cpus(cpus) {
            res.cap(format!("cannot restrict to {cpus} CPUs"));
            return;
        }
        crate::ledger::reset();
        let src = MapSrc { files: files.clone(), hot: front == "hot", tx: Default::default() };
        let what = json!({"engine": "seqmc", "harness": "c02sh", "cpus": cpus, "front": front});
        macro_rules! body {
            ($c:expr, $any:expr) => {{
                let mut c = $c;
                // model: (id, type) -> value; type 0 = A1 (loaded), 1 = V (inserted)
                let mut model: BTreeMap<(String, u8), i64> = BTreeMap::new();
                macro_rules! audit {
                    ($step:expr) => {{
                        for i in 0..k {
                            let id = format!("u{i}");
                            let (ga, gv, ca, cv) = if $any {
                                let a = c.as_any_cache();
                                (a.get_cached::<A1>(&id).map(|h| h.read().0), a.get_cached::<V>(&id).map(|h| h.read().0), a.contains::<A1>(&id), a.contains::<V>(&id))
                            } else {
                                (c.get_cached::<A1>(&id).map(|h| h.read().0), c.get_cached::<V>(&id).map(|h| h.read().0), c.contains::<A1>(&id), c.contains::<V>(&id))
                            };
                            let (ma, mv) = (model.get(&(id.clone(), 0)).copied(), model.get(&(id.clone(), 1)).copied());
                            res.transitions += 4;
                            if ga != ma || gv != mv || ca != ma.is_some() || cv != mv.is_some() {
                                res.violation(format!("c02_shards:{}:{front}", $step), format!("{cpus} CPUs, after {}: key {id}: get_cached A1 {ga:?} / V {gv:?}, contains {ca}/{cv}; model {ma:?} / {mv:?}", $step), what.clone());
                                return;
                            }
                        }
                        res.states += 1;
                        res.outcome(&(front, cpus, $step));
                    }};
                }
                macro_rules! insert_all {
                    () => {{
                        for i in 0..k {
                            let id = format!("u{i}");
                            if $any {
                                let a = c.as_any_cache();
                                let v = a.load::<A1>(&id).unwrap().read().0;
                                model.entry((id.clone(), 0)).or_insert(v);
                                let w = a.get_or_insert::<V>(&id, V(1000 + i as i64, Tracked::new())).read().0;
                                model.entry((id.clone(), 1)).or_insert(w);
                            } else {
                                let v = c.load::<A1>(&id).unwrap().read().0;
                                model.entry((id.clone(), 0)).or_insert(v);
                                let w = c.get_or_insert::<V>(&id, V(1000 + i as i64, Tracked::new())).read().0;
                                model.entry((id.clone(), 1)).or_insert(w);
                            }
                            if model[&(id.clone(), 0)] != i as i64 || model[&(id.clone(), 1)] != 1000 + i as i64 {
                                res.violation(format!("c02_shards:insert:{front}"), format!("{cpus} CPUs: inserting {id} returned {:?}/{:?}", model[&(id.clone(), 0)], model[&(id.clone(), 1)]), what.clone());
                                return;
                            }
                        }
                    }};
                }
                insert_all!();
                audit!("insert");
                for i in 0..k {
                    let id = format!("u{i}");
                    // A1: even ids removed, odd ids taken; V: the other way round
                    let (ra, rv): (Option<i64>, Option<i64>) = if i % 2 == 0 {
                        (if c.remove::<A1>(&id) { Some(-1) } else { None }, c.take::<V>(&id).map(|v| v.0))
                    } else {
                        (c.take::<A1>(&id).map(|v| v.0), if c.remove::<V>(&id) { Some(-1) } else { None })
                    };
                    let ea = model.remove(&(id.clone(), 0)).map(|v| if i % 2 == 0 { -1 } else { v });
                    let ev = model.remove(&(id.clone(), 1)).map(|v| if i % 2 == 0 { v } else { -1 });
                    res.transitions += 2;
                    if ra != ea || rv != ev {
                        res.violation(format!("c02_shards:remove-take:{front}"), format!("{cpus} CPUs: removing {id}: A1 {ra:?} (model {ea:?}), V {rv:?} (model {ev:?})"), what.clone());
                        return;
                    }
                    // a second removal of the same key finds nothing
                    if c.remove::<A1>(&id) || c.take::<V>(&id).is_some() {
                        res.violation(format!("c02_shards:removed-twice:{front}"), format!("{cpus} CPUs: {id} could be removed twice"), what.clone());
                        return;
                    }
                    if i % 8 == 0 || i + 1 == k {
                        audit!("remove");
                    }
                }
                insert_all!();
                audit!("reinsert");
                c.clear();
                model.clear();
                audit!("clear");
                drop(c);
                if crate::ledger::live() != 0 {
                    res.violation(format!("c02_shards:c13:leak:{front}"), format!("{cpus} CPUs: {} tracked values alive after the cache was dropped", crate::ledger::live()), what.clone());
                }
                res.evaluations += 1;
            }};
        }
        // a panic out of the cache ("wrong handle type", ...) is an observation, not a crash of the checker
        let r = std::panic::catch_unwind(std::panic::AssertUnwindSafe(|| match front {
            "typed" => body!(AssetCache::without_hot_reloading(src), false),
            "hot" => body!(AssetCache::with_source(src), false),
            "any" => body!(AssetCache::without_hot_reloading(src), true),
            _ => body!(LocalAssetCache::with_source(src), false),
        }));
        if let Err(e) = r {
            let msg = e.downcast_ref::<String>().cloned().or_else(|| e.downcast_ref::<&str>().map(|s| s.to_string())).unwrap_or_default();
            res.violation(format!("c02_shards:panic:{front}"), format!("{cpus} CPUs: the cache panicked during the history: {msg}"), what.clone());
        }
        if res.samples.len() < 3 {
            res.sample(json!({"front": front, "cpus": cpus, "keys": 2 * k, "steps": ["insert", "remove/take each", "reinsert", "clear"]}));
        }
    })
}
