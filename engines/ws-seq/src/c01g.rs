//! C01 (history part) — a handle stays valid and readable however many other entries are inserted
//! (map growth / rehash inside a shard), for every front-end and shard count.
use crate::c02::{MapSrc, A1, V};
use crate::ledger::Tracked;
use assets_manager::{AssetCache, LocalAssetCache};
use serde_json::json;
use std::collections::BTreeMap;
use std::sync::Arc;
use vcommon::{Args, SubResult};

fn set_cpus(n: usize) -> bool {
    // workers are pinned to one CPU by the pool: widen to the first n CPUs of the machine
    unsafe {
        let mut set: libc::cpu_set_t = std::mem::zeroed();
        for c in 0..n {
            libc::CPU_SET(c, &mut set);
        }
        libc::sched_setaffinity(0, std::mem::size_of::<libc::cpu_set_t>(), &set) == 0 && std::thread::available_parallelism().map(|p| p.get()).unwrap_or(0) == n
    }
}

pub fn run(args: &Args) -> SubResult {
    let mut res = SubResult::new("C01", "c01_growth");
    let thorough = args.thorough();
    let n_max: usize = if thorough { 4096 } else { 1024 };
    res.bound = format!("a handle is taken, then every N in 1..={n_max} unrelated keys are inserted one by one (so every hash-map capacity boundary of every shard is crossed), through load and through get_or_insert; front-ends AssetCache / AnyCache view / LocalAssetCache; 4, 8, 16 and 64 shards (CPU affinity 1, 2, 4, 16)");
    res.rule = "after every single insertion: the old handle's address is what get_cached returns, its contents are unchanged, and all earlier handles still read their own value (sampled every 64 insertions and at powers of two); distinct = distinct (front-end, shards, insertion path, N at which a capacity class changes)".into();
    let mut files = BTreeMap::new();
    files.insert(("k".to_string(), "a".to_string()), b"7".to_vec());
    for i in 0..n_max {
        files.insert((format!("u{i}"), "a".to_string()), format!("{i}").into_bytes());
    }
    let files = Arc::new(files);
    let mut cases = vec![];
    for cpus in [1usize, 2, 4, 16] {
        for front in ["typed", "any", "local"] {
            for via in ["load", "goi"] {
                cases.push((cpus, front, via));
            }
        }
    }
    let total = cases.len();
    vcommon::run_cases(args, res, total, std::time::Duration::from_secs(600), |idx, res| {
        let (cpus, front, via) = cases[idx];
        if !set_cpus(cpus) {
            res.cap(format!("cannot restrict to {cpus} CPUs"));
            return;
        }
        crate::ledger::reset();
        let src = MapSrc { files: files.clone(), hot: false, tx: Default::default() };
        let what = json!({"engine": "seqmc", "harness": "c01g", "cpus": cpus, "front": front, "via": via});
        macro_rules! body {
            ($c:expr, $any:expr) => {{
                let c = $c;
                let h0 = c.load::<A1>("k").unwrap();
                let a0 = h0 as *const _ as usize;
                let hv = c.get_or_insert::<V>("k", V(99, Tracked::new()));
                let av = hv as *const _ as usize;
                let mut olds: Vec<(usize, i64, String)> = vec![];
                for i in 0..n_max {
                    let id = format!("u{i}");
                    let (addr, val) = if via == "load" {
                        let h = if $any { c.as_any_cache().load::<A1>(&id).unwrap() } else { c.load::<A1>(&id).unwrap() };
                        (h as *const _ as usize, h.read().0)
                    } else {
                        let h = if $any { c.as_any_cache().get_or_insert::<A1>(&id, A1(i as i64, Tracked::new())) } else { c.get_or_insert::<A1>(&id, A1(i as i64, Tracked::new())) };
                        (h as *const _ as usize, h.read().0)
                    };
                    olds.push((addr, val, id));
                    res.transitions += 1;
                    let g = c.get_cached::<A1>("k").map(|h| h as *const _ as usize);
                    let gv = c.get_cached::<V>("k").map(|h| h as *const _ as usize);
                    if g != Some(a0) || gv != Some(av) || h0.read().0 != 7 || hv.read().0 != 99 {
                        res.violation(format!("c01_growth:handle-moved:{front}:{via}"), format!("after {} unrelated insertions ({cpus} CPUs): handle of k is {g:?} (was {a0}), value {}", i + 1, h0.read().0), what.clone());
                        break;
                    }
                    if (i + 1usize).is_power_of_two() || i % 64 == 0 {
                        for (addr, val, id) in &olds {
                            let h = c.get_cached::<A1>(id).unwrap();
                            if h as *const _ as usize != *addr || h.read().0 != *val {
                                res.violation(format!("c01_growth:old-handle-broken:{front}:{via}"), format!("after {} insertions the handle of {id} changed", i + 1), what.clone());
                            }
                        }
                        res.outcome(&(front, cpus, via, i + 1));
                    }
                }
                res.evaluations += 1;
                res.states += n_max as u64;
            }};
        }
        match front {
            "typed" => body!(AssetCache::without_hot_reloading(src), false),
            "any" => body!(AssetCache::without_hot_reloading(src), true),
            _ => body!(LocalAssetCache::with_source(src), false),
        }
        if res.samples.len() < 2 {
            res.sample(json!({"front": front, "cpus": cpus, "shards": 4 * cpus.next_power_of_two(), "via": via, "insertions": n_max}));
        }
    })
}
