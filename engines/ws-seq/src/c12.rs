//! C12 — filesystem notifications name the right entries (inverse of path_of).  The REAL
//! `NotifyEventHandler` (through the cfg(assets_manager_verif) hook) is fed every notification
//! kind for every entry position / path shape of a real temporary tree.
use assets_manager::hot_reloading::verif::{event_channel, id_of_path, Handler};
use assets_manager::source::{DirEntry, FileSystem, OwnedDirEntry};
use notify::event::{CreateKind, DataChange, MetadataKind, ModifyKind, RemoveKind, RenameMode};
use notify::{Event, EventKind};
use serde_json::json;
use std::collections::BTreeSet;
use std::path::{Path, PathBuf};
use vcommon::{Args, SubResult};

#[derive(Clone, Copy, PartialEq, Eq, Debug)]
enum K {
    File,
    Dir,
}

/// entries of the scratch tree: (relative path, kind)
const TREE: &[(&str, K)] = &[
    ("t.x", K::File),
    ("u", K::File),
    ("d", K::Dir),
    ("d/n.x", K::File),
    ("d/m", K::File),
    ("d/e", K::Dir),
    ("d/e/k.y", K::File),
    ("é x.x", K::File),
    ("d/é x", K::Dir),
    // not expressible as ids
    ("a.b.x", K::File),
    ("dd.x", K::Dir),
    ("d/a.b", K::Dir),
];

/// entries that are symbolic links: (relative path, kind of what the link points to, target).  A source
/// sees a link to a directory as that directory (`read_dir`, `exists` follow links); inotify reports
/// events on the link itself with the *file* flavour of the kind (IN_ISDIR is not set for a link).
const LINKS: &[(&str, K, &str)] = &[("ln", K::Dir, "d/e"), ("d/ln", K::Dir, "d/e"), ("lf.x", K::File, "t.x"), ("d/lf", K::File, "u")];
fn is_link(rel: &str) -> bool {
    LINKS.iter().any(|l| l.0 == rel)
}

fn build_tree(root: &Path) {
    let _ = std::fs::remove_dir_all(root);
    std::fs::create_dir_all(root).unwrap();
    for (rel, k) in TREE {
        let p = root.join(rel);
        match k {
            K::Dir => std::fs::create_dir_all(&p).unwrap(),
            K::File => {
                std::fs::create_dir_all(p.parent().unwrap()).unwrap();
                std::fs::write(&p, b"x").unwrap();
            }
        }
    }
    for (rel, _, target) in LINKS {
        std::os::unix::fs::symlink(root.join(target), root.join(rel)).unwrap();
    }
}

/// The entry a relative path denotes, from the statement (None: not expressible as an id).
fn entry_of(rel: &str, k: K) -> Option<(String, Option<String>)> {
    if rel.is_empty() {
        return if k == K::Dir { Some((String::new(), None)) } else { None };
    }
    let comps: Vec<&str> = rel.split('/').collect();
    let (last, dirs) = comps.split_last().unwrap();
    if dirs.iter().any(|c| c.contains('.')) {
        return None;
    }
    let mut id: Vec<String> = dirs.iter().map(|s| s.to_string()).collect();
    match k {
        K::Dir => {
            if last.contains('.') {
                return None;
            }
            id.push(last.to_string());
            Some((id.join("."), None))
        }
        K::File => {
            let (stem, ext) = match last.rfind('.') {
                Some(0) | None => (last.to_string(), String::new()),
                Some(n) => (last[..n].to_string(), last[n + 1..].to_string()),
            };
            if stem.contains('.') {
                return None;
            }
            id.push(stem);
            Some((id.join("."), Some(ext)))
        }
    }
}
fn parent_rel(rel: &str) -> Option<&str> {
    if rel.is_empty() {
        None
    } else {
        Some(match rel.rfind('/') {
            Some(n) => &rel[..n],
            None => "",
        })
    }
}
fn fmt_entry(e: &(String, Option<String>)) -> String {
    match &e.1 {
        Some(ext) => format!("File({:?},{:?})", e.0, ext),
        None => format!("Dir({:?})", e.0),
    }
}
fn fmt_owned(e: &OwnedDirEntry) -> String {
    match e {
        OwnedDirEntry::File(i, x) => format!("File({:?},{:?})", i.as_str(), x.as_str()),
        OwnedDirEntry::Directory(i) => format!("Dir({:?})", i.as_str()),
    }
}

fn shape(root: &Path, rel: &str, shape: usize) -> PathBuf {
    match shape {
        0 => {
            if rel.is_empty() {
                root.to_path_buf()
            } else {
                root.join(rel)
            }
        }
        1 => root.join(".").join(rel), // "./" component
        _ => root.join("d").join("..").join(rel), // "d/../" components
    }
}

struct Case {
    class: &'static str,
    kind: EventKind,
    /// disk action performed before delivery: "none" | "remove" | "rename" (path -> path + "2")
    action: &'static str,
    /// which of {entry, parent} the statement requires
    want_entry: bool,
    want_parent: bool,
    /// judged at all?  (Access / Other / Any carry no obligation beyond "nothing wrong is named")
    judged: bool,
}

fn cases() -> Vec<Case> {
    let c = |class, kind, action, want_entry, want_parent, judged| Case { class, kind, action, want_entry, want_parent, judged };
    vec![
        c("create", EventKind::Create(CreateKind::File), "none", true, true, true),
        c("create", EventKind::Create(CreateKind::Folder), "none", true, true, true),
        c("create", EventKind::Create(CreateKind::Any), "none", true, true, true),
        c("modify", EventKind::Modify(ModifyKind::Data(DataChange::Any)), "none", true, false, true),
        c("modify", EventKind::Modify(ModifyKind::Data(DataChange::Content)), "none", true, false, true),
        c("modify", EventKind::Modify(ModifyKind::Metadata(MetadataKind::Any)), "none", true, false, true),
        c("modify", EventKind::Modify(ModifyKind::Any), "none", true, false, true),
        c("rename-from", EventKind::Modify(ModifyKind::Name(RenameMode::From)), "rename", true, true, true),
        c("rename-to", EventKind::Modify(ModifyKind::Name(RenameMode::To)), "none", true, true, true),
        c("rename-any", EventKind::Modify(ModifyKind::Name(RenameMode::Any)), "none", true, true, true),
        c("remove-file", EventKind::Remove(RemoveKind::File), "remove", true, true, true),
        c("remove-folder", EventKind::Remove(RemoveKind::Folder), "remove", true, true, true),
        c("remove-any", EventKind::Remove(RemoveKind::Any), "remove", true, true, true),
        c("access", EventKind::Access(notify::event::AccessKind::Any), "none", false, false, false),
        c("other", EventKind::Other, "none", false, false, false),
        c("any", EventKind::Any, "none", true, false, false),
    ]
}

fn kind_matches(kind: &EventKind, k: K) -> bool {
    // do not deliver Create(File) for a directory etc.
    match kind {
        EventKind::Create(CreateKind::File) | EventKind::Remove(RemoveKind::File) | EventKind::Modify(ModifyKind::Data(_)) => k == K::File,
        EventKind::Create(CreateKind::Folder) | EventKind::Remove(RemoveKind::Folder) => k == K::Dir,
        _ => true,
    }
}

fn judge(res: &mut SubResult, class: &str, pos: &str, got: &BTreeSet<String>, want: &BTreeSet<String>, allowed: &BTreeSet<String>, judged: bool, what: impl Fn() -> serde_json::Value, label: &dyn Fn(&str) -> String) {
    for m in want.difference(got) {
        if judged {
            res.violation(format!("c12:{class}:missing:{}", label(m)), format!("{class} notification at position {pos}: expected {want:?}, the handler sent {got:?}"), what());
        }
    }
    for x in got.difference(allowed) {
        res.violation(format!("c12:{class}:extra:{}", label(x)), format!("{class} notification at position {pos}: the handler named {x}, allowed {allowed:?}"), what());
    }
}

pub fn run(args: &Args) -> SubResult {
    let mut res = SubResult::new("C12", "c12_watcher");
    let base = std::env::temp_dir().join(format!("c12-{}", std::process::id()));
    let r1 = base.join("root1");
    let r2 = base.join("root2");
    res.bound = format!("{} entries (root itself, top level, nested to depth 3; files with/without extension, directories, symbolic links to files and to directories, unicode+space, dotted stems and dotted directory names) x 16 notify::EventKinds x 3 path shapes (plain, './', 'd/../') x {{one root, two roots}} + paths outside every root, relative, non-UTF-8; deletions and renames really performed before delivery; all ordered pairs of 92 events through one handler object (history independence); all valid ids to depth 3 for the path_of / id_of_path round trip", TREE.len() + LINKS.len() + 1);
    res.rule = "exhaustive product; oracle from the statement: {entry whose path_of is the path, with the kind it has/had} + {parent directory for create/rename/remove}, nothing for inexpressible paths; distinct = distinct (kind class, position, produced set)".into();
    let cs = cases();
    let mut entries: Vec<(&str, K)> = vec![("", K::Dir)];
    entries.extend(TREE.iter().copied());
    entries.extend(LINKS.iter().map(|l| (l.0, l.1)));
    for two_roots in [false, true] {
        for (rel, k) in &entries {
            for c in &cs {
                if is_link(rel) {
                    // a link is created / removed / renamed as a file, and written through, never into
                    if matches!(c.kind, EventKind::Create(CreateKind::Folder) | EventKind::Remove(RemoveKind::Folder) | EventKind::Modify(ModifyKind::Data(_))) {
                        continue;
                    }
                } else if !kind_matches(&c.kind, *k) {
                    continue;
                }
                if rel.is_empty() && c.action != "none" {
                    continue; // the root itself is neither removed nor renamed
                }
                for sh in 0..3usize {
                    if rel.is_empty() && sh != 0 {
                        continue;
                    }
                    build_tree(&r1);
                    build_tree(&r2);
                    let roots = if two_roots { vec![r2.clone(), r1.clone()] } else { vec![r1.clone()] };
                    let path = shape(&r1, rel, sh);
                    match c.action {
                        "remove" => {
                            let p = r1.join(rel);
                            if *k == K::Dir && !is_link(rel) {
                                std::fs::remove_dir_all(&p).unwrap()
                            } else {
                                std::fs::remove_file(&p).unwrap()
                            }
                        }
                        "rename" => {
                            let p = r1.join(rel);
                            let mut q = p.clone().into_os_string();
                            q.push("2");
                            std::fs::rename(&p, PathBuf::from(q)).unwrap();
                        }
                        _ => {}
                    }
                    let (tx, rx) = event_channel();
                    let mut h = Handler::new(roots, tx);
                    let ev = Event { kind: c.kind, paths: vec![path.clone()], attrs: Default::default() };
                    let r = std::panic::catch_unwind(std::panic::AssertUnwindSafe(|| h.handle(Ok(ev))));
                    res.evaluations += 1;
                    res.transitions += 1;
                    let what = || json!({"engine": "seqmc", "harness": "c12", "rel": rel, "is_dir": *k == K::Dir, "kind": format!("{:?}", c.kind), "class": c.class, "shape": sh, "two_roots": two_roots});
                    if r.is_err() {
                        res.violation(format!("c12:{}:panic", c.class), format!("the handler panicked on {:?} for {path:?}", c.kind), what());
                        continue;
                    }
                    let got: BTreeSet<String> = rx.drain().iter().map(fmt_owned).collect();
                    let e = entry_of(rel, *k);
                    let p = parent_rel(rel).and_then(|pr| entry_of(pr, K::Dir));
                    let mut want = BTreeSet::new();
                    let mut allowed = BTreeSet::new();
                    if let Some(e) = &e {
                        allowed.insert(fmt_entry(e));
                        if c.want_entry {
                            want.insert(fmt_entry(e));
                        }
                        // the parent is named only when the entry itself is expressible
                        if let Some(p) = &p {
                            allowed.insert(fmt_entry(p));
                            if c.want_parent {
                                want.insert(fmt_entry(p));
                            }
                        }
                    } else if let Some(p) = &p {
                        // an inexpressible child: naming its (expressible) parent is harmless and
                        // for create/remove even desirable; never required, never a violation
                        allowed.insert(fmt_entry(p));
                    }
                    let pos = if rel.is_empty() { "root" } else if rel.contains('/') { "nested" } else { "top" };
                    let efmt = e.as_ref().map(fmt_entry);
                    let pfmt = p.as_ref().map(fmt_entry);
                    let kd = match (*k == K::Dir, is_link(rel)) {
                        (true, false) => "dir",
                        (false, false) => "file",
                        (true, true) => "link-to-dir",
                        (false, true) => "link-to-file",
                    };
                    let id_of = |f: &str| -> String { f.split('"').nth(1).unwrap_or("").to_string() };
                    let label = |x: &str| -> String {
                        if Some(x.to_string()) == efmt {
                            if rel.is_empty() { "entry-root".into() } else { format!("entry/{kd}") }
                        } else if Some(x.to_string()) == pfmt {
                            if x == "Dir(\"\")" { "parent-root".into() } else { "parent".into() }
                        } else if e.is_none() {
                            format!("inexpressible-path-named/{kd}")
                        } else if efmt.as_ref().map(|f| id_of(f) == id_of(x)).unwrap_or(false) {
                            format!("entry-with-wrong-kind/{kd}")
                        } else {
                            "unrelated".into()
                        }
                    };
                    res.outcome(&(c.class, pos, *k == K::Dir, e.is_some(), &got));
                    if res.samples.len() < 3 && sh == 1 {
                        res.sample(json!({"path": path.display().to_string(), "kind": format!("{:?}", c.kind), "sent": got, "expected": want}));
                    }
                    judge(&mut res, c.class, pos, &got, &want, &allowed, c.judged, what, &label);
                }
            }
        }
    }
    // rename with both paths in one event
    for (rel, k) in &entries {
        if rel.is_empty() || entry_of(rel, *k).is_none() {
            continue;
        }
        build_tree(&r1);
        let from = r1.join(rel);
        let to_rel = format!("{}/{}", parent_rel(rel).unwrap(), "renamed").trim_start_matches('/').to_string();
        let to = r1.join(&to_rel);
        std::fs::rename(&from, &to).unwrap();
        let (tx, rx) = event_channel();
        let mut h = Handler::new(vec![r1.clone()], tx);
        h.handle(Ok(Event { kind: EventKind::Modify(ModifyKind::Name(RenameMode::Both)), paths: vec![from, to], attrs: Default::default() }));
        res.evaluations += 1;
        let got: BTreeSet<String> = rx.drain().iter().map(fmt_owned).collect();
        let mut want = BTreeSet::new();
        want.insert(fmt_entry(&entry_of(rel, *k).unwrap()));
        want.insert(fmt_entry(&entry_of(&to_rel, *k).unwrap()));
        let p = fmt_entry(&entry_of(parent_rel(rel).unwrap(), K::Dir).unwrap());
        want.insert(p.clone());
        let what = || json!({"engine": "seqmc", "harness": "c12", "rel": rel, "is_dir": *k == K::Dir, "class": "rename-both"});
        let kd = if *k == K::Dir { "dir" } else { "file" };
        let label = |x: &str| -> String { if x == p { if x == "Dir(\"\")" { "parent-root".into() } else { "parent".into() } } else if x.contains("renamed") { format!("entry-new/{kd}") } else { format!("entry-old/{kd}") } };
        res.outcome(&("rename-both", rel.contains('/'), &got));
        judge(&mut res, "rename-both", if rel.contains('/') { "nested" } else { "top" }, &got, &want, &want, true, what, &label);
    }
    // paths that must produce nothing and never stop the handler
    build_tree(&r1);
    {
        use std::os::unix::ffi::OsStringExt;
        let bad = std::ffi::OsString::from_vec(vec![b'n', 0xff, b'.', b'x']);
        let bad_ext = std::ffi::OsString::from_vec(vec![b'a', b'.', 0xff]);
        let weird: Vec<PathBuf> = vec![r1.join(&bad_ext), r1.join("d").join(&bad_ext), base.join("outside.x"), PathBuf::from("relative/p.x"), PathBuf::from("/"), PathBuf::new(), r1.join(&bad), r1.join("d").join(&bad), base.clone(), r1.join("..").join("outside.x")];
        for p in weird {
            for c in &cs {
                let (tx, rx) = event_channel();
                let mut h = Handler::new(vec![r1.clone()], tx);
                let r = std::panic::catch_unwind(std::panic::AssertUnwindSafe(|| h.handle(Ok(Event { kind: c.kind, paths: vec![p.clone()], attrs: Default::default() }))));
                res.evaluations += 1;
                let what = || json!({"engine": "seqmc", "harness": "c12", "weird": p.display().to_string(), "kind": format!("{:?}", c.kind)});
                if r.is_err() {
                    res.violation(format!("c12:{}:panic-on-foreign-path", c.class), format!("handler panicked on {p:?}"), what());
                    continue;
                }
                let got: Vec<String> = rx.drain().iter().map(fmt_owned).collect();
                res.outcome(&("weird", &got));
                // a non-UTF-8 child of a watched directory may still name that directory
                let ok = got.iter().all(|g| p.starts_with(&r1) && (g == "Dir(\"\")" || g == "Dir(\"d\")"));
                if !ok {
                    res.violation(format!("c12:{}:event-for-foreign-path", c.class), format!("path {p:?} is outside every root / not expressible, yet the handler sent {got:?}"), what());
                }
                // the handler must still work afterwards
                h.handle(Ok(Event { kind: EventKind::Modify(ModifyKind::Any), paths: vec![r1.join("t.x")], attrs: Default::default() }));
                if rx.drain().iter().map(fmt_owned).collect::<Vec<_>>() != vec!["File(\"t\",\"x\")".to_string()] {
                    res.violation("c12:handler-stopped".to_string(), format!("after {p:?} the handler no longer reports events"), what());
                }
            }
        }
    }
    // history independence: what the handler says about an event must not depend on the events it saw
    // before (it is one long-lived object; any scratch state it keeps between events must be reset on
    // every exit path, including the early returns taken for paths that are not expressible as ids)
    {
        build_tree(&r1);
        use std::os::unix::ffi::OsStringExt;
        let mut paths: Vec<PathBuf> = entries.iter().map(|(rel, _)| if rel.is_empty() { r1.clone() } else { r1.join(rel) }).collect();
        paths.push(r1.join("d").join("a.b.x"));
        paths.push(r1.join("d").join("e").join(".k.y.swp"));
        paths.push(r1.join("d").join(std::ffi::OsString::from_vec(vec![b'n', 0xff, b'.', b'x'])));
        paths.push(base.join("outside.x"));
        paths.push(r1.join("d").join("absent.x"));
        let kinds = [EventKind::Create(CreateKind::Any), EventKind::Modify(ModifyKind::Any), EventKind::Modify(ModifyKind::Name(RenameMode::To)), EventKind::Remove(RemoveKind::Any)];
        let evs: Vec<Event> = paths.iter().flat_map(|p| kinds.iter().map(move |k| Event { kind: *k, paths: vec![p.clone()], attrs: Default::default() })).collect();
        let fresh: Vec<Vec<String>> = evs
            .iter()
            .map(|e| {
                let (tx, rx) = event_channel();
                let mut h = Handler::new(vec![r1.clone()], tx);
                h.handle(Ok(e.clone()));
                rx.drain().iter().map(fmt_owned).collect()
            })
            .collect();
        for (i, e1) in evs.iter().enumerate() {
            let (tx, rx) = event_channel();
            let mut h = Handler::new(vec![r1.clone()], tx);
            for (j, e2) in evs.iter().enumerate() {
                // e1, then e2 (the handler is reused for all e2: every e2 is also preceded by e1 again)
                h.handle(Ok(e1.clone()));
                let _ = rx.drain();
                h.handle(Ok(e2.clone()));
                let got: Vec<String> = rx.drain().iter().map(fmt_owned).collect();
                res.evaluations += 1;
                res.transitions += 2;
                if got != fresh[j] {
                    res.violation(
                        "c12:history-dependent".to_string(),
                        format!("after {:?} on {:?}, the event {:?} on {:?} yields {got:?}; a fresh handler yields {:?}", e1.kind, e1.paths[0], e2.kind, e2.paths[0], fresh[j]),
                        json!({"engine": "seqmc", "harness": "c12", "pair": [i, j]}),
                    );
                }
            }
        }
        res.outcome(&("pairs", evs.len()));
    }
    // round trip over all valid entries to depth 3
    let fs = FileSystem::new(&r1).unwrap();
    let names = ["a", "b", "é x"];
    let exts = ["", "x", "y"];
    let mut ids: Vec<String> = vec![];
    for a in names {
        ids.push(a.into());
        for b in names {
            ids.push(format!("{a}.{b}"));
            for c in names {
                ids.push(format!("{a}.{b}.{c}"));
            }
        }
    }
    let mut seen_f: std::collections::BTreeMap<PathBuf, String> = Default::default();
    let mut seen_d: std::collections::BTreeMap<PathBuf, String> = Default::default();
    let rt = base.join("rt");
    for id in &ids {
        for ext in exts {
            let p = fs.path_of(DirEntry::File(id, ext));
            res.evaluations += 1;
            if let Some(prev) = seen_f.insert(p.clone(), format!("{id}|{ext}")) {
                res.violation("c12:roundtrip:two-files-one-path".to_string(), format!("File({id:?},{ext:?}) and {prev} share the path {p:?}"), json!({"engine": "seqmc", "harness": "c12", "roundtrip": id}));
            }
            // create it for real under a scratch root and map it back
            let _ = std::fs::remove_dir_all(&rt);
            let real = crate::c12::reroot(&p, fs.root(), &rt);
            std::fs::create_dir_all(real.parent().unwrap()).unwrap();
            std::fs::write(&real, b"1").unwrap();
            let back = id_of_path(&rt, &real).map(|e| fmt_owned(&e));
            let want = format!("File({id:?},{ext:?})");
            res.outcome(&("rt", &back == &Some(want.clone())));
            if back != Some(want.clone()) {
                res.violation("c12:roundtrip:file".to_string(), format!("id_of_path(path_of({want})) = {back:?}"), json!({"engine": "seqmc", "harness": "c12", "roundtrip": id, "ext": ext}));
            }
        }
        let p = fs.path_of(DirEntry::Directory(id));
        if let Some(prev) = seen_d.insert(p.clone(), id.clone()) {
            res.violation("c12:roundtrip:two-dirs-one-path".to_string(), format!("Directory({id:?}) and {prev} share the path {p:?}"), json!({"engine": "seqmc", "harness": "c12", "roundtrip": id}));
        }
        let _ = std::fs::remove_dir_all(&rt);
        let real = reroot(&p, fs.root(), &rt);
        std::fs::create_dir_all(&real).unwrap();
        let back = id_of_path(&rt, &real).map(|e| fmt_owned(&e));
        let want = format!("Dir({id:?})");
        res.evaluations += 1;
        if back != Some(want.clone()) {
            res.violation("c12:roundtrip:dir".to_string(), format!("id_of_path(path_of({want})) = {back:?}"), json!({"engine": "seqmc", "harness": "c12", "roundtrip": id}));
        }
    }
    res.states = res.distinct.len() as u64;
    // binding of the synthetic alphabet: a scripted history under the real notify watcher
    if !args.rest.iter().any(|a| a == "--no-binding") {
        binding(&mut res, &base.join("bind"), &cs);
    }
    let _ = std::fs::remove_dir_all(&base);
    res
}

pub fn reroot(p: &Path, old: &Path, new: &Path) -> PathBuf {
    new.join(p.strip_prefix(old).unwrap())
}

/// Real inotify history: every (kind, path shape) the real watcher reports must belong to the
/// enumerated alphabet (kind discriminant known, path absolute under the root, plain shape).
fn binding(res: &mut SubResult, dir: &Path, cs: &[Case]) {
    use notify::Watcher;
    let _ = std::fs::remove_dir_all(dir);
    std::fs::create_dir_all(dir.join("sub")).unwrap();
    let dir = dir.canonicalize().unwrap();
    let seen: std::sync::Arc<std::sync::Mutex<Vec<Event>>> = Default::default();
    let s2 = seen.clone();
    let mut w = match notify::recommended_watcher(move |e: notify::Result<Event>| {
        if let Ok(e) = e {
            s2.lock().unwrap().push(e);
        }
    }) {
        Ok(w) => w,
        Err(e) => {
            res.note("binding", json!(format!("real watcher unavailable: {e}")));
            return;
        }
    };
    if let Err(e) = w.watch(&dir, notify::RecursiveMode::Recursive) {
        res.note("binding", json!(format!("real watcher unavailable: {e}")));
        return;
    }
    let nap = || std::thread::sleep(std::time::Duration::from_millis(60));
    std::fs::write(dir.join("new.txt"), "1").unwrap();
    nap();
    std::fs::write(dir.join("new.txt"), "22").unwrap();
    nap();
    std::fs::write(dir.join("sub/y.txt"), "1").unwrap();
    nap();
    std::fs::rename(dir.join("sub/y.txt"), dir.join("sub/z.txt")).unwrap();
    nap();
    std::fs::create_dir(dir.join("sub/inner")).unwrap();
    nap();
    std::fs::remove_file(dir.join("new.txt")).unwrap();
    nap();
    std::fs::remove_dir(dir.join("sub/inner")).unwrap();
    nap();
    std::thread::sleep(std::time::Duration::from_millis(150));
    drop(w);
    let evs = seen.lock().unwrap().clone();
    let known: Vec<std::mem::Discriminant<EventKind>> = cs.iter().map(|c| std::mem::discriminant(&c.kind)).collect();
    let mut kinds = BTreeSet::new();
    for e in &evs {
        res.traces_validated += 1;
        kinds.insert(format!("{:?}", e.kind));
        let in_alphabet = known.contains(&std::mem::discriminant(&e.kind)) && e.paths.iter().all(|p| p.is_absolute() && p.starts_with(&dir) && !p.components().any(|c| matches!(c, std::path::Component::CurDir | std::path::Component::ParentDir)));
        if !in_alphabet {
            res.violation("c12:binding:real-event-outside-alphabet".to_string(), format!("the real watcher reported {e:?}, which the enumeration does not cover"), json!({"engine": "seqmc", "harness": "c12", "binding": format!("{e:?}")}));
        }
    }
    res.note("binding_real_event_kinds", json!(kinds));
    res.note("binding_real_events", json!(evs.len()));
}

pub fn replay(v: &serde_json::Value) -> i32 {
    // re-run the whole (fast) sub-check and look for the same key
    let args = Args { subcheck: "c12_watcher".into(), tier: "quick".into(), seed: 0, out: None, worker: None, replay: None, jobs: 1, only_case: None, resume_from: 0, part: 0, rest: vec!["--no-binding".into()] };
    let res = run(&args);
    let key = v["key"].as_str().unwrap_or("");
    for viol in &res.violations {
        if key.is_empty() || viol.key == key {
            println!("REPRODUCED {}: {}", viol.key, viol.desc);
            return 1;
        }
    }
    println!("no violation");
    0
}
