//! Shim conformance: the dependency models used by E1 (`engines/shims`) against the real crates.
//! Exhaustive single-threaded operation sequences on two channels / one lock, identical
//! observation traces required; blocking behaviour compared through try_* / timeouts.
use serde_json::json;
use vcommon::{Args, SubResult};

// ---------------------------------------------------------------- channels

#[derive(Clone, Copy, Debug, PartialEq)]
enum COp {
    Send(usize),
    TryRecv(usize),
    DropTx(usize),
    DropRx(usize),
    CloneTx(usize),
    Ready,
}

fn chan_alphabet() -> Vec<COp> {
    let mut v = vec![];
    for c in 0..2 {
        v.extend([COp::Send(c), COp::TryRecv(c), COp::DropTx(c), COp::CloneTx(c)]);
    }
    v.push(COp::DropRx(1));
    v.push(COp::Ready);
    v
}

macro_rules! chan_run {
    ($krate:ident, $ops:expr, $ready:expr) => {{
        use $krate as cb;
        let mut txs: Vec<Vec<cb::Sender<u32>>> = vec![];
        let mut rxs: Vec<Option<cb::Receiver<u32>>> = vec![];
        for _ in 0..2 {
            let (t, r) = cb::unbounded::<u32>();
            txs.push(vec![t]);
            rxs.push(Some(r));
        }
        let mut n = 0u32;
        let mut obs: Vec<String> = vec![];
        for op in $ops {
            match *op {
                COp::Send(c) => {
                    n += 1;
                    obs.push(match txs[c].first() {
                        Some(t) => format!("send{c}:{}", t.send(n).is_ok()),
                        None => format!("send{c}:no-sender"),
                    });
                }
                COp::TryRecv(c) => obs.push(match &rxs[c] {
                    Some(r) => match r.try_recv() {
                        Ok(v) => format!("recv{c}:{v}"),
                        Err(cb::TryRecvError::Empty) => format!("recv{c}:empty"),
                        Err(cb::TryRecvError::Disconnected) => format!("recv{c}:disconnected"),
                    },
                    None => format!("recv{c}:no-receiver"),
                }),
                COp::DropTx(c) => {
                    txs[c].pop();
                    obs.push(format!("droptx{c}"));
                }
                COp::DropRx(c) => {
                    rxs[c] = None;
                    obs.push(format!("droprx{c}"));
                }
                COp::CloneTx(c) => {
                    if let Some(t) = txs[c].first().cloned() {
                        txs[c].push(t);
                    }
                    obs.push(format!("clonetx{c}"));
                }
                COp::Ready => {
                    if let (Some(r0), Some(r1)) = (&rxs[0], &rxs[1]) {
                        let mut sel = cb::Select::new();
                        sel.recv(r0);
                        sel.recv(r1);
                        let f: &dyn Fn(&mut cb::Select) -> String = &$ready;
                        obs.push(f(&mut sel));
                    } else {
                        obs.push("ready:n/a".into());
                    }
                }
            }
        }
        obs
    }};
}

fn channels(res: &mut SubResult, depth: usize, first: usize) {
    let alpha = chan_alphabet();
    let mut idx = vec![0usize; depth];
    idx[0] = first;
    loop {
        let ops: Vec<COp> = idx.iter().map(|i| alpha[*i]).collect();
        // real crossbeam: the set of possible answers of ready() is probed with try_ready a few times
        let real = chan_run!(crossbeam_channel, &ops, |sel: &mut crossbeam_channel::Select| {
            let mut set = std::collections::BTreeSet::new();
            for _ in 0..24 {
                match sel.try_ready() {
                    Ok(i) => {
                        set.insert(i);
                    }
                    Err(_) => break,
                }
            }
            format!("ready:{set:?}")
        });
        let ops2 = ops.clone();
        let out = std::sync::Arc::new(std::sync::Mutex::new(vec![]));
        let o2 = out.clone();
        let r = detsched::run_one(&[], &detsched::Config::default(), move || {
            let obs = chan_run!(shim_crossbeam, &ops2, |sel: &mut shim_crossbeam::Select| {
                let set: std::collections::BTreeSet<usize> = sel.stub_ready_set().into_iter().collect();
                format!("ready:{set:?}")
            });
            *o2.lock().unwrap() = obs;
        });
        let shim = out.lock().unwrap().clone();
        res.evaluations += 1;
        res.transitions += depth as u64;
        res.traces_validated += 1;
        res.outcome(&("chan", &real));
        if real != shim || r.verdict != detsched::Verdict::Ok {
            res.violation("shimconf:crossbeam-channel".to_string(), format!("ops {ops:?}: real {real:?} vs shim {shim:?} ({:?})", r.verdict), json!({"engine": "seqmc", "harness": "shimconf", "ops": format!("{ops:?}")}));
        }
        let mut k = depth;
        loop {
            if k == 1 {
                return;
            }
            k -= 1;
            idx[k] += 1;
            if idx[k] < alpha.len() {
                break;
            }
            idx[k] = 0;
        }
    }
}

// ---------------------------------------------------------------- locks

#[derive(Clone, Copy, Debug, PartialEq)]
enum LOp {
    Read,
    Write,
    RelRead,
    RelWrite,
    Lock,
    Unlock,
    Upg,
    RelUpg,
    Upgrade,
}

fn locks(res: &mut SubResult, depth: usize, first: usize) {
    let alpha = [LOp::Read, LOp::Write, LOp::RelRead, LOp::RelWrite, LOp::Lock, LOp::Unlock, LOp::Upg, LOp::RelUpg, LOp::Upgrade];
    let mut idx = vec![0usize; depth];
    idx[0] = first;
    loop {
        let ops: Vec<LOp> = idx.iter().map(|i| alpha[*i]).collect();
        // real: try_* decides admission; guards are kept in vectors
        let real = {
            let l = parking_lot::RwLock::new(0u32);
            let m = parking_lot::Mutex::new(0u32);
            let mut rg = vec![];
            let mut wg = vec![];
            let mut mg = vec![];
            let mut ug = vec![];
            let mut obs = vec![];
            for op in &ops {
                match op {
                    LOp::Read => match l.try_read() {
                        Some(g) => {
                            obs.push(format!("read:ok:{}", *g));
                            rg.push(g)
                        }
                        None => obs.push("read:blocked".into()),
                    },
                    LOp::Write => match l.try_write() {
                        Some(mut g) => {
                            *g += 1;
                            obs.push("write:ok".to_string());
                            wg.push(g)
                        }
                        None => obs.push("write:blocked".into()),
                    },
                    LOp::RelRead => obs.push(format!("relread:{}", rg.pop().is_some())),
                    LOp::RelWrite => obs.push(format!("relwrite:{}", wg.pop().is_some())),
                    LOp::Lock => match m.try_lock() {
                        Some(g) => {
                            obs.push("lock:ok".to_string());
                            mg.push(g)
                        }
                        None => obs.push("lock:blocked".into()),
                    },
                    LOp::Unlock => obs.push(format!("unlock:{}", mg.pop().is_some())),
                    LOp::Upg => match l.try_upgradable_read() {
                        Some(g) => {
                            obs.push(format!("upg:ok:{}", *g));
                            ug.push(g)
                        }
                        None => obs.push("upg:blocked".into()),
                    },
                    LOp::RelUpg => obs.push(format!("relupg:{}", ug.pop().is_some())),
                    LOp::Upgrade => match ug.pop() {
                        None => obs.push("upgrade:none".into()),
                        Some(g) => match parking_lot::RwLockUpgradableReadGuard::try_upgrade(g) {
                            Ok(mut w) => {
                                *w += 1;
                                obs.push("upgrade:ok".into());
                                wg.push(w)
                            }
                            Err(g) => {
                                obs.push("upgrade:blocked".into());
                                ug.push(g)
                            }
                        },
                    },
                }
            }
            drop((rg, wg, mg, ug));
            obs.push(format!("final:{}", l.into_inner()));
            obs
        };
        let ops2 = ops.clone();
        let out = std::sync::Arc::new(std::sync::Mutex::new(vec![]));
        let o2 = out.clone();
        let r = detsched::run_one(&[], &detsched::Config::default(), move || {
            let l = shim_parking_lot::RwLock::new(0u32);
            let m = shim_parking_lot::Mutex::new(0u32);
            let mut rg = vec![];
            let mut wg = vec![];
            let mut mg = vec![];
            let mut ug = vec![];
            let mut obs = vec![];
            for op in &ops2 {
                match op {
                    LOp::Read => {
                        if l.stub_can_read() {
                            let g = l.read();
                            obs.push(format!("read:ok:{}", *g));
                            rg.push(g)
                        } else {
                            obs.push("read:blocked".into())
                        }
                    }
                    LOp::Write => {
                        if l.stub_can_write() {
                            let mut g = l.write();
                            *g += 1;
                            obs.push("write:ok".to_string());
                            wg.push(g)
                        } else {
                            obs.push("write:blocked".into())
                        }
                    }
                    LOp::RelRead => obs.push(format!("relread:{}", rg.pop().is_some())),
                    LOp::RelWrite => obs.push(format!("relwrite:{}", wg.pop().is_some())),
                    LOp::Lock => {
                        if m.stub_can_lock() {
                            let g = m.lock();
                            obs.push("lock:ok".to_string());
                            mg.push(g)
                        } else {
                            obs.push("lock:blocked".into())
                        }
                    }
                    LOp::Unlock => obs.push(format!("unlock:{}", mg.pop().is_some())),
                    LOp::Upg => {
                        // the blocking call where it is admitted (this is what the subject uses)
                        if l.stub_can_upgradable() {
                            let g = l.upgradable_read();
                            obs.push(format!("upg:ok:{}", *g));
                            ug.push(g)
                        } else {
                            obs.push("upg:blocked".into())
                        }
                    }
                    LOp::RelUpg => obs.push(format!("relupg:{}", ug.pop().is_some())),
                    LOp::Upgrade => match ug.pop() {
                        None => obs.push("upgrade:none".into()),
                        Some(g) => {
                            if l.stub_can_upgrade() {
                                let mut w = shim_parking_lot::RwLockUpgradableReadGuard::upgrade(g);
                                *w += 1;
                                obs.push("upgrade:ok".into());
                                wg.push(w)
                            } else {
                                obs.push("upgrade:blocked".into());
                                ug.push(g)
                            }
                        }
                    },
                }
            }
            drop((rg, wg, mg, ug));
            obs.push(format!("final:{}", l.into_inner()));
            *o2.lock().unwrap() = obs;
        });
        let shim = out.lock().unwrap().clone();
        res.evaluations += 1;
        res.transitions += depth as u64;
        res.traces_validated += 1;
        res.outcome(&("lock", &real));
        if real != shim || r.verdict != detsched::Verdict::Ok {
            res.violation("shimconf:parking_lot".to_string(), format!("ops {ops:?}: real {real:?} vs shim {shim:?} ({:?})", r.verdict), json!({"engine": "seqmc", "harness": "shimconf", "ops": format!("{ops:?}")}));
        }
        let mut k = depth;
        loop {
            if k == 1 {
                return;
            }
            k -= 1;
            idx[k] += 1;
            if idx[k] < alpha.len() {
                break;
            }
            idx[k] = 0;
        }
    }
}

// ---------------------------------------------------------------- condvar (two threads)

fn condvar(res: &mut SubResult) {
    // scenario A: notify before wait is lost.  real: wait_for times out; shim: waiter blocks for good
    // scenario B: wait then notify wakes.      real: no timeout;     shim: completes
    for notify_first in [true, false] {
        let real = {
            let pair = std::sync::Arc::new((parking_lot::Mutex::new(false), parking_lot::Condvar::new()));
            let p2 = pair.clone();
            let waiter = std::thread::spawn(move || {
                if notify_first {
                    std::thread::sleep(std::time::Duration::from_millis(60));
                }
                let mut g = p2.0.lock();
                let r = p2.1.wait_for(&mut g, std::time::Duration::from_millis(if notify_first { 80 } else { 2000 }));
                !r.timed_out()
            });
            if !notify_first {
                std::thread::sleep(std::time::Duration::from_millis(60));
            }
            pair.1.notify_all();
            waiter.join().unwrap()
        };
        let r = detsched::run_one(&[], &detsched::Config::default(), move || {
            let pair = std::sync::Arc::new((shim_parking_lot::Mutex::new(false), shim_parking_lot::Condvar::new()));
            let p2 = pair.clone();
            if notify_first {
                pair.1.notify_all();
            }
            let w = detsched::spawn("waiter", move || {
                let mut g = p2.0.lock();
                p2.1.wait(&mut g);
            });
            if !notify_first {
                detsched::quiesce(); // the waiter is parked in wait
                pair.1.notify_all();
            }
            w.join().unwrap();
        });
        let shim_woken = r.verdict == detsched::Verdict::Ok;
        res.evaluations += 1;
        res.traces_validated += 1;
        res.outcome(&("condvar", notify_first, real));
        if real != shim_woken {
            res.violation("shimconf:condvar".to_string(), format!("notify_first={notify_first}: real woken={real}, shim woken={shim_woken} ({:?})", r.verdict), json!({"engine": "seqmc", "harness": "shimconf"}));
        }
    }
}

pub fn run(args: &Args) -> SubResult {
    let mut res = SubResult::new("SHIM", "shimconf");
    let d = if args.thorough() { 5 } else { 4 };
    res.bound = format!("every sequence of {d} operations over 10 channel operations on two unbounded channels (send, try_recv, sender drop/clone, receiver drop, Select readiness set) and over 9 lock operations (RwLock read / write / upgradable-read admission and upgrade, Mutex), single-threaded; two 2-thread condvar scenarios (notify-before-wait is lost, wait-then-notify wakes)");
    res.rule = "identical observation traces required between the real crate and the shim; Select::ready compared as the SET of indices it may return (real: repeated try_ready); blocking compared through try_* / enabledness predicates".into();
    let total = chan_alphabet().len() + 9 + 1;
    let nchan = chan_alphabet().len();
    let mut res = vcommon::run_cases(args, res, total, std::time::Duration::from_secs(900), |idx, res| {
        if idx < nchan {
            channels(res, d, idx);
        } else if idx < nchan + 9 {
            locks(res, d + 1, idx - nchan);
        } else {
            condvar(res);
        }
    });
    res.states = res.distinct.len() as u64;
    res.sample(json!({"ops": "[Send(0), DropTx(0), TryRecv(0), TryRecv(0)]", "trace": ["send0:true", "droptx0", "recv0:1", "recv0:disconnected"]}));
    res
}
