//! Drop ledger: unique id per tracked value; created / dropped / double-dropped accounting.
use std::collections::BTreeSet;
use std::sync::Mutex;

#[derive(Default)]
pub struct Ledger {
    next: u64,
    pub live: BTreeSet<u64>,
    pub double: Vec<u64>,
    pub created: u64,
}
pub static LEDGER: Mutex<Ledger> = Mutex::new(Ledger { next: 0, live: BTreeSet::new(), double: Vec::new(), created: 0 });

#[derive(Debug)]
pub struct Tracked(pub u64);
impl Tracked {
    pub fn new() -> Self {
        let mut l = LEDGER.lock().unwrap_or_else(|e| e.into_inner());
        l.next += 1;
        l.created += 1;
        let id = l.next;
        l.live.insert(id);
        Tracked(id)
    }
}
impl Drop for Tracked {
    fn drop(&mut self) {
        let mut l = LEDGER.lock().unwrap_or_else(|e| e.into_inner());
        if !l.live.remove(&self.0) {
            l.double.push(self.0);
        }
    }
}
pub fn reset() {
    *LEDGER.lock().unwrap_or_else(|e| e.into_inner()) = Ledger::default();
}
pub fn live() -> usize {
    LEDGER.lock().unwrap_or_else(|e| e.into_inner()).live.len()
}
pub fn double() -> usize {
    LEDGER.lock().unwrap_or_else(|e| e.into_inner()).double.len()
}
