//! C08 (std-lock configuration) — the answer hand-shake behind `AssetCache::hot_reload`.
//!
//! The real `Answers` (hot_reloading/mod.rs) over the real std-flavoured `Mutex` / `Condvar`
//! wrappers of utils/private.rs (`parking_lot` OFF), both over loom.  One "reloader" thread takes
//! requests from a FIFO (harness code standing in for the crossbeam channel: a plain queue, the
//! reloader waits on a loom `Notify` when it is empty, a caller notifies after pushing) and answers each with `answers.notify(token)` in order; 1-3 "caller" threads
//! each do 1-2 rounds of `t = get_unique_token(); push t; wait_for_answer(t)`.
//!
//! Oracles (tags): no deadlock (loom: `deadlock`); tokens are unique `duplicate-token`; a caller
//! returns only after the reloader started publishing ITS token: `consumed-foreign-token` if it
//! came back on an outstanding answer for another token, `returned-before-published` if no answer
//! was outstanding at all (the rightful owner of a stolen answer shows up as a deadlock); every caller returns and every request is answered `unanswered`.
use crate::hot_reloading::probe::A;
use crate::support::*;
use std::cell::RefCell;
use std::collections::VecDeque;
use std::sync::Arc;

#[derive(Clone, Copy, PartialEq, Eq, Hash, Debug)]
enum Ev {
    /// caller c obtained token t and queued the request
    Req(usize, usize),
    /// the reloader is about to call notify(t)
    Pub(usize),
    /// caller c returned from wait_for_answer(t)
    Ret(usize, usize),
}
thread_local! {
    static LOG: RefCell<Vec<Ev>> = RefCell::new(Vec::new());
}
fn log(e: Ev) {
    LOG.with(|l| l.borrow_mut().push(e));
}

thread_local! {
    /// The request FIFO (harness code standing in for the crossbeam channel).  Pushing and popping
    /// are not loom operations; the only scheduling points the hand-over adds are the reloader's
    /// `Notify::wait` (when it finds the FIFO empty) and the caller's `Notify::notify` after its push
    /// (`loom::sync::Notify` keeps a notification that came first, and the reloader re-checks the FIFO
    /// in a loop, so no wake-up is lost).  `thread::park/unpark` cannot be used for this: loom's own
    /// Mutex/Condvar block through the same mechanism and a foreign `unpark` breaks them.
    static FIFO: RefCell<VecDeque<usize>> = RefCell::new(VecDeque::new());
}

fn body(rounds: &[usize]) {
    LOG.with(|l| l.borrow_mut().clear());
    FIFO.with(|q| q.borrow_mut().clear());
    let total: usize = rounds.iter().sum();
    let answers = Arc::new(A::new());
    let bell = Arc::new(loom::sync::Notify::new());
    let reloader = {
        let answers = answers.clone();
        let bell = bell.clone();
        loom::thread::spawn(move || {
            for _ in 0..total {
                let t = loop {
                    if let Some(t) = FIFO.with(|q| q.borrow_mut().pop_front()) {
                        break t;
                    }
                    bell.wait();
                };
                log(Ev::Pub(t));
                op();
                answers.notify(t);
            }
        })
    };
    let mut callers = vec![];
    for (c, &n) in rounds.iter().enumerate() {
        let answers = answers.clone();
        let bell = bell.clone();
        callers.push(loom::thread::spawn(move || {
            for _ in 0..n {
                op();
                let t = answers.get_unique_token();
                if LOG.with(|l| l.borrow().iter().any(|e| matches!(e, Ev::Req(_, t2) if *t2 == t))) {
                    fail!("duplicate-token", "caller {c}: get_unique_token() returned {t}, which another request already holds");
                }
                log(Ev::Req(c, t));
                FIFO.with(|q| q.borrow_mut().push_back(t));
                bell.notify();
                op();
                answers.wait_for_answer(t);
                let published = LOG.with(|l| l.borrow().iter().any(|e| *e == Ev::Pub(t)));
                if !published {
                    let l = LOG.with(|l| l.borrow().clone());
                    // an answer for somebody else is outstanding (published, owner not back): this caller took it
                    let foreign: Vec<usize> = l.iter().filter_map(|e| if let Ev::Pub(p) = e { Some(*p) } else { None }).filter(|p| !l.iter().any(|e| matches!(e, Ev::Ret(_, r) if r == p))).collect();
                    if !foreign.is_empty() {
                        fail!("consumed-foreign-token", "caller {c}: wait_for_answer({t}) returned on the answer for token {foreign:?}; token {t} has not been published; log {l:?}");
                    }
                    fail!("returned-before-published", "caller {c}: wait_for_answer({t}) returned, no answer is outstanding and token {t} has not been published; log {l:?}");
                }
                log(Ev::Ret(c, t));
            }
        }));
    }
    for c in callers {
        c.join().unwrap();
    }
    reloader.join().unwrap();
    let l = LOG.with(|l| l.borrow().clone());
    let reqs = l.iter().filter(|e| matches!(e, Ev::Req(..))).count();
    let pubs = l.iter().filter(|e| matches!(e, Ev::Pub(..))).count();
    let rets = l.iter().filter(|e| matches!(e, Ev::Ret(..))).count();
    if reqs != total || pubs != total || rets != total {
        fail!("unanswered", "{total} requests expected: {reqs} made, {pubs} answered, {rets} returned; log {l:?}");
    }
    outcome(&l);
}

fn probe() {
    must_branch("Answers get_unique_token / notify / wait_for_answer", || {
        let a = A::new();
        let t = a.get_unique_token();
        a.notify(t);
        a.wait_for_answer(t);
    });
    outcome(&PROBE);
}

pub fn configs(thorough: bool) -> Vec<Config> {
    let mut v = vec![Config::new(PROBE.into(), Bound::Unbounded, probe)];
    let mut add = |rounds: Vec<usize>, bound: Bound| {
        let name = format!("callers:{}", rounds.iter().map(|n| n.to_string()).collect::<Vec<_>>().join("+"));
        v.push(Config::new(name, bound, move || body(&rounds)));
    };
    // simplest first; rounds per caller.  The hand-shake is lock/condvar heavy and the space grows
    // steeply with the preemption bound (1+1: 401 / 6 680 / 52 586 / 272 032 / 1 037 317 executions at
    // bound 1..5; unbounded does not finish), so the bound is chosen per config to fit the tier.
    add(vec![1], Bound::Unbounded);
    add(vec![2], Bound::Unbounded);
    if !thorough {
        add(vec![1, 1], Bound::Fixed(3));
        add(vec![1, 2], Bound::Fixed(2));
        add(vec![2, 2], Bound::Fixed(2));
        add(vec![1, 1, 1], Bound::Fixed(1));
    } else {
        add(vec![1, 1], Bound::Fixed(5));
        add(vec![1, 2], Bound::Fixed(3));
        add(vec![2, 2], Bound::Fixed(3));
        add(vec![1, 1, 1], Bound::Fixed(2));
        add(vec![1, 1, 2], Bound::Fixed(1));
    }
    v
}

pub const SUB: crate::driver::Sub = crate::driver::Sub {
    name: "c08_answers_loom",
    property: "C08",
    configs,
    rule: "configs = rounds per caller for 1-3 caller threads (1, 2, 1+1, 1+2, 2+2, 1+1+1; thorough also 1+1+2) against one reloader thread that answers a harness FIFO in order; the code under test is the real `struct Answers`/`impl Answers` of hot_reloading/mod.rs over the real std-flavoured Mutex/Condvar wrappers of utils/private.rs (parking_lot OFF) over loom's Mutex/Condvar; for each config loom enumerates every interleaving of the lock / condvar / atomic operations within the preemption bound; deadlock = loom finds no runnable thread. distinct = distinct event logs (request / publish / return order)",
    bound: "1 reloader + 1-3 caller threads, 1-2 rounds per caller; preemption bound chosen per config (one caller: none; quick: 1+1 -> 3, 1+2 -> 2, 2+2 -> 2, 1+1+1 -> 1; thorough: 1+1 -> 5, 1+2 -> 3, 2+2 -> 3, 1+1+1 -> 2, 1+1+2 -> 1)",
};
