//! Target of the `once_cell::…` redirection: a small `OnceCell` over loom primitives with the
//! observable protocol of `once_cell::sync::OnceCell` (std flavour):
//!  * `get` is one Acquire load of the "complete" flag and never blocks;
//!  * `get_or_try_init`: fast path on the flag; otherwise at most one initialiser runs at a time,
//!    concurrent callers wait; a failed initialiser leaves the cell empty and wakes one waiter up to
//!    try with *its own* closure; success publishes the value with a Release store.
//! A panicking initialiser is out of scope (a panic inside a loom thread aborts the model).
//! This file is trusted model code (DESIGN.md §6); everything that uses it is the real `cell.rs`.
pub mod sync {
    use loom::sync::atomic::{AtomicBool, Ordering};
    use loom::sync::{Condvar, Mutex};
    use std::cell::UnsafeCell;

    pub struct OnceCell<T> {
        complete: AtomicBool,
        /// true while some initialiser is running
        running: Mutex<bool>,
        cv: Condvar,
        value: UnsafeCell<Option<T>>,
    }
    unsafe impl<T: Send + Sync> Sync for OnceCell<T> {}
    unsafe impl<T: Send> Send for OnceCell<T> {}

    impl<T> OnceCell<T> {
        pub fn new() -> Self {
            Self { complete: AtomicBool::new(false), running: Mutex::new(false), cv: Condvar::new(), value: UnsafeCell::new(None) }
        }
        pub fn with_value(v: T) -> Self {
            Self { complete: AtomicBool::new(true), running: Mutex::new(false), cv: Condvar::new(), value: UnsafeCell::new(Some(v)) }
        }
        pub fn get(&self) -> Option<&T> {
            if self.complete.load(Ordering::Acquire) {
                unsafe { (*self.value.get()).as_ref() }
            } else {
                None
            }
        }
        pub fn get_mut(&mut self) -> Option<&mut T> {
            if unsafe { self.complete.unsync_load() } {
                self.value.get_mut().as_mut()
            } else {
                None
            }
        }
        pub fn get_or_try_init<E>(&self, f: impl FnOnce() -> Result<T, E>) -> Result<&T, E> {
            if let Some(v) = self.get() {
                return Ok(v);
            }
            let mut g = self.running.lock().unwrap();
            loop {
                if self.complete.load(Ordering::Acquire) {
                    drop(g);
                    return Ok(unsafe { (*self.value.get()).as_ref().unwrap() });
                }
                if *g {
                    g = self.cv.wait(g).unwrap();
                } else {
                    break;
                }
            }
            *g = true;
            drop(g);
            let r = f();
            let mut g = self.running.lock().unwrap();
            *g = false;
            match r {
                Ok(v) => {
                    unsafe { *self.value.get() = Some(v) };
                    self.complete.store(true, Ordering::Release);
                    self.cv.notify_all();
                    drop(g);
                    Ok(unsafe { (*self.value.get()).as_ref().unwrap() })
                }
                Err(e) => {
                    self.cv.notify_all();
                    drop(g);
                    Err(e)
                }
            }
        }
    }
}

/// `once_cell::unsync::OnceCell`: NO synchronisation at all.  If the kernel is (wrongly) built on it
/// while claiming `Sync`, loom sees the unsynchronised accesses through its tracked `UnsafeCell`
/// (and the harness sees several initialisers run).
pub mod unsync {
    use loom::cell::UnsafeCell;

    pub struct OnceCell<T> {
        value: UnsafeCell<Option<T>>,
    }
    impl<T> OnceCell<T> {
        pub fn new() -> Self {
            Self { value: UnsafeCell::new(None) }
        }
        pub fn with_value(v: T) -> Self {
            Self { value: UnsafeCell::new(Some(v)) }
        }
        pub fn get(&self) -> Option<&T> {
            // the accesses of this flavour are tracked by loom's `UnsafeCell` (its happens-before check),
            // not by scheduling points: tell the instrumentation probe that the kernel *is* running on
            // the model, so that the oracles judge it instead of the probe calling it un-instrumented
            crate::support::TRACKED_ACCESSES.fetch_add(1, std::sync::atomic::Ordering::Relaxed);
            self.value.with(|p| unsafe { (*p).as_ref() })
        }
        pub fn get_mut(&mut self) -> Option<&mut T> {
            self.value.with_mut(|p| unsafe { (*p).as_mut() })
        }
        pub fn get_or_try_init<E>(&self, f: impl FnOnce() -> Result<T, E>) -> Result<&T, E> {
            if let Some(v) = self.get() {
                return Ok(v);
            }
            let v = f()?;
            self.value.with_mut(|p| unsafe {
                assert!((*p).is_none(), "reentrant init");
                *p = Some(v);
            });
            Ok(self.get().unwrap())
        }
    }
}
