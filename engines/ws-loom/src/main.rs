//! E3 `kernmc`: loom 0.7.2 exploring the real source text of assets_manager's lock-free kernels
//! (`utils/bytes.rs`, `utils/string.rs`, `utils/cell.rs`, `entry.rs`), instrumented from outside
//! by `build.rs` (see there) and `include!`d below next to minimal stubs for the crate items the
//! kernels name.  See README.md for the sub-checks, their bounds and limits.
#![allow(dead_code, unused_imports, unused_variables, unused_unsafe, unexpected_cfgs, mismatched_lifetime_syntaxes, clippy::all)]

use assets_manager as _; // dependency kept so that cargo rebuilds when the checkout changes (AGENT_CONTRACT)

#[macro_use]
mod support;
pub mod lalloc;
pub mod once_cell_loom;
pub mod tracked;

// ---------------------------------------------------------------------------------------------
// Stubs for what the kernels import from the rest of the crate
// ---------------------------------------------------------------------------------------------
pub mod asset {
    pub trait Storable: Sized + Send + Sync + 'static {
        const HOT_RELOADED: bool = false;
        const _CHECK_NOT_HOT_RELOADED: () = assert!(!Self::HOT_RELOADED);
    }
    pub trait NotHotReloaded: Storable {}
}
pub type BoxedError = Box<dyn std::error::Error + Send + Sync + 'static>;
#[derive(Clone, Copy)]
pub struct AnyCache<'a>(std::marker::PhantomData<&'a ()>);
pub trait Compound: Sized + Send + Sync + 'static {
    fn load(cache: AnyCache, id: &SharedString) -> Result<Self, BoxedError>;
    const HOT_RELOADED: bool = true;
}

/// Target of the `std::sync` redirection for `utils/private.rs` only: `loom::sync` plus the one name
/// the std branch of `wrap` uses that loom does not re-export (`PoisonError`; loom's `LockResult` is
/// std's, so the type is the same one).  No behaviour of its own.
pub mod loom_sync {
    pub use loom::sync::*;
    pub use std::sync::PoisonError;
}

pub mod utils {
    /// `sync` alias, `wrap`, `Mutex`, `Condvar` extracted by name from the real `utils/private.rs`,
    /// `cfg(feature = "parking_lot")` evaluated as false (std flavour), over loom's Mutex / Condvar.
    pub mod std_locks {
        include!(concat!(env!("OUT_DIR"), "/std_locks.rs"));
    }
    pub(crate) use std_locks::{Condvar, Mutex};
    pub mod bytes {
        include!(concat!(env!("OUT_DIR"), "/bytes.rs"));
    }
    pub mod string {
        include!(concat!(env!("OUT_DIR"), "/string.rs"));
    }
    pub use bytes::SharedBytes;
    pub use string::SharedString;

    /// `crate::utils::RwLock` of the real crate is a non-poisoning wrapper over std / parking_lot;
    /// here it wraps loom's RwLock (every acquire / release is a loom scheduling point).
    pub struct RwLock<T>(loom::sync::RwLock<T>);
    pub use loom::sync::{RwLockReadGuard, RwLockWriteGuard};
    impl<T> RwLock<T> {
        pub fn new(t: T) -> Self {
            Self(loom::sync::RwLock::new(t))
        }
        pub fn read(&self) -> RwLockReadGuard<'_, T> {
            self.0.read().unwrap()
        }
        pub fn write(&self) -> RwLockWriteGuard<'_, T> {
            self.0.write().unwrap()
        }
    }
    pub mod cell {
        include!(concat!(env!("OUT_DIR"), "/cell.rs"));
    }
}
pub use utils::{SharedBytes, SharedString};

pub mod entry {
    include!(concat!(env!("OUT_DIR"), "/entry.rs"));

    /// Harness probes living inside the module so that `ReloadId(k)` is constructible and the
    /// watcher's remembered id is readable.  No kernel behaviour is changed.
    pub mod probe {
        use super::*;
        pub fn rid(k: usize) -> ReloadId {
            ReloadId(k)
        }
        pub fn raw(r: ReloadId) -> usize {
            r.0
        }
        pub fn watcher_stored(w: &ReloadWatcher<'_>) -> Option<usize> {
            w.inner.as_ref().map(|i| i.last_reload_id.0)
        }
    }
}

pub mod hot_reloading {
    // `struct Answers` + `impl Answers` extracted by name from the real `hot_reloading/mod.rs`
    include!(concat!(env!("OUT_DIR"), "/answers.rs"));

    /// Harness access to the private items (child module).  No kernel behaviour is changed.
    pub mod probe {
        pub struct A(super::Answers);
        impl A {
            pub fn new() -> A {
                A(super::Answers::default())
            }
            pub fn get_unique_token(&self) -> usize {
                self.0.get_unique_token()
            }
            pub fn notify(&self, token: usize) {
                self.0.notify(token)
            }
            pub fn wait_for_answer(&self, token: usize) {
                self.0.wait_for_answer(token)
            }
        }
    }
}

mod driver;
mod h_c08;
mod h_c06;
mod h_c07;
mod h_c16;
mod h_c17;
mod h_c18;

fn main() {
    driver::main()
}
