//! Targets of redirections that have no loom counterpart.
/// `std::sync::atomic::compiler_fence`: loom has none; it orders nothing between threads.
pub use std::sync::atomic::compiler_fence;

pub use std::sync::{LockResult, PoisonError, TryLockError, TryLockResult};
