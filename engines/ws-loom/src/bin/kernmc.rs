//! Thin compatibility front: `kernmc <subcheck> …` / `kernmc --replay FILE` re-executes the sibling
//! binary of the kernel family that serves the sub-check (same directory, same arguments, same exit
//! code).  It contains no kernel, so it builds whatever happens to a kernel's source; it needs the
//! sibling to have been built (`cargo build --release --bin kernmc_<family>`).
use std::process::{exit, Command};

const MAP: &[(&str, &str)] = &[
    ("c16_bytes_loom", "kernmc_bytes"),
    ("c17_cell_loom", "kernmc_cell"),
    ("c18_reloadid", "kernmc_entry"),
    ("c07_entry_loom", "kernmc_entry"),
    ("c06_watch_loom", "kernmc_entry"),
    ("c08_answers_loom", "kernmc_answers"),
];

fn main() {
    let args: Vec<String> = std::env::args().skip(1).collect();
    let mut sub: Option<String> = None;
    if let Some(i) = args.iter().position(|a| a == "--replay") {
        let f = args.get(i + 1).cloned().unwrap_or_default();
        let txt = std::fs::read_to_string(&f).unwrap_or_else(|e| {
            eprintln!("MACHINERY: read {f}: {e}");
            exit(2)
        });
        let w: serde_json::Value = serde_json::from_str(&txt).unwrap_or_else(|e| {
            eprintln!("MACHINERY: parse {f}: {e}");
            exit(2)
        });
        sub = w["replay"]["subcheck"].as_str().or(w["subcheck"].as_str()).map(|s| s.to_string());
    } else if args.first().map(|s| s.as_str()) == Some("--list") {
        for (s, b) in MAP {
            println!("{s} -> {b}");
        }
        return;
    } else if args.first().map(|s| s.as_str()) == Some("--child") {
        sub = args.get(1).cloned();
    } else {
        sub = args.iter().find(|a| !a.starts_with("--")).cloned();
    }
    let Some(bin) = sub.as_deref().and_then(|s| MAP.iter().find(|(n, _)| *n == s)).map(|(_, b)| *b) else {
        eprintln!("MACHINERY: kernmc: no kernel family serves sub-check {sub:?} (known: {:?})", MAP);
        exit(2)
    };
    let exe = std::env::current_exe().ok().and_then(|p| p.parent().map(|d| d.join(bin))).unwrap_or_else(|| bin.into());
    match Command::new(&exe).args(&args).status() {
        Ok(st) => exit(st.code().unwrap_or(2)),
        Err(e) => {
            eprintln!("MACHINERY: kernmc: cannot run {exe:?} ({e}); build it with `cargo build --release --offline --bin {bin}`");
            exit(2)
        }
    }
}
