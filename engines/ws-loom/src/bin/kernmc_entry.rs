//! E3 kernmc, kernel family `entry`: the real `entry.rs` (hot-reloading cfg on) under loom.
//! Serves sub-checks `c18_reloadid` (C18), `c07_entry_loom` (C07, C13), `c06_watch_loom` (C06).
//! See ../../README.md and ../../build.rs.
#![allow(dead_code, unused_imports, unused_variables, unused_unsafe, unexpected_cfgs, mismatched_lifetime_syntaxes, clippy::all)]

use assets_manager as _; // dependency kept so that cargo rebuilds when the checkout changes (AGENT_CONTRACT)

#[macro_use]
#[path = "../support.rs"]
mod support;
#[path = "../driver.rs"]
mod driver;
#[path = "../kshim.rs"]
pub mod kshim;
#[path = "../lalloc.rs"]
pub mod lalloc;

#[path = "../stub_string.rs"]
mod stub_string;
#[path = "../stubs.rs"]
mod stubs;
#[path = "../tracked.rs"]
pub mod tracked;
pub use stub_string::SharedString;
pub use stubs::{asset, AnyCache, BoxedError, Compound};

pub mod utils {
    /// `crate::utils::RwLock` of the real crate is a non-poisoning wrapper over std / parking_lot;
    /// here it wraps loom's RwLock (every acquire / release is a loom scheduling point).
    pub struct RwLock<T>(loom::sync::RwLock<T>);
    pub use loom::sync::{RwLockReadGuard, RwLockWriteGuard};
    impl<T> RwLock<T> {
        pub fn new(t: T) -> Self {
            Self(loom::sync::RwLock::new(t))
        }
        pub fn read(&self) -> RwLockReadGuard<'_, T> {
            self.0.read().unwrap()
        }
        pub fn write(&self) -> RwLockWriteGuard<'_, T> {
            self.0.write().unwrap()
        }
    }
}

pub mod entry {
    include!(concat!(env!("OUT_DIR"), "/entry.rs"));

    /// Harness probes living inside the module so that `ReloadId(k)` is constructible and the
    /// watcher's remembered id is readable.  No kernel behaviour is changed.
    pub mod probe {
        use super::*;
        pub fn rid(k: usize) -> ReloadId {
            ReloadId(k)
        }
        pub fn raw(r: ReloadId) -> usize {
            r.0
        }
        pub fn watcher_stored(w: &ReloadWatcher<'_>) -> Option<usize> {
            w.inner.as_ref().map(|i| i.last_reload_id.0)
        }
    }
}

#[path = "../h_c06.rs"]
mod h_c06;
#[path = "../h_c07.rs"]
mod h_c07;
#[path = "../h_c18.rs"]
mod h_c18;

pub const SUBS: &[driver::Sub] = &[h_c18::SUB, h_c07::SUB, h_c06::SUB];

fn main() {
    driver::main()
}
