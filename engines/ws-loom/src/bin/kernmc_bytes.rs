//! E3 kernmc, kernel family `bytes`: the real `utils/bytes.rs` + `utils/string.rs` under loom.
//! Serves sub-check `c16_bytes_loom` (C16).  See ../../README.md and ../../build.rs.
#![allow(dead_code, unused_imports, unused_variables, unused_unsafe, unexpected_cfgs, mismatched_lifetime_syntaxes, clippy::all)]

use assets_manager as _; // dependency kept so that cargo rebuilds when the checkout changes (AGENT_CONTRACT)

#[macro_use]
#[path = "../support.rs"]
mod support;
#[path = "../driver.rs"]
mod driver;
#[path = "../kshim.rs"]
pub mod kshim;
#[path = "../lalloc.rs"]
pub mod lalloc;

pub mod utils {
    pub mod bytes {
        include!(concat!(env!("OUT_DIR"), "/bytes.rs"));
    }
    pub mod string {
        include!(concat!(env!("OUT_DIR"), "/string.rs"));
    }
    pub use bytes::SharedBytes;
    pub use string::SharedString;
}
pub use utils::{SharedBytes, SharedString};

#[path = "../h_c16.rs"]
mod h_c16;

pub const SUBS: &[driver::Sub] = &[h_c16::SUB];

fn main() {
    driver::main()
}
