//! E3 kernmc, kernel family `answers`: `struct Answers`/`impl Answers` of the real
//! `hot_reloading/mod.rs` over the std-flavoured `Mutex`/`Condvar` wrappers of the real
//! `utils/private.rs` (parking_lot OFF), under loom.  Serves sub-check `c08_answers_loom` (C08).
//! See ../../README.md and ../../build.rs.
#![allow(dead_code, unused_imports, unused_variables, unused_unsafe, unexpected_cfgs, mismatched_lifetime_syntaxes, clippy::all)]

use assets_manager as _; // dependency kept so that cargo rebuilds when the checkout changes (AGENT_CONTRACT)

#[macro_use]
#[path = "../support.rs"]
mod support;
#[path = "../driver.rs"]
mod driver;
#[path = "../kshim.rs"]
pub mod kshim;
#[path = "../lalloc.rs"]
pub mod lalloc;

/// Target of the `std::sync` redirection for `utils/private.rs` only: `loom::sync` plus the one name
/// the std branch of `wrap` uses that loom does not re-export (`PoisonError`; loom's `LockResult` is
/// std's, so the type is the same one).  No behaviour of its own.
pub mod loom_sync {
    pub use loom::sync::*;
    pub use std::sync::PoisonError;
}

pub mod utils {
    /// `sync` alias, `wrap`, `Mutex`, `Condvar` extracted by name from the real `utils/private.rs`,
    /// `cfg(feature = "parking_lot")` evaluated as false (std flavour), over loom's Mutex / Condvar.
    pub mod std_locks {
        include!(concat!(env!("OUT_DIR"), "/std_locks.rs"));
    }
    pub(crate) use std_locks::{Condvar, Mutex};
}

pub mod hot_reloading {
    // `struct Answers` + `impl Answers` extracted by name from the real `hot_reloading/mod.rs`
    include!(concat!(env!("OUT_DIR"), "/answers.rs"));

    /// Harness access to the private items (child module).  No kernel behaviour is changed.
    pub mod probe {
        pub struct A(super::Answers);
        impl A {
            pub fn new() -> A {
                A(super::Answers::default())
            }
            pub fn get_unique_token(&self) -> usize {
                self.0.get_unique_token()
            }
            pub fn notify(&self, token: usize) {
                self.0.notify(token)
            }
            pub fn wait_for_answer(&self, token: usize) {
                self.0.wait_for_answer(token)
            }
        }
    }
}

#[path = "../h_c08.rs"]
mod h_c08;

pub const SUBS: &[driver::Sub] = &[h_c08::SUB];

fn main() {
    driver::main()
}
