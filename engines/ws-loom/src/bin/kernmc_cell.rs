//! E3 kernmc, kernel family `cell`: the real `utils/cell.rs` (OnceInitCell) over a loom-based OnceCell.
//! Serves sub-check `c17_cell_loom` (C17).  See ../../README.md and ../../build.rs.
#![allow(dead_code, unused_imports, unused_variables, unused_unsafe, unexpected_cfgs, mismatched_lifetime_syntaxes, clippy::all)]

use assets_manager as _; // dependency kept so that cargo rebuilds when the checkout changes (AGENT_CONTRACT)

#[macro_use]
#[path = "../support.rs"]
mod support;
#[path = "../driver.rs"]
mod driver;
#[path = "../kshim.rs"]
pub mod kshim;
#[path = "../lalloc.rs"]
pub mod lalloc;

#[path = "../once_cell_loom.rs"]
pub mod once_cell_loom;
#[path = "../stub_string.rs"]
mod stub_string;
#[path = "../stubs.rs"]
mod stubs;
#[path = "../tracked.rs"]
pub mod tracked;
pub use stub_string::SharedString;
pub use stubs::{asset, AnyCache, BoxedError, Compound};

pub mod utils {
    pub mod cell {
        include!(concat!(env!("OUT_DIR"), "/cell.rs"));
    }
}

#[path = "../h_c17.rs"]
mod h_c17;

pub const SUBS: &[driver::Sub] = &[h_c17::SUB];

fn main() {
    driver::main()
}
