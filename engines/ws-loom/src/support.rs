//! Harness plumbing shared by the sub-checks: oracle failure macro, per-config counters, config type.
//!
//! loom runs all model threads as coroutines on ONE OS thread, so plain `thread_local!`/static
//! state is global harness state that loom does not see (no scheduling points, no tracking).
use std::cell::RefCell;
use std::collections::BTreeSet;
use std::sync::atomic::{AtomicU64, Ordering::Relaxed};
use std::sync::Arc;

/// Oracle failure: `fail!("stable-tag", "details {}", x)`.  The tag becomes the last component of the
/// violation key; the whole text is the description.
macro_rules! fail {
    ($tag:expr, $($arg:tt)*) => {
        panic!("[[{}]] {}", $tag, format!($($arg)*))
    };
}

/// harness-level operations executed (kernel API calls)
pub static OPS: AtomicU64 = AtomicU64::new(0);
/// loom iterations (complete executions) of the current config
pub static ITERS: AtomicU64 = AtomicU64::new(0);
/// sequential cases (c18 part a) checked
pub static CASES: AtomicU64 = AtomicU64::new(0);
/// loom scheduling points ("branch" events of loom's runtime), counted by the tracing subscriber
pub static BRANCHES: AtomicU64 = AtomicU64::new(0);

/// accesses seen by a model that is tracked through `loom::cell::UnsafeCell` only (the `unsync` once-cell)
pub static TRACKED_ACCESSES: AtomicU64 = AtomicU64::new(0);

pub fn op() {
    OPS.fetch_add(1, Relaxed);
}
pub fn case() {
    CASES.fetch_add(1, Relaxed);
}

/// Instrumentation probe: run a whole life cycle of the kernel object on one thread and require that
/// loom saw *something* of it (at least one scheduling decision).  A kernel whose atomics / locks are
/// not loom's would make every model vacuous; the driver turns this failure into a machinery failure
/// (exit 2).  Deliberately coarse: a single operation that lost its synchronisation (a mutant that
/// drops an increment, a getter that no longer looks at the once-cell) must stay a *verdict* of the
/// oracles, not be mistaken for missing instrumentation.
pub fn must_branch<R>(what: &str, f: impl FnOnce() -> R) -> R {
    let b0 = BRANCHES.load(Relaxed) + TRACKED_ACCESSES.load(Relaxed);
    let r = f();
    if BRANCHES.load(Relaxed) + TRACKED_ACCESSES.load(Relaxed) == b0 {
        fail!("un-instrumented", "{what}: no loom scheduling point at all: the kernel's synchronisation is not running on loom");
    }
    r
}
pub const PROBE: &str = "instrumentation-probe";

thread_local! {
    static OUTCOMES: RefCell<BTreeSet<u64>> = RefCell::new(BTreeSet::new());
    static SAMPLE: RefCell<Option<String>> = RefCell::new(None);
}

/// Record the observable outcome of one execution (distinct ones are counted).
pub fn outcome<T: std::hash::Hash + std::fmt::Debug>(t: &T) {
    let h = vcommon::h64(t);
    let new = OUTCOMES.with(|o| o.borrow_mut().insert(h));
    if new {
        SAMPLE.with(|s| {
            let mut s = s.borrow_mut();
            if s.is_none() {
                *s = Some(format!("{t:?}"));
            }
        });
    }
}
pub fn take_outcomes() -> (Vec<u64>, Option<String>) {
    (OUTCOMES.with(|o| std::mem::take(&mut *o.borrow_mut())).into_iter().collect(), SAMPLE.with(|s| s.borrow_mut().take()))
}

#[derive(Clone, Copy, Debug)]
pub enum Bound {
    /// the space is tiny: explore without preemption bound
    Unbounded,
    /// preemption bound of the tier (2 quick / 3 thorough)
    Tier,
    /// a bound chosen per config (where the tier's bound does not finish in the tier's time)
    Fixed(usize),
    /// no bound if the given measurement (run once inside a loom execution in the child, so it is a
    /// deterministic function of the kernel source) says the subject's operations are single loom
    /// operations, else the tier's bound.  Keeps a config exhaustive for the implementation it was
    /// sized for and finite for a correct re-implementation that takes several atomic steps per call.
    Adaptive(fn() -> bool),
}

/// One loom model = one configuration of a sub-check.
#[derive(Clone)]
pub struct Config {
    /// stable, self-describing name (part of violation keys, used by --replay)
    pub name: String,
    pub bound: Bound,
    /// body of ONE execution (called by loom once per interleaving)
    pub body: Arc<dyn Fn() + Send + Sync + 'static>,
}
impl Config {
    pub fn new(name: String, bound: Bound, body: impl Fn() + Send + Sync + 'static) -> Self {
        Config { name, bound, body: Arc::new(body) }
    }
}

/// All assignments of one program per thread, programs of thread `t` drawn from `pools[t]`,
/// reduced by the symmetry "threads with the same pool are interchangeable".
pub fn thread_programs<P: Clone + Ord>(pools: &[Vec<P>]) -> Vec<Vec<P>> {
    let mut out: BTreeSet<Vec<P>> = BTreeSet::new();
    let mut idx = vec![0usize; pools.len()];
    if pools.iter().any(|p| p.is_empty()) {
        return vec![];
    }
    loop {
        let mut v: Vec<P> = idx.iter().enumerate().map(|(t, &i)| pools[t][i].clone()).collect();
        // canonical: sort runs of identical pools
        let mut s = 0;
        while s < pools.len() {
            let mut e = s + 1;
            while e < pools.len() && pools[e].len() == pools[s].len() && pools[e].iter().zip(&pools[s]).all(|(a, b)| a == b) {
                e += 1;
            }
            v[s..e].sort();
            s = e;
        }
        out.insert(v);
        let mut k = pools.len();
        loop {
            if k == 0 {
                return out.into_iter().collect();
            }
            k -= 1;
            idx[k] += 1;
            if idx[k] < pools[k].len() {
                break;
            }
            idx[k] = 0;
        }
    }
}

/// All sequences over `alphabet` of length in `lens`, shortest first.
pub fn sequences<A: Clone>(alphabet: &[A], lens: std::ops::RangeInclusive<usize>) -> Vec<Vec<A>> {
    let mut out = vec![];
    for l in lens {
        let mut cur: Vec<Vec<A>> = vec![vec![]];
        for _ in 0..l {
            let mut nxt = vec![];
            for c in &cur {
                for a in alphabet {
                    let mut c2 = c.clone();
                    c2.push(a.clone());
                    nxt.push(c2);
                }
            }
            cur = nxt;
        }
        out.extend(cur);
    }
    out
}
