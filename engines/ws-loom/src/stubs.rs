//! Stubs for what the kernels import from the rest of the crate (shared by the bins that need them).
pub mod asset {
    pub trait Storable: Sized + Send + Sync + 'static {
        const HOT_RELOADED: bool = false;
        const _CHECK_NOT_HOT_RELOADED: () = assert!(!Self::HOT_RELOADED);
    }
    pub trait NotHotReloaded: Storable {}
}
pub type BoxedError = Box<dyn std::error::Error + Send + Sync + 'static>;
#[derive(Clone, Copy)]
pub struct AnyCache<'a>(std::marker::PhantomData<&'a ()>);
pub trait Compound: Sized + Send + Sync + 'static {
    fn load(cache: AnyCache, id: &crate::SharedString) -> Result<Self, BoxedError>;
    const HOT_RELOADED: bool = true;
}
