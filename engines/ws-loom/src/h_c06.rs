//! C06 (schedule part) — a polling reader against the writer side of a reload.
//!
//! One writer thread performs n = 1-2 (thorough: 3) `write`s of versions 1..n on a dynamic entry
//! (so the version of a value is the reload id it was stored with).  Readers poll:
//!   * a `ReloadWatcher` (made by main before the writer starts, or by the reader itself, from the
//!     typed or the untyped handle): `if w.reloaded() { v = *h.read(); … }`
//!   * `reloaded_global()` (one or two polling threads).
//! Oracles (tags): `reloaded()` answers true iff the id the watcher remembers grew, and that id never
//! goes back `watcher-true-iff-grew`; a value read after a report is at least as new as the reported
//! reload and as the number of reports so far `stale-after-report`; after the joins one more poll
//! answers true iff the watcher had not yet seen the last write `missed-reload`, and the poll after
//! that answers false `spurious-true`; `reloaded_global` is true at most once per write
//! `global-too-many`, a value read after it said true is at least as new as the number of times it
//! said true `stale-after-global`, after the joins it says true if nobody asked since the writes `global-missed` (judged only when no
//! other thread swaps the flag concurrently, see the comment in `body`)
//! and then says false `global-spurious`; the reload id starts at NEVER `initial-id` and after the
//! joins equals the number of writes (by ordering and by Debug text) `final-id`.
use crate::entry::probe::{raw, rid, watcher_stored};
use crate::entry::{CacheEntry, Handle, ReloadId, ReloadWatcher, UntypedHandle};
use crate::h_c07::{new_entry, Pair};
use crate::support::*;
use std::sync::Arc;

#[derive(Clone, Copy, PartialEq, Eq, PartialOrd, Ord, Hash, Debug)]
pub enum Poller {
    /// watcher created by main before any write (it remembers NEVER), polled by the reader
    WatcherMain(usize),
    /// watcher created by the reader thread (concurrently with the writes)
    WatcherOwn(usize),
    /// as WatcherOwn, through the untyped handle
    WatcherUntyped(usize),
    /// `reloaded_global` polled k times
    Global(usize),
    /// watcher and global flag polled alternately by one thread
    Both(usize),
}
impl Poller {
    fn tag(self) -> String {
        match self {
            Poller::WatcherMain(k) => format!("wm{k}"),
            Poller::WatcherOwn(k) => format!("wo{k}"),
            Poller::WatcherUntyped(k) => format!("wu{k}"),
            Poller::Global(k) => format!("g{k}"),
            Poller::Both(k) => format!("b{k}"),
        }
    }
}

fn read_version(who: &str, h: &Handle<Pair>) -> usize {
    op();
    let v = *h.read();
    if !v.consistent() {
        fail!("torn", "{who}: words {:#x}/{:#x}", v.v, v.chk);
    }
    v.v
}

/// one poll of a watcher; returns whether it reported
fn poll_watcher(who: &str, h: &Handle<Pair>, w: &mut ReloadWatcher<'_>, reported: &mut usize) -> bool {
    let before = watcher_stored(w).expect("dynamic entry");
    op();
    let r = w.reloaded();
    let after = watcher_stored(w).unwrap();
    if after < before || r != (after > before) {
        fail!("watcher-true-iff-grew", "{who}: reloaded() = {r}, remembered id {before} -> {after}");
    }
    if r {
        *reported += 1;
        let ver = read_version(who, h);
        if ver < after || ver < *reported {
            fail!("stale-after-report", "{who}: watcher reported reload {after} ({} reports so far) but the value read afterwards is version {ver}", *reported);
        }
    }
    r
}
fn poll_global(who: &str, h: &Handle<Pair>, untyped: Option<&UntypedHandle>, trues: &mut usize) -> bool {
    op();
    let r = match untyped {
        Some(u) => u.reloaded_global(),
        None => h.reloaded_global(),
    };
    if r {
        *trues += 1;
        let ver = read_version(who, h);
        if ver < *trues {
            fail!("stale-after-global", "{who}: reloaded_global() said true {} times but the value read afterwards is version {ver}", *trues);
        }
    }
    r
}

/// what a poller thread hands back: (its watcher, reports, global trues, trace)
struct Back {
    watcher: Option<ReloadWatcher<'static>>,
    reported: usize,
    trues: usize,
    trace: Vec<bool>,
}

fn body(n: usize, pollers: &[Poller]) {
    let e = Arc::new(new_entry(0));
    // the entry outlives every thread (main holds `e` until the end of the execution)
    let u: &'static UntypedHandle = unsafe { &*(e.inner() as *const UntypedHandle) };
    let h: &'static Handle<Pair> = u.downcast_ref::<Pair>().unwrap();
    if h.last_reload_id() != ReloadId::NEVER || u.last_reload_id() != ReloadId::NEVER || raw(h.last_reload_id()) != 0 {
        fail!("initial-id", "fresh entry has reload id {:?}", h.last_reload_id());
    }
    if h.reloaded_global() {
        fail!("global-spurious", "reloaded_global() is true on a fresh entry");
    }
    {
        let mut w0 = h.reload_watcher();
        if w0.reloaded() || w0.last_reload_id() != ReloadId::NEVER {
            fail!("spurious-true", "watcher on a fresh entry reports a reload");
        }
    }
    let mut hs = vec![];
    for (i, &p) in pollers.iter().enumerate() {
        let e2 = e.clone();
        let pre = if let Poller::WatcherMain(_) = p { Some(h.reload_watcher()) } else { None };
        hs.push(loom::thread::spawn(move || {
            let _keep = e2;
            let who = format!("poller {i} ({})", p.tag());
            let mut b = Back { watcher: None, reported: 0, trues: 0, trace: vec![] };
            match p {
                Poller::WatcherMain(k) | Poller::WatcherOwn(k) | Poller::WatcherUntyped(k) => {
                    let mut w = match p {
                        Poller::WatcherMain(_) => pre.unwrap(),
                        Poller::WatcherOwn(_) => h.reload_watcher(),
                        _ => u.reload_watcher(),
                    };
                    for _ in 0..k {
                        let r = poll_watcher(&who, h, &mut w, &mut b.reported);
                        b.trace.push(r);
                    }
                    b.watcher = Some(w);
                }
                Poller::Global(k) => {
                    for j in 0..k {
                        let r = poll_global(&who, h, if j % 2 == 1 { Some(u) } else { None }, &mut b.trues);
                        b.trace.push(r);
                    }
                }
                Poller::Both(k) => {
                    let mut w = h.reload_watcher();
                    for _ in 0..k {
                        let r = poll_watcher(&who, h, &mut w, &mut b.reported);
                        b.trace.push(r);
                        let r = poll_global(&who, h, None, &mut b.trues);
                        b.trace.push(r);
                    }
                    b.watcher = Some(w);
                }
            }
            b
        }));
    }
    let writer = {
        let e = e.clone();
        loom::thread::spawn(move || {
            for k in 0..n {
                op();
                e.inner().write(new_entry(k + 1));
            }
        })
    };
    writer.join().unwrap();
    let mut backs: Vec<Back> = hs.into_iter().map(|x| x.join().unwrap()).collect();
    // ---- after the joins
    let id = h.last_reload_id();
    if raw(id) != n || id != rid(n) || (n > 0 && !(id > ReloadId::NEVER)) || format!("{id:?}") != format!("ReloadId({n})") || u.last_reload_id() != id {
        fail!("final-id", "after {n} writes the reload id is {id:?}");
    }
    let ver = read_version("main", h);
    if ver != n {
        fail!("final-value", "after {n} writes the value is version {ver}");
    }
    let mut global_trues = 0;
    for (i, b) in backs.iter_mut().enumerate() {
        let who = format!("poller {i} ({}) after joins", pollers[i].tag());
        if let Some(w) = b.watcher.as_mut() {
            let stored = watcher_stored(w).unwrap();
            let want = stored < n;
            let r = poll_watcher(&who, h, w, &mut b.reported);
            if r != want {
                fail!("missed-reload", "{who}: watcher remembers reload {stored}, {n} writes are complete, reloaded() = {r}");
            }
            if w.last_reload_id() != id {
                fail!("final-id", "{who}: ReloadWatcher::last_reload_id() = {:?}, handle says {id:?}", w.last_reload_id());
            }
            if poll_watcher(&who, h, w, &mut b.reported) {
                fail!("spurious-true", "{who}: reloaded() true twice in a row with no write in between");
            }
            if b.reported > n {
                fail!("spurious-true", "{who}: {} reports for {n} writes", b.reported);
            }
        }
        global_trues += b.trues;
    }
    let mut t = 0;
    let fin = poll_global("main", h, None, &mut t);
    global_trues += t;
    if global_trues > n {
        fail!("global-too-many", "reloaded_global() said true {global_trues} times for {n} writes");
    }
    // loom keeps the modification order of an atomic as a *partial* order: a plain `store(true)` of
    // the writer that races with another thread's `swap(false)` may be placed before that swap even
    // though the swap did not read it (real hardware / C11 forbid this: RMW atomicity).  "The flag is
    // still set after the joins" is therefore only judged when no other thread swaps concurrently.
    let racing_swaps = pollers.iter().any(|p| matches!(p, Poller::Global(_) | Poller::Both(_)));
    if n > 0 && !racing_swaps && !fin {
        fail!("global-missed", "{n} writes completed, nobody asked in between, but reloaded_global() says false");
    }
    if poll_global("main", h, Some(u), &mut t) {
        fail!("global-spurious", "reloaded_global() true twice in a row with no write in between");
    }
    outcome(&(backs.iter().map(|b| (b.trace.clone(), b.reported, b.trues)).collect::<Vec<_>>(), fin));
    drop(backs);
}

pub fn configs(thorough: bool) -> Vec<Config> {
    use Poller::*;
    let mut v = vec![Config::new(PROBE.into(), Bound::Unbounded, crate::h_c07::probe)];
    let mut add = |n: usize, ps: Vec<Poller>| {
        let name = format!("n{n}:{}", ps.iter().map(|p| p.tag()).collect::<Vec<_>>().join("|"));
        // the writer + one poller thread, few operations: small enough to explore without preemption bound
        let polls: usize = ps.iter().map(|p| match p { Poller::WatcherMain(k) | Poller::WatcherOwn(k) | Poller::WatcherUntyped(k) | Poller::Global(k) => *k, Poller::Both(k) => 2 * *k }).sum();
        let bound = if ps.len() == 1 && n <= 2 && polls <= 2 { Bound::Unbounded } else { Bound::Tier };
        v.push(Config::new(name, bound, move || body(n, &ps)));
    };
    // simplest first
    for n in [1usize, 2] {
        for k in [1usize, 2] {
            add(n, vec![WatcherMain(k)]);
            add(n, vec![WatcherOwn(k)]);
            add(n, vec![Global(k)]);
        }
        add(n, vec![WatcherUntyped(2)]);
        add(n, vec![Both(1)]);
        add(n, vec![Global(1), Global(1)]);
        add(n, vec![WatcherMain(1), Global(1)]);
    }
    add(2, vec![WatcherMain(3)]);
    add(2, vec![Global(3)]);
    add(2, vec![Both(2)]);
    add(2, vec![WatcherMain(2), Global(2)]);
    let _ = thorough; // same configs in both tiers; the tiers differ in the preemption bound
    {
        add(3, vec![WatcherMain(3)]);
        add(3, vec![WatcherOwn(3)]);
        add(3, vec![Global(3)]);
        add(3, vec![Both(2)]);
        add(2, vec![Global(2), Global(2)]);
        add(2, vec![WatcherOwn(2), WatcherMain(2)]);
        add(3, vec![WatcherMain(2), Global(2)]);
        add(2, vec![WatcherMain(1), Global(1), Global(1)]);
    }
    v
}

pub const SUB: crate::driver::Sub = crate::driver::Sub {
    name: "c06_watch_loom",
    property: "C06",
    configs,
    rule: "configs = n in 1..3 writes by one writer x pollers {ReloadWatcher made before the writes / by the reader / from the untyped handle, reloaded_global, both alternately; 1-3 polls; 1-3 polling threads}; `if reported { read value }` after every poll; final polls after the joins; for each config loom enumerates every interleaving of the entry's RwLock and atomic operations within the preemption bound. distinct = distinct (poll answers per thread, final flag) observations",
    bound: "1 writer thread, 1-3 poller threads, <=3 writes, <=3 polls; same configs in both tiers; one poller with <=2 polls and <=2 writes: unbounded",
};
