//! C18 — `ReloadId` / `AtomicReloadId` bookkeeping is a monotone maximum, atomically.
//!
//! (a) sequential, exhaustive, inside `loom::model` on one thread: every (old,new) in {0..4}^2 and
//!     every sequence of <= 3 offers for `ReloadId::update`; every sequence of <= 3 operations from
//!     {update(k), fetch_max(k), swap(k), store(k), load : k in 0..4} from every initial value in
//!     0..4 for `AtomicReloadId`, against a `max` reference; NEVER is the least id.  Split into one
//!     loom execution per (initial value, 1- or 2-operation prefix), <= 65 subject calls each.
//! (b) concurrent: 2-3 threads x 1-2 calls from {update(k), fetch_max(k), swap(k), load}, all
//!     interleavings (no preemption bound: the space is tiny).  Oracle: the recorded results and the
//!     final value are linearizable w.r.t. the sequential specification (brute force over all
//!     orders that respect program order) — for update-only histories this is "the number of `true`
//!     answers equals the number of strict increases of the stored value" — and the final value is
//!     max(initial, offers) when only update / fetch_max are used.
use crate::entry::probe::{raw, rid};
use crate::entry::{AtomicReloadId, ReloadId};
use crate::support::*;
use std::sync::Arc;

const VALS: std::ops::RangeInclusive<usize> = 0..=4;

#[derive(Clone, Copy, PartialEq, Eq, PartialOrd, Ord, Hash)]
pub enum Op {
    Update(usize),
    FetchMax(usize),
    Swap(usize),
    Store(usize),
    Load,
}
impl std::fmt::Debug for Op {
    fn fmt(&self, f: &mut std::fmt::Formatter<'_>) -> std::fmt::Result {
        match self {
            Op::Update(k) => write!(f, "u{k}"),
            Op::FetchMax(k) => write!(f, "m{k}"),
            Op::Swap(k) => write!(f, "s{k}"),
            Op::Store(k) => write!(f, "w{k}"),
            Op::Load => write!(f, "l"),
        }
    }
}
impl Op {
    fn kind(self) -> &'static str {
        match self {
            Op::Update(_) => "update",
            Op::FetchMax(_) => "fetch_max",
            Op::Swap(_) => "swap",
            Op::Store(_) => "store",
            Op::Load => "load",
        }
    }
}
fn prog_name(p: &[Op]) -> String {
    p.iter().map(|o| format!("{o:?}")).collect::<Vec<_>>().join(".")
}

/// sequential specification: (state, op) -> (state', result); bool results are 0/1, `store` returns 0
fn spec(s: usize, op: Op) -> (usize, usize) {
    match op {
        Op::Update(k) => (s.max(k), (k > s) as usize),
        Op::FetchMax(k) => (s.max(k), s),
        Op::Swap(k) => (k, s),
        Op::Store(k) => (k, 0),
        Op::Load => (s, s),
    }
}
fn apply(a: &AtomicReloadId, op: Op) -> usize {
    op_count();
    match op {
        Op::Update(k) => a.update(rid(k)) as usize,
        Op::FetchMax(k) => raw(a.fetch_max(rid(k))),
        Op::Swap(k) => raw(a.swap(rid(k))),
        Op::Store(k) => {
            a.store(rid(k));
            0
        }
        Op::Load => raw(a.load()),
    }
}
fn op_count() {
    op();
}

// ------------------------------------------------------------------------------------------ (a)
fn seq_reload_id() {
    // NEVER is the least id; ordering of ids is the ordering of their numbers
    if raw(ReloadId::NEVER) != 0 {
        fail!("seq-NEVER-not-zero", "ReloadId::NEVER is {:?}", ReloadId::NEVER);
    }
    if ReloadId::default() != ReloadId::NEVER {
        fail!("seq-default-not-NEVER", "ReloadId::default() = {:?}", ReloadId::default());
    }
    for a in VALS {
        case();
        if rid(a) < ReloadId::NEVER || (a > 0 && !(rid(a) > ReloadId::NEVER)) {
            fail!("seq-NEVER-not-least", "ReloadId({a}) compared with ReloadId::NEVER");
        }
        for b in VALS {
            case();
            if rid(a).cmp(&rid(b)) != a.cmp(&b) || (rid(a) == rid(b)) != (a == b) {
                fail!("seq-ReloadId-order", "ReloadId({a}) cmp ReloadId({b}) = {:?}", rid(a).cmp(&rid(b)));
            }
        }
    }
    // update: all pairs, then all sequences of <= 3 offers from every initial value
    for old in VALS {
        for offers in sequences(&VALS.collect::<Vec<_>>(), 1..=3) {
            case();
            op();
            let mut r = rid(old);
            let mut s = old;
            for (i, &k) in offers.iter().enumerate() {
                let got = r.update(rid(k));
                let want = k > s;
                s = s.max(k);
                if got != want || raw(r) != s {
                    let upto: Vec<String> = offers[..=i].iter().map(|x| x.to_string()).collect();
                    fail!("seq-ReloadId-update", "minimal case ReloadId({old}) <- {}: call #{i} returned {got} (want {want}), stored {} (want {s})", upto.join(","), raw(r));
                }
            }
            outcome(&("rid", old, &offers, s));
        }
    }
}

fn seq_alphabet() -> Vec<Op> {
    let mut alphabet = vec![];
    for k in VALS {
        alphabet.push(Op::Update(k));
    }
    for k in VALS {
        alphabet.push(Op::FetchMax(k));
    }
    for k in VALS {
        alphabet.push(Op::Swap(k));
    }
    for k in VALS {
        alphabet.push(Op::Store(k));
    }
    alphabet.push(Op::Load);
    alphabet
}

fn seq_atomic_new() {
    let never = AtomicReloadId::new();
    if raw(never.load()) != 0 || never.load() != ReloadId::NEVER {
        fail!("seq-AtomicReloadId-new-not-NEVER", "AtomicReloadId::new().load() = {:?}", never.load());
    }
    if raw(AtomicReloadId::default().load()) != 0 {
        fail!("seq-AtomicReloadId-default-not-NEVER", "default().load() != NEVER");
    }
    case();
}

/// One loom execution = the sequences that start with `prefix` (1 op: that sequence alone; 2 ops:
/// the 2-op sequence and its 21 extensions): at most 65 subject calls, so that loom's per-execution
/// capacities (u16 per-thread operation counter, `max_branches`) stay far away whatever number of
/// atomic operations one subject call is made of.  Overall the same 5 x 9 723 sequences as before.
fn seq_atomic(init: usize, prefix: &[Op]) {
    let mut seqs: Vec<Vec<Op>> = vec![prefix.to_vec()];
    if prefix.len() == 2 {
        for o in seq_alphabet() {
            let mut q = prefix.to_vec();
            q.push(o);
            seqs.push(q);
        }
    }
    for ops in seqs {
        case();
        let a = AtomicReloadId::with_value(rid(init));
        let mut s = init;
        for (i, &o) in ops.iter().enumerate() {
            let got = apply(&a, o);
            let (s2, want) = spec(s, o);
            s = s2;
            let stored = raw(a.load());
            if got != want || stored != s {
                fail!(format!("seq-AtomicReloadId-{}", o.kind()), "minimal case AtomicReloadId({init}) {}: call #{i} returned {got} (want {want}), stored {stored} (want {s})", prog_name(&ops[..=i]));
            }
        }
        outcome(&("atomic", init, &ops, s));
    }
}

// ------------------------------------------------------------------------------------------ (b)
/// Is there an interleaving of the programs (respecting program order) that the sequential
/// specification maps to exactly the recorded results and final value?
fn linearizable(s: usize, progs: &[Vec<Op>], results: &[Vec<usize>], pos: &mut Vec<usize>, fin: usize) -> bool {
    if pos.iter().enumerate().all(|(t, &p)| p == progs[t].len()) {
        return s == fin;
    }
    for t in 0..progs.len() {
        let p = pos[t];
        if p < progs[t].len() {
            let (s2, r) = spec(s, progs[t][p]);
            if r == results[t][p] {
                pos[t] += 1;
                let ok = linearizable(s2, progs, results, pos, fin);
                pos[t] -= 1;
                if ok {
                    return true;
                }
            }
        }
    }
    false
}

fn conc_body(init: usize, progs: Arc<Vec<Vec<Op>>>) {
    let a = Arc::new(AtomicReloadId::with_value(rid(init)));
    let mut hs = vec![];
    for t in 0..progs.len() {
        let a = a.clone();
        let progs = progs.clone();
        hs.push(loom::thread::spawn(move || progs[t].iter().map(|&o| apply(&a, o)).collect::<Vec<usize>>()));
    }
    let results: Vec<Vec<usize>> = hs.into_iter().map(|h| h.join().unwrap()).collect();
    let fin = raw(a.load());
    let monotone_only = progs.iter().flatten().all(|o| matches!(o, Op::Update(_) | Op::FetchMax(_) | Op::Load));
    if monotone_only {
        let want = progs.iter().flatten().fold(init, |m, o| match o {
            Op::Update(k) | Op::FetchMax(k) => m.max(*k),
            _ => m,
        });
        if fin != want {
            fail!("final-not-max", "initial {init}, programs {:?}: final value {fin}, maximum offered {want}; results {results:?}", progs);
        }
    }
    let update_only = progs.iter().flatten().all(|o| matches!(o, Op::Update(_)));
    if !linearizable(init, &progs, &results, &mut vec![0; progs.len()], fin) {
        let trues: usize = results.iter().flatten().sum();
        if update_only {
            // number of `true` answers must equal the number of strict increases initial -> final
            // along some order; name the direction of the miss
            let distinct_growths = {
                let mut ks: Vec<usize> = progs.iter().flatten().map(|o| if let Op::Update(k) = o { *k } else { 0 }).filter(|&k| k > init).collect();
                ks.sort();
                ks.dedup();
                ks.len()
            };
            let tag = if trues > distinct_growths {
                "extra-true"
            } else if trues == 0 && fin > init {
                "lost-true"
            } else {
                "not-linearizable"
            };
            fail!(tag, "initial {init}, programs {:?}: results {results:?} (1 = told true), final {fin}: {trues} callers told true, {distinct_growths} distinct ids above the initial value; no sequential order explains this", progs);
        }
        fail!("not-linearizable", "initial {init}, programs {:?}: results {results:?}, final {fin}: no sequential order of the calls explains this", progs);
    }
    outcome(&(init, &results, fin));
}

/// `skip_update_only`: the family's update-only members are already members of an earlier family
/// Is every subject call one loom scheduling point (one atomic RMW / load), as with the
/// `AtomicUsize::fetch_max` implementation the 3-thread families were sized for?
fn calls_are_single_steps() -> bool {
    use std::sync::atomic::Ordering::Relaxed;
    let a = AtomicReloadId::new();
    let mut single = true;
    for o in [Op::Update(1), Op::Update(1), Op::FetchMax(2), Op::FetchMax(1), Op::Swap(1), Op::Load] {
        let b0 = BRANCHES.load(Relaxed);
        apply(&a, o);
        single &= BRANCHES.load(Relaxed) - b0 <= 1;
    }
    single
}

fn conc_family(out: &mut Vec<Config>, fam: &str, lens: &[usize], alphabet: &[Op], inits: &[usize], skip_update_only: bool) {
    let pools: Vec<Vec<Vec<Op>>> = lens.iter().map(|&l| sequences(alphabet, l..=l)).collect();
    for progs in thread_programs(&pools) {
        if skip_update_only && progs.iter().flatten().all(|o| matches!(o, Op::Update(_))) {
            continue;
        }
        for &init in inits {
            let name = format!("{fam}:i{init}:{}", progs.iter().map(|p| prog_name(p)).collect::<Vec<_>>().join("|"));
            let progs = Arc::new(progs.clone());
            // two threads: tiny whatever a call is made of.  Three threads: exhaustive (no bound)
            // when a call is one atomic step, preemption-bounded when it is a multi-step loop.
            let bound = if lens.len() <= 2 { Bound::Unbounded } else { Bound::Adaptive(calls_are_single_steps) };
            out.push(Config::new(name, bound, move || conc_body(init, progs.clone())));
        }
    }
}

fn probe() {
    must_branch("AtomicReloadId update / fetch_max / swap / store / load", || {
        let a = AtomicReloadId::new();
        a.update(rid(1));
        a.fetch_max(rid(2));
        a.swap(rid(1));
        a.store(rid(3));
        a.load();
    });
    outcome(&PROBE);
}

pub fn configs(thorough: bool) -> Vec<Config> {
    use Op::*;
    let mut v = vec![Config::new(PROBE.into(), Bound::Unbounded, probe)];
    v.push(Config::new("seq:ReloadId".into(), Bound::Unbounded, seq_reload_id));
    v.push(Config::new("seq:AtomicReloadId::new".into(), Bound::Unbounded, seq_atomic_new));
    // shortest prefixes first: all 1-op sequences, then per 2-op prefix the 2- and 3-op sequences
    for plen in [1usize, 2] {
        for init in VALS {
            for prefix in sequences(&seq_alphabet(), plen..=plen) {
                v.push(Config::new(format!("seq:AtomicReloadId:i{init}:{}", prog_name(&prefix)), Bound::Unbounded, move || seq_atomic(init, &prefix)));
            }
        }
    }
    // simplest first.  Names: <family>:i<initial>:<program of thread 0>|<thread 1>|…  (uK update, mK fetch_max, sK swap, l load)
    let upd: Vec<Op> = (0..=3).map(Update).collect();
    let all1: Vec<Op> = (0..=3).map(Update).chain((0..=3).map(FetchMax)).chain((0..=3).map(Swap)).collect();
    conc_family(&mut v, "update2", &[1, 1], &upd, &[0, 1, 2], false);
    conc_family(&mut v, "mixed2", &[1, 1], &all1, &[0, 1, 2], true);
    let upd3: Vec<Op> = (1..=3).map(Update).collect();
    conc_family(&mut v, "update3", &[1, 1, 1], &upd3, &[0, 2], false);
    let mix: Vec<Op> = vec![Update(1), Update(2), Update(3), FetchMax(1), FetchMax(3), Swap(2), Load];
    conc_family(&mut v, "mixed2x12", &[1, 2], &mix, &[0, 2], false);
    conc_family(&mut v, "update2x2", &[2, 2], &upd3, &[0, 2], false);
    conc_family(&mut v, "mixed2x2", &[2, 2], &mix, &[0, 2], true);
    let mix3: Vec<Op> = vec![Update(1), Update(2), Update(3), FetchMax(2), Swap(1), Swap(3)];
    conc_family(&mut v, "mixed3", &[1, 1, 1], &mix3, &[0, 2], true);
    let upd12: Vec<Op> = vec![Update(1), Update(2)];
    conc_family(&mut v, "update3x2", &[2, 2, 2], &upd12, &[0, 1], false);
    let all3: Vec<Op> = (1..=3).map(Update).chain((1..=3).map(FetchMax)).chain((1..=3).map(Swap)).collect();
    conc_family(&mut v, "mixed3all", &[1, 1, 1], &all3, &[0, 2], true);
    let m5: Vec<Op> = vec![Update(1), Update(2), Update(3), FetchMax(2), Swap(1)];
    conc_family(&mut v, "mixed3x112", &[1, 1, 2], &m5, &[0, 2], false);
    if thorough {
        conc_family(&mut v, "mixed3x2", &[2, 2, 2], &m5, &[0, 2], false);
    }
    v
}

pub const SUB: crate::driver::Sub = crate::driver::Sub {
    name: "c18_reloadid",
    property: "C18",
    configs,
    rule: "configs = (a) exhaustive sequential cases on one loom thread: all (old,new) in {0..4}^2 and all offer sequences of length <=3 for ReloadId::update; all operation sequences of length <=3 over {update,fetch_max,swap,store}x{0..4}+load from every initial value 0..4 for AtomicReloadId, vs a max reference; (b) every assignment of 1-2 operations from {update k, fetch_max k, swap k, load} to 2-3 threads (up to thread symmetry) x initial values; for each config loom enumerates every interleaving of the intercepted atomic operations (DPOR, C11 model). evaluations = loom executions + sequential cases; distinct = distinct (config, results, final value) observations",
    bound: "threads 2-3, calls per thread 1-2 (3 threads x 2 mixed calls: thorough only; 3 threads x 2 updates over {1,2}: both tiers), ids 0..4 (sequential) / 0..3 (concurrent); no preemption bound, except 3-thread configs when a call is measured to be more than one atomic step (then the tier bound 2 / 3)",
};
