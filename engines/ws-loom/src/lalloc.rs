//! Target of the `std::alloc::{alloc,dealloc}` redirection.
//!
//! Every block is tracked by loom (`loom::alloc::Track`, the same `rt::Allocation` object that
//! `loom::alloc::alloc` registers): a block never released makes loom end the execution with
//! "Leaked".  On top of that a ledger (ptr -> layout) gives a *deterministic* verdict for the other
//! misuse shapes before any freed memory is touched:
//!   * dealloc of a pointer that is not live      -> `[[double-free]]`
//!   * dealloc with a layout other than alloc's   -> `[[dealloc-layout]]`
//! and released blocks are quarantined (really freed at the start of the next execution), so that a
//! buggy kernel that reads a block after releasing it reads intact bytes instead of allocator
//! free-list garbage (which would make the witness depend on ASLR).  The harness asserts
//! `live_blocks()` wherever it holds a handle, which turns use-after-free into `[[use-after-free]]`.
//! Neither call is a loom scheduling point (as with `loom::alloc::{alloc,dealloc}`).
use std::alloc::Layout;
use std::cell::RefCell;
use std::collections::HashMap;

struct Ledger {
    live: HashMap<usize, (Layout, loom::alloc::Track<()>)>,
    quarantine: Vec<(usize, Layout)>,
    allocs: u64,
    frees: u64,
}

thread_local! {
    static LEDGER: RefCell<Ledger> = RefCell::new(Ledger { live: HashMap::new(), quarantine: Vec::new(), allocs: 0, frees: 0 });
}

pub unsafe fn alloc(layout: Layout) -> *mut u8 {
    let p = std::alloc::alloc(layout);
    if !p.is_null() {
        let t = loom::alloc::Track::new(());
        LEDGER.with(|l| {
            let mut l = l.borrow_mut();
            l.allocs += 1;
            l.live.insert(p as usize, (layout, t));
        });
    }
    p
}

pub unsafe fn alloc_zeroed(layout: Layout) -> *mut u8 {
    let p = alloc(layout);
    if !p.is_null() {
        std::ptr::write_bytes(p, 0, layout.size());
    }
    p
}

/// `realloc` = tracked alloc of the new size + copy + tracked dealloc (always relocates).
pub unsafe fn realloc(ptr: *mut u8, layout: Layout, new_size: usize) -> *mut u8 {
    let new_layout = Layout::from_size_align_unchecked(new_size, layout.align());
    let p = alloc(new_layout);
    if !p.is_null() {
        std::ptr::copy_nonoverlapping(ptr, p, layout.size().min(new_size));
        dealloc(ptr, layout);
    }
    p
}

pub unsafe fn dealloc(ptr: *mut u8, layout: Layout) {
    let entry = LEDGER.with(|l| l.borrow_mut().live.remove(&(ptr as usize)));
    match entry {
        None => fail!("double-free", "dealloc of a block that is not live (already released or never allocated): ptr={ptr:p} layout={layout:?}"),
        Some((l0, track)) => {
            drop(track); // loom: allocation released
            if l0 != layout {
                fail!("dealloc-layout", "block allocated with {l0:?} released with {layout:?}");
            }
            LEDGER.with(|l| {
                let mut l = l.borrow_mut();
                l.frees += 1;
                l.quarantine.push((ptr as usize, layout));
            });
        }
    }
}

/// Number of blocks currently allocated through the kernels.
pub fn live_blocks() -> usize {
    LEDGER.with(|l| l.borrow().live.len())
}
pub fn counters() -> (u64, u64) {
    LEDGER.with(|l| {
        let l = l.borrow();
        (l.allocs, l.frees)
    })
}

/// Start of an execution: really free what the previous execution released.
pub fn begin_execution() {
    let q = LEDGER.with(|l| {
        let mut l = l.borrow_mut();
        assert!(l.live.is_empty(), "lalloc: live blocks survived a completed execution (loom should have reported the leak)");
        l.allocs = 0;
        l.frees = 0;
        std::mem::take(&mut l.quarantine)
    });
    for (p, layout) in q {
        unsafe { std::alloc::dealloc(p as *mut u8, layout) };
    }
}

/// After a failed execution: loom's runtime is gone, the `Track` objects must not run their
/// destructors (they would look for it).
pub fn forget_all() {
    LEDGER.with(|l| {
        if let Ok(mut l) = l.try_borrow_mut() {
            for (_, (_, t)) in l.live.drain() {
                std::mem::forget(t);
            }
        }
    });
}
