//! Parent / child process driver.
//!
//! Parent (`kernmc <subcheck> --tier T --seed N --out FILE`): enumerates the sub-check's configs
//! (simplest first), partitions them round-robin over worker *processes* and merges what they
//! measured into one `vcommon::SubResult`.  Every loom model runs in a child because loom reports
//! by panicking (and a failing kernel may abort): a child runs its configs in order until one
//! fails, records the failure, and the parent restarts it behind the failed config — so every
//! config is always run and the set of violation keys does not depend on the number of workers.
//!
//! Child (`kernmc --child <subcheck> <tier> <bound> <j>/<m> <from> <outfile> [<only-config>]`):
//! appends one JSON line per event to <outfile>: start / done (iterations, scheduling points,
//! operations, outcome hashes) / fail (first panic message).
use crate::support::*;
use serde_json::{json, Value};
use std::io::Write;
use std::panic;
use std::process::{Command, Stdio};
use std::sync::atomic::{AtomicBool, Ordering::Relaxed};
use std::sync::Mutex;
use std::time::{Duration, Instant};

pub struct Sub {
    pub name: &'static str,
    pub property: &'static str,
    pub configs: fn(bool) -> Vec<Config>,
    pub rule: &'static str,
    pub bound: &'static str,
}

/// The sub-checks of this binary (one bin target per kernel family, see Cargo.toml).
use crate::SUBS;

fn machinery(msg: &str) -> ! {
    eprintln!("MACHINERY: {msg}");
    std::process::exit(2)
}

pub fn main() {
    let argv: Vec<String> = std::env::args().collect();
    if argv.get(1).map(|s| s.as_str()) == Some("--child") {
        child_main(&argv[2..]);
    }
    if argv.get(1).map(|s| s.as_str()) == Some("--list") {
        for s in SUBS {
            for t in [false, true] {
                let c = (s.configs)(t);
                println!("{} {} tier={} configs={}", s.property, s.name, if t { "thorough" } else { "quick" }, c.len());
                if argv.get(2).map(|s| s.as_str()) == Some("-v") {
                    for x in &c {
                        println!("    {} [{:?}]", x.name, x.bound);
                    }
                }
            }
        }
        return;
    }
    let args = vcommon::parse_args();
    if let Some(f) = &args.replay {
        replay(f);
    }
    let Some(sub) = SUBS.iter().find(|s| s.name == args.subcheck) else {
        machinery(&format!("unknown sub-check `{}` (known: {})", args.subcheck, SUBS.iter().map(|s| s.name).collect::<Vec<_>>().join(", ")))
    };
    let res = run_subcheck(&args, sub);
    match &args.out {
        Some(o) => res.write(o),
        None => println!("{}", serde_json::to_string_pretty(&res).unwrap()),
    }
    eprintln!(
        "kernmc {}: {} configs, {} executions, {} scheduling points, {} violations, exhaustive={}, {:.1}s",
        sub.name,
        res.notes.get("configs").and_then(|v| v.as_u64()).unwrap_or(0),
        res.evaluations,
        res.states,
        res.violations.len(),
        res.exhaustive,
        res.wall_s
    );
}

fn tier_bound(thorough: bool) -> usize {
    if let Ok(s) = std::env::var("KERNMC_PREEMPTION_BOUND") {
        if let Ok(n) = s.parse() {
            return n;
        }
    }
    if thorough {
        3
    } else {
        2
    }
}
fn per_config_cap(thorough: bool) -> Duration {
    let s = std::env::var("KERNMC_CONFIG_SECS").ok().and_then(|s| s.parse().ok()).unwrap_or(if thorough { 600 } else { 35 });
    Duration::from_secs(s)
}

// =============================================================================================
// child
// =============================================================================================
static FAILED: AtomicBool = AtomicBool::new(false);
static CURRENT: Mutex<Option<(usize, String, String)>> = Mutex::new(None); // idx, name, outfile

fn append(path: &str, v: &Value) {
    let mut f = std::fs::OpenOptions::new().create(true).append(true).open(path).unwrap_or_else(|e| machinery(&format!("open {path}: {e}")));
    let _ = writeln!(f, "{v}");
}

struct BranchCounter;
impl tracing::Subscriber for BranchCounter {
    fn enabled(&self, m: &tracing::Metadata<'_>) -> bool {
        // loom's runtime emits one TRACE event carrying a `switch` field per scheduling decision
        // (`rt::branch`, `yield_now`, thread termination)
        m.is_event() && m.target().starts_with("loom") && m.fields().field("switch").is_some()
    }
    fn new_span(&self, _: &tracing::span::Attributes<'_>) -> tracing::span::Id {
        tracing::span::Id::from_u64(1)
    }
    fn record(&self, _: &tracing::span::Id, _: &tracing::span::Record<'_>) {}
    fn record_follows_from(&self, _: &tracing::span::Id, _: &tracing::span::Id) {}
    fn event(&self, _: &tracing::Event<'_>) {
        BRANCHES.fetch_add(1, Relaxed);
    }
    fn enter(&self, _: &tracing::span::Id) {}
    fn exit(&self, _: &tracing::span::Id) {}
}

fn child_main(a: &[String]) -> ! {
    if a.len() < 6 {
        machinery("--child <subcheck> <tier> <bound> <j>/<m> <from> <outfile> [<only>]");
    }
    let sub = SUBS.iter().find(|s| s.name == a[0]).unwrap_or_else(|| machinery("child: unknown sub-check"));
    let thorough = a[1] == "thorough";
    let bound: usize = a[2].parse().unwrap_or_else(|_| machinery("child: bound"));
    let (j, m) = a[3].split_once('/').map(|(j, m)| (j.parse::<usize>().unwrap(), m.parse::<usize>().unwrap())).unwrap_or_else(|| machinery("child: part"));
    let from: usize = a[4].parse().unwrap_or_else(|_| machinery("child: from"));
    let out = a[5].clone();
    let only = a.get(6).cloned();
    let cap = per_config_cap(thorough);

    let _ = tracing::subscriber::set_global_default(BranchCounter);
    let default_hook = panic::take_hook();
    panic::set_hook(Box::new(move |info| {
        if !FAILED.swap(true, Relaxed) {
            let msg = if let Some(s) = info.payload().downcast_ref::<&str>() {
                s.to_string()
            } else if let Some(s) = info.payload().downcast_ref::<String>() {
                s.clone()
            } else {
                "panic with a non-string payload".to_string()
            };
            let loc = info.location().map(|l| format!("{}:{}", l.file(), l.line())).unwrap_or_default();
            if let Ok(cur) = CURRENT.lock() {
                if let Some((idx, name, out)) = cur.as_ref() {
                    append(out, &json!({"t": "fail", "idx": idx, "name": name, "iters": ITERS.load(Relaxed), "msg": msg, "loc": loc}));
                }
            }
        }
        default_hook(info);
    }));

    let configs = (sub.configs)(thorough);
    for (idx, cfg) in configs.into_iter().enumerate() {
        match &only {
            Some(n) => {
                if &cfg.name != n {
                    continue;
                }
            }
            None => {
                if idx % m != j || idx < from {
                    continue;
                }
            }
        }
        *CURRENT.lock().unwrap() = Some((idx, cfg.name.clone(), out.clone()));
        append(&out, &json!({"t": "start", "idx": idx, "name": cfg.name}));
        ITERS.store(0, Relaxed);
        OPS.store(0, Relaxed);
        CASES.store(0, Relaxed);
        BRANCHES.store(0, Relaxed);
        let _ = take_outcomes();
        let mut b = loom::model::Builder::new();
        let eff: Option<usize> = match cfg.bound {
            Bound::Unbounded => None,
            Bound::Tier => Some(bound),
            Bound::Fixed(n) => Some(n),
            Bound::Adaptive(cheap) => {
                static CHEAP: AtomicBool = AtomicBool::new(false);
                let mut m = loom::model::Builder::new();
                m.preemption_bound = None;
                m.check(move || CHEAP.store(cheap(), Relaxed));
                if CHEAP.load(Relaxed) {
                    None
                } else {
                    Some(bound)
                }
            }
        };
        b.preemption_bound = eff;
        BRANCHES.store(0, Relaxed); // the measurement above is not part of the config's count
        OPS.store(0, Relaxed);
        // below loom's hard per-execution capacity (u16 operation counter per thread): running into
        // this limit gives loom's own "exceeded maximum number of branches" instead of an overflow
        b.max_branches = 50_000;
        b.max_duration = Some(cap);
        b.checkpoint_interval = 500;
        b.max_permutations = None;
        b.log = false;
        let body = cfg.body.clone();
        let t0 = Instant::now();
        let r = panic::catch_unwind(panic::AssertUnwindSafe(|| {
            b.check(move || {
                ITERS.fetch_add(1, Relaxed);
                crate::lalloc::begin_execution();
                body();
            });
        }));
        if r.is_err() {
            crate::lalloc::forget_all();
            std::process::exit(101);
        }
        crate::lalloc::begin_execution();
        let secs = t0.elapsed().as_secs_f64();
        let (outs, sample) = take_outcomes();
        append(
            &out,
            &json!({"t": "done", "idx": idx, "name": cfg.name,
                "bound": eff.map_or("unbounded".to_string(), |n| n.to_string()),
                "iters": ITERS.load(Relaxed), "branches": BRANCHES.load(Relaxed), "ops": OPS.load(Relaxed), "cases": CASES.load(Relaxed),
                "outcomes": outs, "sample": sample, "secs": secs, "capped": t0.elapsed() >= cap}),
        );
    }
    std::process::exit(0)
}

// =============================================================================================
// parent
// =============================================================================================
#[derive(Default)]
struct PartOut {
    lines: Vec<Value>,
    /// crashes without a recorded panic: (idx, name, exit status text, stderr tail)
    crashes: Vec<(usize, String, String, String)>,
    spawns: u64,
}

fn tail(path: &std::path::Path, n: usize) -> String {
    let s = std::fs::read(path).map(|b| String::from_utf8_lossy(&b).into_owned()).unwrap_or_default();
    let k = s.len().saturating_sub(n);
    let mut k2 = k;
    while !s.is_char_boundary(k2) {
        k2 += 1;
    }
    s[k2..].to_string()
}

fn run_part(sub: &Sub, tier: &str, bound: usize, j: usize, m: usize, dir: &std::path::Path, only: Option<&str>, deadline: Instant) -> PartOut {
    let exe = std::env::current_exe().unwrap();
    let mut po = PartOut::default();
    let mut from = 0usize;
    let mut round = 0;
    loop {
        let out = dir.join(format!("p{j}-{round}.jsonl"));
        let err = dir.join(format!("p{j}-{round}.stderr"));
        let _ = std::fs::remove_file(&out);
        let mut cmd = Command::new(&exe);
        cmd.arg("--child").arg(sub.name).arg(tier).arg(bound.to_string()).arg(format!("{j}/{m}")).arg(from.to_string()).arg(&out);
        if let Some(o) = only {
            cmd.arg(o);
        }
        cmd.stdout(Stdio::null()).stderr(std::fs::File::create(&err).map(Stdio::from).unwrap_or(Stdio::null()));
        cmd.env("RUST_BACKTRACE", "0").env_remove("LOOM_LOG").env_remove("LOOM_MAX_PREEMPTIONS").env_remove("LOOM_MAX_DURATION").env_remove("LOOM_MAX_PERMUTATIONS").env_remove("LOOM_CHECKPOINT_FILE");
        let mut child = cmd.spawn().unwrap_or_else(|e| machinery(&format!("spawn child: {e}")));
        po.spawns += 1;
        let status = loop {
            match child.try_wait() {
                Ok(Some(s)) => break s,
                Ok(None) => {
                    if Instant::now() > deadline {
                        let _ = child.kill();
                        let _ = child.wait();
                        machinery(&format!("{}: worker {j} exceeded the overall time limit", sub.name));
                    }
                    std::thread::sleep(Duration::from_millis(5));
                }
                Err(e) => machinery(&format!("wait: {e}")),
            }
        };
        let txt = std::fs::read_to_string(&out).unwrap_or_default();
        let mut last_start: Option<(usize, String)> = None;
        let mut failed_idx: Option<usize> = None;
        for l in txt.lines() {
            let Ok(v) = serde_json::from_str::<Value>(l) else { continue };
            match v["t"].as_str() {
                Some("start") => last_start = Some((v["idx"].as_u64().unwrap() as usize, v["name"].as_str().unwrap().to_string())),
                Some("done") => {
                    last_start = None;
                    po.lines.push(v);
                }
                Some("fail") => {
                    failed_idx = Some(v["idx"].as_u64().unwrap() as usize);
                    let mut v = v;
                    v["stderr"] = json!(tail(&err, 1500));
                    po.lines.push(v);
                }
                _ => {}
            }
        }
        if status.success() && failed_idx.is_none() {
            return po;
        }
        // the child died: in a recorded panic, or hard (abort / signal) inside the config it had started
        let resume = match (failed_idx, last_start) {
            (Some(i), _) => i + 1,
            (None, Some((i, name))) => {
                po.crashes.push((i, name, format!("{status}"), tail(&err, 1500)));
                i + 1
            }
            (None, None) => machinery(&format!("{}: worker {j} exited with {status} outside any config: {}", sub.name, tail(&err, 800))),
        };
        if only.is_some() {
            return po;
        }
        from = resume;
        round += 1;
    }
}

fn classify(msg: &str, loc: &str) -> String {
    let in_loom_rt = loc.contains("/loom-") && loc.contains("/src/rt/");
    if let (Some(a), Some(b)) = (msg.find("[["), msg.find("]]")) {
        if a + 2 <= b {
            return msg[a + 2..b].to_string();
        }
    }
    let l = msg.to_lowercase();
    if l.contains("leaked") {
        "leak".into()
    } else if l.contains("deadlock") {
        // loom: "deadlock; threads = [(Id(0), Blocked(..)), (Id(1), Terminated), ..]": keep which
        // threads (in spawn order, main first) are blocked / terminated — it tells deadlocks apart
        let mut shape = String::new();
        let mut rest = msg;
        while let Some(i) = rest.find("(Id(") {
            rest = &rest[i + 4..];
            let Some(j) = rest.find("), ") else { break };
            let st = &rest[j + 3..];
            shape.push(if st.starts_with("Blocked") {
                'B'
            } else if st.starts_with("Terminated") {
                'T'
            } else if st.starts_with("Runnable") {
                'R'
            } else if st.starts_with("Yield") {
                'Y'
            } else {
                '?'
            });
        }
        if shape.is_empty() {
            "deadlock".into()
        } else {
            format!("deadlock:{shape}")
        }
    } else if l.contains("maximum number of branches") || (in_loom_rt && (l.contains("with overflow") || l.contains("max_threads") || l.contains("max_branches") || l.contains("[loom internal bug]") || l.contains("threads.len() <"))) {
        // a capacity of loom / of this harness, not a verdict (see `capacity` in run_subcheck)
        "capacity".into()
    } else if l.contains("already mutably borrowed") || l.contains("already borrowed") {
        "harness-borrow".into()
    } else if l.contains("causality violation") || l.contains("concurrent") {
        // loom's happens-before check on a tracked cell (entry value marker) or atomic; the suffix
        // says which access found the other one unordered
        if l.contains("concurrent write accesses") {
            "data-race:write-write".into()
        } else if l.contains("concurrent read and write accesses to") {
            "data-race:write".into() // a write that is not ordered after an earlier read
        } else if l.contains("concurrent read and write accesses") {
            "data-race:read".into() // a read that is not ordered after an earlier write
        } else {
            "data-race".into()
        }
    } else {
        "panic".into()
    }
}

struct Failure {
    idx: usize,
    name: String,
    tag: String,
    desc: String,
}

fn run_all(sub: &Sub, tier: &str, thorough: bool, jobs: usize, only: Option<&str>) -> (Vec<Value>, Vec<Failure>, u64, usize) {
    let n = (sub.configs)(thorough).len();
    let m = if only.is_some() { 1 } else { jobs.min(n).max(1) };
    let bound = tier_bound(thorough);
    let dir = std::env::temp_dir().join(format!("kernmc-{}-{}", std::process::id(), sub.name));
    std::fs::create_dir_all(&dir).unwrap_or_else(|e| machinery(&format!("mkdir {dir:?}: {e}")));
    let deadline = Instant::now() + Duration::from_secs(if thorough { 3600 } else { 600 });
    let mut parts: Vec<PartOut> = vec![];
    std::thread::scope(|s| {
        let hs: Vec<_> = (0..m).map(|j| { let dir = &dir; s.spawn(move || run_part(sub, tier, bound, j, m, dir, only, deadline)) }).collect();
        for h in hs {
            parts.push(h.join().unwrap_or_else(|_| machinery("worker thread panicked")));
        }
    });
    let _ = std::fs::remove_dir_all(&dir);
    let mut done = vec![];
    let mut fails = vec![];
    let mut spawns = 0;
    for p in parts {
        spawns += p.spawns;
        for v in p.lines {
            if v["t"] == "done" {
                done.push(v);
            } else {
                let msg = v["msg"].as_str().unwrap_or("").to_string();
                let tag = classify(&msg, v["loc"].as_str().unwrap_or(""));
                let msg = msg.split_whitespace().collect::<Vec<_>>().join(" ");
                let mut desc = format!("loom execution #{} of config `{}`: {}", v["iters"], v["name"].as_str().unwrap_or(""), msg);
                if !msg.contains("[[") && (tag == "panic" || tag == "capacity") {
                    desc.push_str(&format!(" (at {}); stderr tail: {}", v["loc"].as_str().unwrap_or("?"), v["stderr"].as_str().unwrap_or("")));
                }
                fails.push(Failure { idx: v["idx"].as_u64().unwrap() as usize, name: v["name"].as_str().unwrap().to_string(), tag, desc });
            }
        }
        for (idx, name, status, errtail) in p.crashes {
            fails.push(Failure { idx, name: name.clone(), tag: "crash".into(), desc: format!("config `{name}`: child process died ({status}) without a panic message; stderr tail: {errtail}") });
        }
    }
    done.sort_by_key(|v| v["idx"].as_u64());
    fails.sort_by_key(|f| f.idx);
    (done, fails, spawns, n)
}

fn run_subcheck(args: &vcommon::Args, sub: &Sub) -> vcommon::SubResult {
    let t0 = Instant::now();
    let thorough = args.thorough();
    let tier = if thorough { "thorough" } else { "quick" };
    let bound = tier_bound(thorough);
    let mut res = vcommon::SubResult::new(sub.property, sub.name);
    let (done, fails, spawns, n) = run_all(sub, tier, thorough, args.jobs, None);
    let mut per_bound: std::collections::BTreeMap<String, u64> = Default::default();
    let mut n_tier = 0u64;
    let mut n_unb = 0u64;
    let mut slow: Option<(f64, String, u64)> = None;
    let mut big: Option<(u64, String)> = None;
    let mut bindings = 0u64;
    for v in &done {
        let iters = v["iters"].as_u64().unwrap_or(0);
        let cases = v["cases"].as_u64().unwrap_or(0);
        res.evaluations += iters + cases;
        res.states += v["branches"].as_u64().unwrap_or(0);
        res.transitions += v["ops"].as_u64().unwrap_or(0);
        bindings += cases;
        for h in v["outcomes"].as_array().into_iter().flatten() {
            if let Some(h) = h.as_u64() {
                res.distinct.insert(h ^ vcommon::h64(v["name"].as_str().unwrap_or("")));
            }
        }
        if v["bound"] == "unbounded" {
            n_unb += 1
        } else {
            n_tier += 1
        }
        *per_bound.entry(v["bound"].as_str().unwrap_or("?").to_string()).or_insert(0u64) += 1;
        if v["capped"].as_bool() == Some(true) {
            res.cap(format!("config `{}` stopped at the per-config time limit after {} executions", v["name"].as_str().unwrap_or(""), iters));
        }
        let secs = v["secs"].as_f64().unwrap_or(0.0);
        if slow.as_ref().map_or(true, |s| secs > s.0) {
            slow = Some((secs, v["name"].as_str().unwrap_or("").to_string(), iters));
        }
        if big.as_ref().map_or(true, |s| iters > s.0) {
            big = Some((iters, v["name"].as_str().unwrap_or("").to_string()));
        }
    }
    // a few actual cases: the first, the largest, and some in between
    let pick: Vec<usize> = if done.is_empty() { vec![] } else { vec![0, done.len() / 4, done.len() / 2, 3 * done.len() / 4, done.len() - 1] };
    for i in pick {
        let v = &done[i];
        res.sample(json!({"config": v["name"], "preemption_bound": v["bound"], "executions": v["iters"], "scheduling_points": v["branches"], "one_observed_outcome": v["sample"]}));
    }
    // a kernel that does not run on loom is a machinery failure, never a verdict
    if let Some(f) = fails.iter().find(|f| f.tag == "un-instrumented") {
        machinery(&format!("{}: {}", sub.name, f.desc));
    }
    // so is running into a capacity of loom (operation counter, branch limit, thread limit)
    if let Some(f) = fails.iter().find(|f| f.tag == "capacity") {
        machinery(&format!("{}: harness capacity exceeded, not a verdict about the subject: {}", sub.name, f.desc));
    }
    // one violation per failure class: the simplest failing config in enumeration order
    let mut seen = std::collections::BTreeSet::new();
    for f in &fails {
        if seen.insert(f.tag.clone()) {
            res.cur_rank = f.idx as u64;
            res.violation(
                format!("{}:{}:{}", sub.name, f.name, f.tag),
                format!("{} [{} of {} configs fail with this class]", f.desc, fails.iter().filter(|g| g.tag == f.tag).count(), n),
                json!({"engine": "kernmc", "subcheck": sub.name, "config": f.name, "tier": tier, "bound": bound}),
            );
        }
    }
    if done.len() + fails.len() != n {
        res.cap(format!("{} of {n} configs produced no result", n - (done.len() + fails.len()).min(n)));
    }
    res.traces_validated = bindings + if sub.name == "c18_reloadid" { done.iter().filter(|v| !v["name"].as_str().unwrap_or("").starts_with("seq:")).map(|v| v["iters"].as_u64().unwrap_or(0)).sum::<u64>() } else { 0 };
    res.bound = format!(
        "loom 0.7.2 (C11 model, DPOR); {}; preemption bound -> number of configs: {}; every config completed: {}",
        sub.bound,
        per_bound.iter().map(|(b, n)| format!("{b}: {n}")).collect::<Vec<_>>().join(", "),
        res.exhaustive
    );
    let _ = (n_tier, n_unb);
    res.rule = sub.rule.to_string();
    res.note("configs", json!(n));
    res.note("configs_passed", json!(done.len()));
    res.note("configs_failed", json!(fails.len()));
    res.note("child_processes", json!(spawns));
    res.note("preemption_bound_completed", json!(per_bound));
    if let Some((s, name, it)) = slow {
        res.note("slowest_config", json!({"config": name, "secs": (s * 100.0).round() / 100.0, "executions": it}));
    }
    if let Some((it, name)) = big {
        res.note("largest_config", json!({"config": name, "executions": it}));
    }
    res.note("kernel_source", json!(env!("KERNMC_REPO_ROOT")));
    res.note("instrumentation", json!(env!("KERNMC_INSTRUMENTATION")));
    res.note("seed", json!(args.seed));
    res.wall_s = t0.elapsed().as_secs_f64();
    res
}

fn replay(file: &str) -> ! {
    let txt = std::fs::read_to_string(file).unwrap_or_else(|e| machinery(&format!("read {file}: {e}")));
    let w: Value = serde_json::from_str(&txt).unwrap_or_else(|e| machinery(&format!("parse {file}: {e}")));
    let r = &w["replay"];
    let subname = r["subcheck"].as_str().or(w["subcheck"].as_str()).unwrap_or_else(|| machinery("witness has no subcheck"));
    let sub = SUBS.iter().find(|s| s.name == subname).unwrap_or_else(|| machinery("witness names an unknown sub-check"));
    let config = r["config"].as_str().unwrap_or_else(|| machinery("witness has no config"));
    let tier = r["tier"].as_str().unwrap_or("quick");
    let thorough = tier == "thorough";
    if let Some(b) = r["bound"].as_u64() {
        std::env::set_var("KERNMC_PREEMPTION_BOUND", b.to_string());
    }
    let Some(cfg) = (sub.configs)(thorough).into_iter().find(|c| c.name == config) else {
        machinery(&format!("config `{config}` is not part of {subname} ({tier})"))
    };
    let eff = match cfg.bound {
        Bound::Unbounded => "none".to_string(),
        Bound::Tier => tier_bound(thorough).to_string(),
        Bound::Fixed(n) => n.to_string(),
        Bound::Adaptive(_) => format!("none or {} (measured in the child)", tier_bound(thorough)),
    };
    println!("replay: {} ({}) config `{}` tier {} preemption bound {}", sub.name, sub.property, config, tier, eff);
    println!("recorded key : {}", w["key"].as_str().unwrap_or("?"));
    let (done, fails, _, _) = run_all(sub, tier, thorough, 1, Some(config));
    for v in &done {
        println!("observed     : config completed: {} executions, {} scheduling points, no oracle failed; one outcome: {}", v["iters"], v["branches"], v["sample"]);
    }
    for f in &fails {
        println!("observed     : {}:{}:{}", sub.name, f.name, f.tag);
        println!("               {}", f.desc);
    }
    if let Some(f) = fails.iter().find(|f| f.tag == "capacity" || f.tag == "un-instrumented") {
        machinery(&format!("replay: {}: {}", f.tag, f.desc));
    }
    if fails.is_empty() {
        println!("verdict      : violation does NOT reproduce");
        std::process::exit(0)
    }
    let same = fails.iter().any(|f| Some(format!("{}:{}:{}", sub.name, f.name, f.tag).as_str()) == w["key"].as_str());
    println!("verdict      : violation reproduces{}", if same { " (same key)" } else { " (different failure class than recorded)" });
    std::process::exit(1)
}
