//! C17 (schedule part) — `OnceInitCell` under concurrent initialisers.
//!
//! 2-3 threads each call `get_or_try_init` (or `get_or_init`) with a fixed outcome in {Ok(i), Err};
//! optionally a poller thread calls `get` 1-2 times.  Seed types with and without `Drop`
//! (`needs_drop::<U>()` true -> `get_or_try_init_default`, false -> `get_or_try_init_no_drop`), and
//! `with_value` cells.  Every initialiser checks that the seed is intact (self-checking words, alive
//! in the drop ledger, attempt counter = number of initialisers that ran before it), bumps the
//! counter and yields inside the closure (so that an overlapping second initialiser would be seen).
//!
//! Oracles (tags): exactly one Ok initialiser ran `ok-init-count`; an Err caller got Err iff its
//! closure ran, an Ok caller always got Ok `result-mismatch`; all Ok results are the same address and
//! value `different-ref`; initialisers never overlap `init-overlap`; seed intact at every run
//! `seed-not-intact`; `get`: None until an Ok closure has finished `get-early`, never Some then None
//! `get-regressed`, Some(the same) afterwards `get-final`; a returned value is alive `value-dead`;
//! ledger at quiescence: initialised => seed dropped once and value alive, else seed alive
//! `seed-drop-count` / `value-drop-count`; after dropping the cell every tracked object was dropped
//! exactly once `double-drop` / `final-ledger`.
use crate::support::*;
use crate::utils::cell::OnceInitCell;
use std::cell::{Cell, RefCell};
use std::sync::Arc;

const A: usize = 0x5eed_0001;

// ---- drop ledger (plain thread-local: all loom threads are coroutines of one OS thread) ----
#[derive(Clone, Copy, PartialEq, Debug)]
enum Kind {
    Seed,
    Value,
}
thread_local! {
    static LEDGER: RefCell<Vec<(Kind, u32)>> = RefCell::new(Vec::new()); // (kind, drops)
    static IN_INIT: Cell<u32> = Cell::new(0);
    static RUN_ORDER: Cell<usize> = Cell::new(0);
    static OK_DONE: Cell<bool> = Cell::new(false);
}
fn ledger_new(k: Kind) -> usize {
    LEDGER.with(|l| {
        let mut l = l.borrow_mut();
        l.push((k, 0));
        l.len() - 1
    })
}
fn ledger_drop(id: usize) {
    let (k, n) = LEDGER.with(|l| {
        let mut l = l.borrow_mut();
        l[id].1 += 1;
        l[id]
    });
    if n > 1 && !std::thread::panicking() {
        fail!(format!("double-drop:{}", if k == Kind::Seed { "seed" } else { "value" }), "{k:?} #{id} dropped {n} times");
    }
}
fn ledger_alive(id: usize) -> bool {
    LEDGER.with(|l| l.borrow()[id].1 == 0)
}
fn ledger_count(k: Kind) -> (usize, usize) {
    // (created, dropped at least once)
    LEDGER.with(|l| {
        let l = l.borrow();
        (l.iter().filter(|e| e.0 == k).count(), l.iter().filter(|e| e.0 == k && e.1 > 0).count())
    })
}
fn reset() {
    LEDGER.with(|l| l.borrow_mut().clear());
    IN_INIT.with(|c| c.set(0));
    RUN_ORDER.with(|c| c.set(0));
    OK_DONE.with(|c| c.set(false));
}

pub trait Seed: Send + 'static {
    fn make() -> Self;
    /// self-check; returns the attempt counter and bumps it
    fn visit(&mut self) -> Result<usize, String>;
    const DROPS: bool;
}
/// seed with a destructor: `needs_drop` is true
pub struct SeedD {
    a: usize,
    b: usize,
    attempts: usize,
    id: usize,
}
impl Drop for SeedD {
    fn drop(&mut self) {
        ledger_drop(self.id)
    }
}
impl Seed for SeedD {
    fn make() -> Self {
        SeedD { a: A, b: !A, attempts: 0, id: ledger_new(Kind::Seed) }
    }
    fn visit(&mut self) -> Result<usize, String> {
        if self.a != A || self.b != !A {
            return Err(format!("seed words {:#x}/{:#x}", self.a, self.b));
        }
        if !ledger_alive(self.id) {
            return Err("seed already dropped".into());
        }
        self.attempts += 1;
        Ok(self.attempts - 1)
    }
    const DROPS: bool = true;
}
/// seed without destructor: `needs_drop` is false
pub struct SeedP {
    a: usize,
    b: usize,
    attempts: usize,
}
impl Seed for SeedP {
    fn make() -> Self {
        SeedP { a: A, b: !A, attempts: 0 }
    }
    fn visit(&mut self) -> Result<usize, String> {
        if self.a != A || self.b != !A {
            return Err(format!("seed words {:#x}/{:#x}", self.a, self.b));
        }
        self.attempts += 1;
        Ok(self.attempts - 1)
    }
    const DROPS: bool = false;
}
pub struct Val {
    tag: usize,
    chk: usize,
    id: usize,
}
impl Val {
    fn new(tag: usize) -> Val {
        Val { tag, chk: !tag, id: ledger_new(Kind::Value) }
    }
}
impl Drop for Val {
    fn drop(&mut self) {
        ledger_drop(self.id)
    }
}

#[derive(Clone, Copy, PartialEq, Eq, PartialOrd, Ord, Hash, Debug)]
pub enum Out {
    Ok,
    Err,
}
#[derive(Clone, PartialEq, Eq, Hash, Debug)]
pub struct Cfg {
    drops: bool,
    outs: Vec<Out>,
    polls: usize,
    /// cell built by `with_value`
    pre: bool,
    /// Ok callers use `get_or_init` (the infallible wrapper)
    infallible: bool,
}
impl Cfg {
    fn name(&self) -> String {
        format!(
            "{}{}:{}:p{}",
            if self.pre { "with_value-" } else { "" },
            if self.drops { "drop-seed" } else { "plain-seed" },
            self.outs.iter().map(|o| if *o == Out::Ok { if self.infallible { "I" } else { "O" } } else { "E" }).collect::<String>(),
            self.polls
        )
    }
}

/// what one caller observed: (closure ran, Some((address, tag)) if Ok)
type Obs = (bool, Option<(usize, usize)>);

fn check_val(v: &Val, whom: &str) -> (usize, usize) {
    if v.chk != !v.tag {
        fail!("value-torn", "{whom}: value words {:#x}/{:#x}", v.tag, v.chk);
    }
    if !ledger_alive(v.id) {
        fail!("value-dead", "{whom}: got a reference to a value that has been dropped");
    }
    (v as *const Val as usize, v.tag)
}

fn body<U: Seed>(cfg: &Cfg) {
    reset();
    let n = cfg.outs.len();
    let cell: Arc<OnceInitCell<U, Val>> = Arc::new(if cfg.pre { OnceInitCell::with_value(Val::new(99)) } else { OnceInitCell::new(U::make()) });
    op();
    if !cfg.pre {
        if cell.get().is_some() {
            fail!("get-early", "fresh cell: get() is Some");
        }
    }
    let mut hs = vec![];
    for t in 0..n {
        let cell = cell.clone();
        let out = cfg.outs[t];
        let infallible = cfg.infallible;
        hs.push(loom::thread::spawn(move || -> Obs {
            let ran = Cell::new(false);
            let init = |u: &mut U| -> Result<Val, usize> {
                ran.set(true);
                if IN_INIT.with(|c| c.replace(c.get() + 1)) != 0 {
                    fail!("init-overlap", "caller {t}: its initialiser started while another one is running");
                }
                let order = RUN_ORDER.with(|c| c.replace(c.get() + 1));
                match u.visit() {
                    Err(e) => fail!("seed-not-intact", "caller {t}: {e}"),
                    Ok(att) if att != order => fail!("seed-not-intact", "caller {t}: initialiser #{order} sees attempt counter {att} in the seed"),
                    Ok(_) => {}
                }
                loom::thread::yield_now();
                if IN_INIT.with(|c| c.replace(c.get() - 1)) != 1 {
                    fail!("init-overlap", "caller {t}: another initialiser ran during this one");
                }
                match out {
                    Out::Ok => {
                        let v = Val::new(t);
                        OK_DONE.with(|c| c.set(true));
                        Ok(v)
                    }
                    Out::Err => Err(t),
                }
            };
            op();
            let r: Result<&Val, usize> = if infallible && out == Out::Ok { Ok(cell.get_or_init(|u| init(u).ok().unwrap())) } else { cell.get_or_try_init(init) };
            match r {
                Ok(v) => {
                    let o = check_val(v, &format!("caller {t}"));
                    // a second look through `get` must give the same thing
                    op();
                    match cell.get() {
                        Some(v2) if std::ptr::eq(v, v2) => {}
                        _ => fail!("get-final", "caller {t}: get() after a successful get_or_try_init is not Some(the same)"),
                    }
                    (ran.get(), Some(o))
                }
                Err(e) => {
                    if e != t {
                        fail!("result-mismatch", "caller {t} received the error of caller {e}");
                    }
                    (ran.get(), None)
                }
            }
        }));
    }
    let poller = if cfg.polls > 0 {
        let cell = cell.clone();
        let polls = cfg.polls;
        Some(loom::thread::spawn(move || {
            let mut seen: Vec<Option<(usize, usize)>> = vec![];
            for _ in 0..polls {
                op();
                let g = cell.get();
                let ok_done = OK_DONE.with(|c| c.get());
                match g {
                    Some(v) => {
                        if !ok_done && v.tag != 99 {
                            fail!("get-early", "poller: get() is Some before any successful initialiser finished");
                        }
                        seen.push(Some(check_val(v, "poller")));
                    }
                    None => seen.push(None),
                }
            }
            seen
        }))
    } else {
        None
    };
    let obs: Vec<Obs> = hs.into_iter().map(|h| h.join().unwrap()).collect();
    let polled = poller.map(|p| p.join().unwrap()).unwrap_or_default();

    // ---- oracle over the whole execution
    let any_ok = cfg.outs.contains(&Out::Ok);
    let ok_ran = (0..n).filter(|&t| cfg.outs[t] == Out::Ok && obs[t].0).count();
    let expect_ok_ran = if cfg.pre { 0 } else if any_ok { 1 } else { 0 };
    if ok_ran != expect_ok_ran {
        fail!("ok-init-count", "{} successful initialisers ran (want {expect_ok_ran}); observations (ran, result) {obs:?}", ok_ran);
    }
    let initialised = cfg.pre || any_ok;
    let mut the: Option<(usize, usize)> = None;
    for t in 0..n {
        let (ran, res) = obs[t];
        match cfg.outs[t] {
            Out::Ok => {
                if res.is_none() {
                    fail!("result-mismatch", "caller {t} (Ok initialiser) got Err");
                }
            }
            Out::Err => {
                if cfg.pre && ran {
                    fail!("result-mismatch", "caller {t}: initialiser ran on a with_value cell");
                }
                if ran != res.is_none() {
                    fail!("result-mismatch", "caller {t} (Err initialiser): closure ran = {ran}, result is {}", if res.is_none() { "Err" } else { "Ok" });
                }
            }
        }
        if let Some(r) = res {
            if *the.get_or_insert(r) != r {
                fail!("different-ref", "callers got different values: {:?} and {:?} (address, tag)", the.unwrap(), r);
            }
        }
    }
    if let Some((_, tag)) = the {
        let winner = (0..n).find(|&t| cfg.outs[t] == Out::Ok && obs[t].0);
        let want = if cfg.pre { 99 } else { winner.unwrap() };
        if tag != want {
            fail!("different-ref", "value has tag {tag}, the initialiser that ran was caller {want}");
        }
    }
    // Err initialisers that ran: every one ran exactly once (closure is FnOnce) — count consistency
    let total_ran = obs.iter().filter(|o| o.0).count();
    if RUN_ORDER.with(|c| c.get()) != total_ran {
        fail!("ok-init-count", "{} closure runs recorded, {total_ran} callers say they ran", RUN_ORDER.with(|c| c.get()));
    }
    let mut some_seen = false;
    for p in &polled {
        match p {
            Some(r) => {
                some_seen = true;
                if Some(*r) != the && the.is_some() {
                    fail!("different-ref", "poller saw {r:?}, callers saw {the:?}");
                }
                if !initialised {
                    fail!("get-early", "poller saw a value although no initialiser succeeded");
                }
            }
            None => {
                if some_seen {
                    fail!("get-regressed", "poller: get() returned Some and later None: {polled:?}");
                }
                if cfg.pre {
                    fail!("get-final", "poller: get() on a with_value cell is None");
                }
            }
        }
    }
    op();
    match (cell.get(), initialised) {
        (Some(v), true) => {
            let r = check_val(v, "main");
            if the.is_some() && Some(r) != the {
                fail!("different-ref", "main sees {r:?}, callers saw {the:?}");
            }
        }
        (None, false) => {}
        (g, _) => fail!("get-final", "after all joins get() is {}, initialised should be {initialised}", if g.is_some() { "Some" } else { "None" }),
    }
    // ---- ledger at quiescence, cell still alive
    let (seeds, seeds_dropped) = ledger_count(Kind::Seed);
    let (vals, vals_dropped) = ledger_count(Kind::Value);
    let want_seeds = if U::DROPS && !cfg.pre { 1 } else { 0 };
    if seeds != want_seeds {
        fail!("seed-drop-count", "{seeds} tracked seeds exist, want {want_seeds}");
    }
    if U::DROPS && !cfg.pre {
        let want = if initialised { 1 } else { 0 };
        if seeds_dropped != want {
            fail!("seed-drop-count", "cell {}initialised: seed dropped {seeds_dropped} times, want {want} (exactly one of seed/value may exist)", if initialised { "" } else { "not " });
        }
    }
    let want_vals = if initialised { 1 } else { 0 };
    if vals != want_vals || vals_dropped != 0 {
        fail!("value-drop-count", "cell alive: {vals} values created (want {want_vals}), {vals_dropped} already dropped (want 0)");
    }
    // ---- drop the cell: everything dropped exactly once
    op();
    match Arc::try_unwrap(cell) {
        Ok(c) => drop(c),
        Err(_) => fail!("harness", "cell still shared after joins"),
    }
    LEDGER.with(|l| {
        for (id, (k, drops)) in l.borrow().iter().enumerate() {
            if *drops != 1 {
                fail!(format!("final-ledger:{}", if *k == Kind::Seed { "seed" } else { "value" }), "{k:?} #{id} dropped {drops} times after the cell was dropped (want 1)");
            }
        }
    });
    outcome(&(obs.iter().map(|o| (o.0, o.1.map(|x| x.1))).collect::<Vec<_>>(), polled.iter().map(|p| p.map(|x| x.1)).collect::<Vec<_>>()));
}

fn probe() {
    reset();
    must_branch("OnceInitCell get / get_or_try_init / get", || {
        let cell: OnceInitCell<SeedD, Val> = OnceInitCell::new(SeedD::make());
        if cell.get().is_some() {
            fail!("get-early", "fresh cell: get() is Some");
        }
        let r = cell.get_or_try_init(|_| Ok::<_, ()>(Val::new(1))).is_ok();
        if !r || cell.get().is_none() {
            fail!("get-final", "probe: cell not initialised after a successful initialiser");
        }
        drop(cell);
    });
    outcome(&PROBE);
}

pub fn configs(thorough: bool) -> Vec<Config> {
    use Out::*;
    let mut cfgs: Vec<Cfg> = vec![];
    let outs2: Vec<Vec<Out>> = vec![vec![Ok, Ok], vec![Ok, Err], vec![Err, Err]];
    let outs3: Vec<Vec<Out>> = vec![vec![Ok, Ok, Ok], vec![Ok, Ok, Err], vec![Ok, Err, Err], vec![Err, Err, Err]];
    // simplest first
    for polls in [0usize, 1, 2] {
        for outs in &outs2 {
            for drops in [true, false] {
                cfgs.push(Cfg { drops, outs: outs.clone(), polls, pre: false, infallible: false });
            }
        }
    }
    for drops in [true, false] {
        cfgs.push(Cfg { drops, outs: vec![Ok, Err], polls: 1, pre: true, infallible: false });
        cfgs.push(Cfg { drops, outs: vec![Ok, Ok], polls: 1, pre: false, infallible: true });
    }
    let _ = thorough; // same configs in both tiers; the tiers differ in the preemption bound
    let polls3: &[usize] = &[0, 1, 2];
    for &polls in polls3 {
        for outs in &outs3 {
            for drops in [true, false] {
                cfgs.push(Cfg { drops, outs: outs.clone(), polls, pre: false, infallible: false });
            }
        }
    }
    std::iter::once(Config::new(PROBE.into(), Bound::Unbounded, probe))
        .chain(cfgs.into_iter().map(|c| {
            let name = c.name();
            let drops = c.drops;
            Config::new(name, Bound::Tier, move || if drops { body::<SeedD>(&c) } else { body::<SeedP>(&c) })
        }))
        .collect()
}

pub const SUB: crate::driver::Sub = crate::driver::Sub {
    name: "c17_cell_loom",
    property: "C17",
    configs,
    rule: "configs = seed type {with Drop, without Drop} x outcome vector over {Ok,Err} for 2-3 concurrent get_or_try_init/get_or_init callers x 0-2 polls of get by a further thread (+ with_value cells); every initialiser self-checks the seed and yields inside the closure; for each config loom enumerates every interleaving of the OnceCell's atomics/mutex/condvar within the preemption bound; drop ledger checked at quiescence and after dropping the cell. distinct = distinct (who ran, what each caller/poll saw) observations",
    bound: "2-3 initialiser threads + optional poller thread (<=2 polls); same configs in both tiers",
};
