//! Stand-in for `crate::SharedString` in the bins whose kernel only *names* the type (the id of an
//! entry, the `id` parameter of `Compound::load`).  The real SharedBytes/SharedString kernel is
//! compiled into `kernmc_bytes` only, so that a problem in bytes.rs / string.rs cannot take the
//! entry, cell and answers kernels down with it.  No loom operation, no tracked allocation.
use std::{fmt, ops::Deref, sync::Arc};

#[derive(Clone, PartialEq, Eq, PartialOrd, Ord, Hash)]
pub struct SharedString(Arc<str>);
impl From<&str> for SharedString {
    fn from(s: &str) -> Self {
        SharedString(Arc::from(s))
    }
}
impl From<String> for SharedString {
    fn from(s: String) -> Self {
        SharedString(Arc::from(s))
    }
}
impl Deref for SharedString {
    type Target = str;
    fn deref(&self) -> &str {
        &self.0
    }
}
impl AsRef<str> for SharedString {
    fn as_ref(&self) -> &str {
        &self.0
    }
}
impl fmt::Debug for SharedString {
    fn fmt(&self, f: &mut fmt::Formatter<'_>) -> fmt::Result {
        fmt::Debug::fmt(&**self, f)
    }
}
impl fmt::Display for SharedString {
    fn fmt(&self, f: &mut fmt::Formatter<'_>) -> fmt::Result {
        fmt::Display::fmt(&**self, f)
    }
}
