//! C07 (instruction-level part) — readers are isolated from reloads.
//!
//! A dynamic entry (`CacheEntry::new(value, id, || true)`, `HOT_RELOADED = true`) holds a two-word
//! self-checking value.  1-2 writer threads call `inner().write(new entry)`; 1-2 reader threads take
//! a guard (typed `Handle::read`, untyped `UntypedHandle::read` + downcast, or a guard mapped to the
//! second word with `AssetReadGuard::map`), copy the value and the reload id, yield, and look again
//! before releasing the guard.  Further reader modes go through the accessors that take the guard
//! themselves: `copied()`, `cloned()`, `read().clone()`, `Debug` formatting (two calls, yield between).
//!
//! The entry's value cell is a `TrackedCell` (see tracked.rs / build.rs): every access to the value is
//! a read or write event for loom's happens-before check, so an access that bypasses the lock ends the
//! execution with loom's "Causality violation" (class `data-race`) even though the scheduler never
//! interleaves the memcpy itself.
//!
//! Oracles (tags): the value does not change under a guard `value-changed-under-guard`; nor does
//! `last_reload_id` `id-changed-under-guard`; both words of every observed value agree `torn`; the value
//! is the initial one or one that was written `unknown-value`; under a guard the reload id equals the
//! number of completed writes, i.e. with one writer it is the version of the value and with several
//! it is 0 exactly for the initial value `id-value-mismatch`; after the joins the value is a last
//! write and the id is the number of writes `final-value` / `final-id`; short reads: `id-behind-value`,
//! `value-went-back`; any unsynchronised access to the value: `data-race` (loom).
use crate::asset::Storable;
use crate::entry::probe::{raw, rid};
use crate::entry::{AssetReadGuard, CacheEntry, Handle, ReloadId, UntypedHandle};
use crate::support::*;
use std::sync::Arc;

#[derive(Clone, Copy, PartialEq, Eq, Debug, Hash)]
pub struct Pair {
    pub v: usize,
    pub chk: usize,
}
impl Pair {
    pub fn of(v: usize) -> Pair {
        Pair { v, chk: !v }
    }
    pub fn consistent(&self) -> bool {
        self.chk == !self.v
    }
}
impl Storable for Pair {
    const HOT_RELOADED: bool = true;
}

#[derive(Clone, Copy, PartialEq, Eq, PartialOrd, Ord, Hash, Debug)]
pub enum Reader {
    /// `Handle::read`
    Typed,
    /// `UntypedHandle::read` then `downcast`
    Untyped,
    /// `AssetReadGuard::map` to the second word, held across the yield
    Mapped,
    /// a typed guard, released, then a mapped one
    TypedThenMapped,
    /// `Handle::copied()` twice with a yield in between (no guard visible to the caller)
    Copied,
    /// `Handle::cloned()` twice
    Cloned,
    /// `Handle::read().clone()` twice
    ReadClone,
    /// `format!("{:?}", handle)` twice (the Debug impl reads the value)
    Debug,
}
impl Reader {
    fn tag(self) -> &'static str {
        match self {
            Reader::Typed => "typed",
            Reader::Untyped => "untyped",
            Reader::Mapped => "mapped",
            Reader::TypedThenMapped => "typed+mapped",
            Reader::Copied => "copied",
            Reader::Cloned => "cloned",
            Reader::ReadClone => "read-clone",
            Reader::Debug => "debug",
        }
    }
}

pub fn new_entry(v: usize) -> CacheEntry {
    CacheEntry::new(Pair::of(v), "k".into(), || true)
}
/// value written by writer `w` (0-based) as its `k`-th write (0-based)
fn written(nwriters: usize, w: usize, k: usize) -> usize {
    if nwriters == 1 {
        k + 1
    } else {
        100 * (w + 1) + k + 1
    }
}

struct World {
    writers: Vec<usize>, // writes per writer
}
impl World {
    fn allowed(&self, v: usize) -> bool {
        v == 0 || (0..self.writers.len()).any(|w| (0..self.writers[w]).any(|k| written(self.writers.len(), w, k) == v))
    }
    fn total(&self) -> usize {
        self.writers.iter().sum()
    }
    fn check_obs(&self, who: &str, v: Pair, id: usize) {
        if !v.consistent() {
            fail!("torn", "{who}: words {:#x}/{:#x} do not belong to one value", v.v, v.chk);
        }
        if !self.allowed(v.v) {
            fail!("unknown-value", "{who}: value {} was never stored", v.v);
        }
        if id > self.total() {
            fail!("id-value-mismatch", "{who}: reload id {id} exceeds the {} writes", self.total());
        }
        if self.writers.len() == 1 {
            if v.v != id {
                fail!("id-value-mismatch", "{who}: under a guard: value of write #{} but reload id {id}", v.v);
            }
        } else if (v.v == 0) != (id == 0) {
            fail!("id-value-mismatch", "{who}: under a guard: value {} with reload id {id}", v.v);
        }
    }
}

fn typed_look(w: &World, who: &str, h: &Handle<Pair>) -> (usize, usize) {
    op();
    let g = h.read();
    let a = *g;
    let id1 = raw(h.last_reload_id());
    w.check_obs(who, a, id1);
    loom::thread::yield_now();
    let b = *g;
    let id2 = raw(h.last_reload_id());
    if a != b {
        fail!("value-changed-under-guard", "{who}: {a:?} then {b:?} through the same guard");
    }
    if id1 != id2 {
        fail!("id-changed-under-guard", "{who}: last_reload_id {id1} then {id2} while a guard is held");
    }
    drop(g);
    (a.v, id1)
}
fn untyped_look(w: &World, who: &str, u: &UntypedHandle) -> (usize, usize) {
    op();
    let g = match u.read().downcast::<Pair>() {
        Ok(g) => g,
        Err(_) => fail!("harness", "downcast failed"),
    };
    let a = *g;
    let id1 = raw(u.last_reload_id());
    w.check_obs(who, a, id1);
    loom::thread::yield_now();
    let b = *g;
    let id2 = raw(u.last_reload_id());
    if a != b {
        fail!("value-changed-under-guard", "{who}: {a:?} then {b:?} through the same (downcast) guard");
    }
    if id1 != id2 {
        fail!("id-changed-under-guard", "{who}: last_reload_id {id1} then {id2} while a guard is held");
    }
    drop(g);
    (a.v, id1)
}
fn mapped_look(w: &World, who: &str, h: &Handle<Pair>) -> (usize, usize) {
    op();
    let g = h.read();
    let first = g.v;
    let m: AssetReadGuard<'_, usize> = AssetReadGuard::map(g, |p| &p.chk);
    let x = *m;
    let id1 = raw(h.last_reload_id());
    w.check_obs(who, Pair { v: first, chk: x }, id1);
    loom::thread::yield_now();
    let y = *m;
    let id2 = raw(h.last_reload_id());
    if x != y {
        fail!("value-changed-under-guard", "{who}: mapped guard shows {x:#x} then {y:#x}");
    }
    if id1 != id2 {
        fail!("id-changed-under-guard", "{who}: last_reload_id {id1} then {id2} while a mapped guard is held");
    }
    drop(m);
    (first, id1)
}
/// Short reads through the accessors that take (and release) the guard themselves: two calls with
/// a yield in between.  No guard is held by the caller, so the value may change between the calls;
/// each value must be complete and known, values never go back in time, and a reload id read after
/// a value is at least the value's version (one writer: versions are ids).
fn short_looks(w: &World, who: &str, h: &Handle<Pair>, kind: Reader) -> Vec<(usize, usize)> {
    let get = |h: &Handle<Pair>| -> Pair {
        op();
        match kind {
            Reader::Copied => h.copied(),
            Reader::Cloned => h.cloned(),
            Reader::ReadClone => h.read().clone(),
            _ => {
                // Handle { id: "k", value: Pair { v: 1, chk: 18446744073709551614 } }
                let s = format!("{h:?}");
                let num = |key: &str| -> usize {
                    let i = s.find(key).unwrap_or_else(|| fail!("harness", "Debug text {s:?} has no {key}")) + key.len();
                    s[i..].chars().take_while(|c| c.is_ascii_digit()).collect::<String>().parse().unwrap_or_else(|_| fail!("harness", "Debug text {s:?}"))
                };
                Pair { v: num("v: "), chk: num("chk: ") }
            }
        }
    };
    let mut seen = vec![];
    for i in 0..2 {
        let a = get(h);
        let id = raw(h.last_reload_id());
        if !a.consistent() {
            fail!("torn", "{who}: words {:#x}/{:#x} do not belong to one value", a.v, a.chk);
        }
        if !w.allowed(a.v) {
            fail!("unknown-value", "{who}: value {} was never stored", a.v);
        }
        if id > w.total() || (w.writers.len() == 1 && id < a.v) || (a.v != 0 && id == 0) {
            fail!("id-behind-value", "{who}: value of write {} but the reload id read afterwards is {id}", a.v);
        }
        seen.push((a.v, id));
        if i == 0 {
            loom::thread::yield_now();
        }
    }
    if w.writers.len() == 1 && seen[1].0 < seen[0].0 {
        fail!("value-went-back", "{who}: version {} then version {}", seen[0].0, seen[1].0);
    }
    seen
}

fn body(writers: &[usize], readers: &[Reader]) {
    let world = Arc::new(World { writers: writers.to_vec() });
    let e = Arc::new(new_entry(0));
    {
        let h = e.inner().downcast_ref::<Pair>().unwrap();
        if h.last_reload_id() != ReloadId::NEVER {
            fail!("initial-id", "fresh entry has reload id {:?}", h.last_reload_id());
        }
    }
    let mut ws = vec![];
    for (w, &n) in writers.iter().enumerate() {
        let e = e.clone();
        let nw = writers.len();
        ws.push(loom::thread::spawn(move || {
            for k in 0..n {
                op();
                e.inner().write(new_entry(written(nw, w, k)));
            }
        }));
    }
    let mut rs = vec![];
    for (r, &kind) in readers.iter().enumerate() {
        let e = e.clone();
        let world = world.clone();
        rs.push(loom::thread::spawn(move || {
            let who = format!("reader {r} ({})", kind.tag());
            let u = e.inner();
            let h = u.downcast_ref::<Pair>().unwrap();
            let mut seen = vec![];
            match kind {
                Reader::Typed => seen.push(typed_look(&world, &who, h)),
                Reader::Untyped => seen.push(untyped_look(&world, &who, u)),
                Reader::Mapped => seen.push(mapped_look(&world, &who, h)),
                Reader::TypedThenMapped => {
                    seen.push(typed_look(&world, &who, h));
                    seen.push(mapped_look(&world, &who, h));
                }
                Reader::Copied | Reader::Cloned | Reader::ReadClone | Reader::Debug => seen.extend(short_looks(&world, &who, h, kind)),
            }
            // successive looks of one thread never go back in time
            for p in seen.windows(2) {
                if p[1].1 < p[0].1 {
                    fail!("id-went-back", "{who}: reload id {} then {}", p[0].1, p[1].1);
                }
            }
            seen
        }));
    }
    for w in ws {
        w.join().unwrap();
    }
    let seen: Vec<Vec<(usize, usize)>> = rs.into_iter().map(|r| r.join().unwrap()).collect();
    let h = e.inner().downcast_ref::<Pair>().unwrap();
    op();
    let fin = *h.read();
    let id = raw(h.last_reload_id());
    if !fin.consistent() {
        fail!("torn", "final value words {:#x}/{:#x}", fin.v, fin.chk);
    }
    let last_writes: Vec<usize> = (0..writers.len()).filter(|&w| writers[w] > 0).map(|w| written(writers.len(), w, writers[w] - 1)).collect();
    if !last_writes.contains(&fin.v) {
        fail!("final-value", "after all writes the value is {}, last writes were {last_writes:?}", fin.v);
    }
    if id != world.total() {
        fail!("final-id", "after {} writes the reload id is {id}", world.total());
    }
    if h.copied() != fin || h.cloned() != fin {
        fail!("final-value", "copied()/cloned() differ from read()");
    }
    outcome(&(seen, fin.v, id));
}

/// One thread: the entry's lock, reload counter and reload flag are loom objects.
pub fn probe() {
    must_branch("entry read / last_reload_id / reloaded_global / watcher / write / copied", || {
        let e = new_entry(0);
        let h = e.inner().downcast_ref::<Pair>().unwrap();
        drop(h.read());
        h.last_reload_id();
        h.reloaded_global();
        let mut w = h.reload_watcher();
        w.reloaded();
        e.inner().write(new_entry(1));
        h.copied();
    });
    outcome(&PROBE);
}

pub fn configs(thorough: bool) -> Vec<Config> {
    use Reader::*;
    let mut v = vec![Config::new(PROBE.into(), Bound::Unbounded, probe)];
    let mut add = |writers: Vec<usize>, readers: Vec<Reader>| {
        let name = format!("w{}:{}", writers.iter().map(|n| n.to_string()).collect::<Vec<_>>().join("+"), readers.iter().map(|r| r.tag()).collect::<Vec<_>>().join("|"));
        // one writer thread + one reader thread: small enough to explore without preemption bound
        let bound = if writers.len() + readers.len() <= 2 && writers.iter().sum::<usize>() <= 2 { Bound::Unbounded } else { Bound::Tier };
        v.push(Config::new(name, bound, move || body(&writers, &readers)));
    };
    // simplest first: one writer x one write, one reader of each kind
    for r in [Typed, Untyped, Mapped, TypedThenMapped] {
        add(vec![1], vec![r]);
    }
    for r in [Typed, Mapped, TypedThenMapped] {
        add(vec![2], vec![r]);
    }
    for r in [Typed, Mapped, Untyped] {
        add(vec![1, 1], vec![r]);
    }
    // the accessors that lock internally
    for r in [Copied, Cloned, ReadClone, Debug] {
        add(vec![1], vec![r]);
    }
    for r in [Copied, Cloned, ReadClone, Debug] {
        add(vec![2], vec![r]);
    }
    for r in [Copied, Cloned, ReadClone] {
        add(vec![1, 1], vec![r]);
    }
    add(vec![1], vec![Typed, Copied]);
    add(vec![2], vec![Copied, Cloned]);
    add(vec![1], vec![Typed, Mapped]);
    add(vec![2], vec![Typed, Mapped]);
    add(vec![1, 1], vec![Typed, Mapped]);
    let _ = thorough; // same configs in both tiers; the tiers differ in the preemption bound
    {
        add(vec![1, 1], vec![TypedThenMapped]);
        add(vec![1], vec![Untyped, TypedThenMapped]);
        add(vec![2, 1], vec![Typed]);
        add(vec![2, 1], vec![Mapped, Typed]);
        add(vec![3], vec![TypedThenMapped]);
    }
    v
}

pub const SUB: crate::driver::Sub = crate::driver::Sub {
    name: "c07_entry_loom",
    property: "C07",
    configs,
    rule: "configs = writers {1x1, 1x2, 1x3, 1+1, 2+1 writes} x readers {typed guard, untyped+downcast guard, mapped guard, typed then mapped, copied(), cloned(), read().clone(), Debug; 1-2 reader threads}; each reader copies value and reload id under its guard (or through the accessor), yields, and looks again; every access to the entry's value is a loom-tracked read/write event (TrackedCell), so an access that is not ordered by the lock is a `data-race`; for each config loom enumerates every interleaving of the entry's RwLock and atomic operations within the preemption bound. distinct = distinct (what each reader saw, final value, final id) observations",
    bound: "1-2 writer threads, 1-2 reader threads, <=3 writes; same configs in both tiers; one writer + one reader with <=2 writes: unbounded",
};
