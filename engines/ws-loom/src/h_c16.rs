//! C16 (schedule part) — `SharedBytes` / `SharedString` shared across threads.
//!
//! One buffer is built on the main thread (every constructor shape), each of 2-3 threads starts
//! with one clone and runs a program of <= 3 operations on its stack of clones:
//!   c = clone the top            d = drop the top
//!   s = clone the top and put the clone into the next thread's mailbox ("send a clone")
//!   v = empty the own mailbox: check and drop everything received so far
//! while the main thread drops the original concurrently.  Contents, aliasing (same payload
//! pointer) and liveness of the single block are checked around every operation on every handle
//! held; what is left is dropped at thread exit, leftover mail is dropped by main after the joins.
//! Oracles: contents equal the source at every deref `[[content]]`, clones alias `[[alias]]`, the block
//! is live while a handle exists `[[use-after-free]]`, freed once `[[double-free]]` with the layout it
//! was allocated with `[[dealloc-layout]]`, and freed at all (loom: "Leaked" -> `leak`).
use crate::lalloc;
use crate::support::*;
use crate::{SharedBytes, SharedString};
use loom::sync::Mutex;
use std::sync::Arc;

#[derive(Clone, Copy, PartialEq, Eq, PartialOrd, Ord, Hash, Debug)]
pub enum Ctor {
    /// from_slice(b"abc")
    Slice3,
    /// from_slice(b"")
    Slice0,
    /// from_vec, capacity == len
    VecExact,
    /// from_vec, len 2, capacity 8
    VecExcess,
    /// from_vec(Vec::new()): capacity 0 (takes the "inline" release path)
    VecEmpty,
    /// SharedString::from(&str) with multi-byte characters
    Str,
    /// SharedString::from(String)
    StrOwned,
}
impl Ctor {
    fn tag(self) -> &'static str {
        match self {
            Ctor::Slice3 => "slice3",
            Ctor::Slice0 => "slice0",
            Ctor::VecExact => "vec-exact",
            Ctor::VecExcess => "vec-excess",
            Ctor::VecEmpty => "vec-empty",
            Ctor::Str => "str",
            Ctor::StrOwned => "string",
        }
    }
    fn expected(self) -> &'static [u8] {
        match self {
            Ctor::Slice3 | Ctor::VecExact => b"abc",
            Ctor::Slice0 | Ctor::VecEmpty => b"",
            Ctor::VecExcess => b"xy",
            Ctor::Str | Ctor::StrOwned => "h\u{e9}\u{20ac}".as_bytes(),
        }
    }
    fn build(self) -> Buf {
        op();
        match self {
            Ctor::Slice3 | Ctor::Slice0 => Buf::B(SharedBytes::from_slice(self.expected())),
            Ctor::VecExact => {
                let mut v = self.expected().to_vec();
                v.shrink_to_fit();
                Buf::B(SharedBytes::from_vec(v))
            }
            Ctor::VecExcess => {
                let mut v = Vec::with_capacity(8);
                v.extend_from_slice(self.expected());
                Buf::B(SharedBytes::from_vec(v))
            }
            Ctor::VecEmpty => Buf::B(SharedBytes::from_vec(Vec::new())),
            Ctor::Str => Buf::S(SharedString::from("h\u{e9}\u{20ac}")),
            Ctor::StrOwned => Buf::S(SharedString::from(String::from("h\u{e9}\u{20ac}"))),
        }
    }
}

pub enum Buf {
    B(SharedBytes),
    S(SharedString),
}
impl Buf {
    fn dup(&self) -> Buf {
        op();
        match self {
            Buf::B(b) => Buf::B(b.clone()),
            Buf::S(s) => Buf::S(s.clone()),
        }
    }
    /// deref and compare; `base` = payload address seen by the constructor thread
    fn check(&self, ctor: Ctor, base: usize, whom: &str) {
        op();
        if lalloc::live_blocks() != 1 {
            fail!("use-after-free", "{whom}: holds a handle but {} blocks are live (1 expected)", lalloc::live_blocks());
        }
        let (ptr, ok) = match self {
            Buf::B(b) => {
                let s: &[u8] = b;
                (s.as_ptr() as usize, s == ctor.expected() && b.len() == ctor.expected().len())
            }
            Buf::S(s) => {
                let t: &str = s;
                (t.as_ptr() as usize, t.as_bytes() == ctor.expected() && std::str::from_utf8(t.as_bytes()).is_ok())
            }
        };
        if !ok {
            fail!("content", "{whom}: contents differ from the source {:?}", ctor.expected());
        }
        if ptr != base {
            fail!("alias", "{whom}: clone points at {ptr:#x}, original at {base:#x}");
        }
    }
}

#[derive(Clone, Copy, PartialEq, Eq, PartialOrd, Ord, Hash, Debug)]
pub enum BOp {
    C,
    D,
    S,
    V,
}
fn prog_name(p: &[BOp]) -> String {
    if p.is_empty() {
        return "-".into();
    }
    p.iter()
        .map(|o| match o {
            BOp::C => 'c',
            BOp::D => 'd',
            BOp::S => 's',
            BOp::V => 'v',
        })
        .collect()
}

/// programs of length <= max_len in which every operation has something to act on
fn valid_programs(max_len: usize) -> Vec<Vec<BOp>> {
    let mut out = vec![];
    for p in sequences(&[BOp::C, BOp::D, BOp::S, BOp::V], 0..=max_len) {
        let mut depth = 1i32;
        let mut ok = true;
        for o in &p {
            match o {
                BOp::C => {
                    if depth == 0 {
                        ok = false
                    }
                    depth += 1
                }
                BOp::D => {
                    if depth == 0 {
                        ok = false
                    }
                    depth -= 1
                }
                BOp::S => {
                    if depth == 0 {
                        ok = false
                    }
                }
                BOp::V => {}
            }
            if !ok {
                break;
            }
        }
        if ok {
            out.push(p);
        }
    }
    out
}

fn body(ctor: Ctor, progs: Arc<Vec<Vec<BOp>>>) {
    let n = progs.len();
    let orig = ctor.build();
    let base = match &orig {
        Buf::B(b) => b.as_ptr() as usize,
        Buf::S(s) => s.as_ptr() as usize,
    };
    orig.check(ctor, base, "main/original");
    let boxes: Arc<Vec<Mutex<Vec<Buf>>>> = Arc::new((0..n).map(|_| Mutex::new(Vec::new())).collect());
    let mut hs = vec![];
    for t in 0..n {
        let mine = orig.dup();
        let progs = progs.clone();
        let boxes = boxes.clone();
        hs.push(loom::thread::spawn(move || {
            let who = format!("thread {t}");
            let mut stack = vec![mine];
            let mut received = 0usize;
            for o in &progs[t] {
                if let Some(top) = stack.last() {
                    top.check(ctor, base, &who);
                }
                match o {
                    BOp::C => {
                        let c = stack.last().unwrap().dup();
                        stack.push(c);
                    }
                    BOp::D => {
                        op();
                        drop(stack.pop().unwrap());
                    }
                    BOp::S => {
                        let c = stack.last().unwrap().dup();
                        boxes[(t + 1) % n].lock().unwrap().push(c);
                    }
                    BOp::V => {
                        let got = std::mem::take(&mut *boxes[t].lock().unwrap());
                        for b in got {
                            received += 1;
                            b.check(ctor, base, &who);
                            op();
                            drop(b);
                        }
                    }
                }
                if let Some(top) = stack.last() {
                    top.check(ctor, base, &who);
                }
            }
            while let Some(b) = stack.pop() {
                b.check(ctor, base, &who);
                op();
                drop(b);
            }
            received
        }));
    }
    // the original goes away while the threads run
    op();
    drop(orig);
    let received: Vec<usize> = hs.into_iter().map(|h| h.join().unwrap()).collect();
    let mut leftover = 0;
    for t in 0..n {
        let got = std::mem::take(&mut *boxes[t].lock().unwrap());
        for b in got {
            leftover += 1;
            b.check(ctor, base, "main/leftover mail");
            op();
            drop(b);
        }
    }
    if lalloc::live_blocks() != 0 {
        // not fatal here: loom reports the leak at the end of the execution ("Leaked")
    }
    let (allocs, frees) = lalloc::counters();
    outcome(&(received, leftover, allocs, frees));
}

fn family(out: &mut Vec<Config>, ctor: Ctor, nthreads: usize, max_len: usize) {
    let progs = valid_programs(max_len);
    // all assignments of a program to each ring position, up to rotation of the ring (the only
    // symmetry: thread t sends to thread t+1)
    let mut set = std::collections::BTreeSet::new();
    let mut idx = vec![0usize; nthreads];
    'outer: loop {
        let ps: Vec<Vec<BOp>> = idx.iter().map(|&i| progs[i].clone()).collect();
        let canon = (0..nthreads).map(|r| { let mut q = ps.clone(); q.rotate_left(r); q }).min().unwrap();
        set.insert(canon);
        let mut k = nthreads;
        loop {
            if k == 0 {
                break 'outer;
            }
            k -= 1;
            idx[k] += 1;
            if idx[k] < progs.len() {
                break;
            }
            idx[k] = 0;
        }
    }
    let mut all: Vec<Vec<Vec<BOp>>> = set.into_iter().collect();
    // `v` is only meaningful if the previous thread in the ring sends; drop the others (they equal a
    // shorter program).  Canonical order: total length first (simplest first).
    all.retain(|ps| (0..nthreads).all(|t| !ps[t].contains(&BOp::V) || ps[(t + nthreads - 1) % nthreads].contains(&BOp::S)));
    all.sort_by_key(|ps| (ps.iter().map(|p| p.len()).sum::<usize>(), ps.clone()));
    for ps in all {
        let name = format!("{}:t{nthreads}:{}", ctor.tag(), ps.iter().map(|p| prog_name(p)).collect::<Vec<_>>().join("|"));
        let ps = Arc::new(ps);
        out.push(Config::new(name, Bound::Tier, move || body(ctor, ps.clone())));
    }
}

/// Every constructor shape, one thread: the allocation is tracked, clone and drop are loom operations.
fn probe() {
    for ctor in [Ctor::Slice3, Ctor::VecExcess, Ctor::Str] {
        let a0 = lalloc::counters().0;
        must_branch("SharedBytes build / clone / drop / drop", || {
            let b = ctor.build();
            if lalloc::counters().0 == a0 {
                fail!("un-instrumented", "{}: building the buffer did not go through the tracked allocator", ctor.tag());
            }
            let base = match &b {
                Buf::B(x) => x.as_ptr() as usize,
                Buf::S(x) => x.as_ptr() as usize,
            };
            let c = b.dup();
            c.check(ctor, base, "probe/clone");
            drop(c);
            b.check(ctor, base, "probe/original");
            drop(b);
        });
    }
    outcome(&PROBE);
}

pub fn configs(thorough: bool) -> Vec<Config> {
    let mut v = vec![Config::new(PROBE.into(), Bound::Unbounded, probe)];
    let all = [Ctor::Slice3, Ctor::Slice0, Ctor::VecExact, Ctor::VecExcess, Ctor::VecEmpty, Ctor::Str, Ctor::StrOwned];
    if !thorough {
        for c in all {
            family(&mut v, c, 2, 2);
        }
        for c in [Ctor::Slice3, Ctor::VecExcess] {
            family(&mut v, c, 2, 3);
        }
        for c in [Ctor::Slice3, Ctor::VecExcess, Ctor::Str] {
            family(&mut v, c, 3, 1);
        }
        family(&mut v, Ctor::VecExcess, 3, 2);
    } else {
        for c in all {
            family(&mut v, c, 2, 3);
        }
        for c in [Ctor::Slice3, Ctor::VecExcess, Ctor::Str] {
            family(&mut v, c, 3, 2);
        }
    }
    // a family of length <= 3 contains the family of length <= 2 of the same constructor: dedupe by name
    let mut seen = std::collections::HashSet::new();
    v.retain(|c| seen.insert(c.name.clone()));
    v
}

pub const SUB: crate::driver::Sub = crate::driver::Sub {
    name: "c16_bytes_loom",
    property: "C16",
    configs,
    rule: "configs = constructor shape {from_slice len 3/0, from_vec exact/excess/zero capacity, SharedString from &str/String} x every valid program of <=L operations {clone, drop, send-a-clone, receive-and-drop} per thread (ring of 2-3 threads, up to rotation), main drops the original concurrently; contents/aliasing/liveness checked around every operation; for each config loom enumerates every interleaving of the refcount atomics and mailbox locks within the preemption bound; alloc/dealloc are loom-tracked. distinct = distinct (mail received, leftover, allocs, frees) observations",
    bound: "quick: 2 threads x <=2 ops (all 7 constructors), 2 threads x <=3 ops (2 constructors), 3 threads x <=1 op (3 constructors), 3 threads x <=2 ops (from_vec with excess capacity); thorough: 2 threads x <=3 ops (all 7 constructors), 3 threads x <=2 ops (3 constructors)",
};
