//! Target of the rewrite of `EntryStorage.value: UnsafeCell<T>` (entry.rs) and of
//! `OnceInitCell.data: UnsafeCell<State<U, T>>` (cell.rs): the same std
//! `UnsafeCell<T>` plus a zero-sized `loom::cell::UnsafeCell<()>` marker that makes every access to
//! the value an (instantaneous) read or write event for loom's happens-before check.  A read that is
//! not ordered after the last write, or a write that is not ordered after every earlier read / write,
//! ends the execution with loom's "Causality violation: Concurrent … accesses" (class `data-race`).
//! Neither event is a scheduling point.  build.rs classifies the accesses syntactically (rules at
//! `Rw::visit_expr_mut`): `&mut <place through *x.f.get()>`, `let p: *mut _ = x.f.get()` and unclassified
//! forms inside a once-cell initialiser closure -> `get_w()`, everything else -> `get_r()`;
//! `new`, `into_inner`, `get_mut(&mut self)` are exclusive-ownership operations and stay untracked.
//! The marker comes first and `value` last so that `EntryStorage<T>` still unsizes to
//! `EntryStorage<dyn Any + Send + Sync>`; the value's bytes are what `swap_any` swaps, the marker
//! stays with the entry.
pub struct TrackedCell<T: ?Sized> {
    marker: loom::cell::UnsafeCell<()>,
    value: std::cell::UnsafeCell<T>,
}

unsafe impl<T: ?Sized + Send> Send for TrackedCell<T> {}

impl<T> TrackedCell<T> {
    #[track_caller]
    pub fn new(value: T) -> Self {
        TrackedCell { marker: loom::cell::UnsafeCell::new(()), value: std::cell::UnsafeCell::new(value) }
    }
    pub fn into_inner(self) -> T {
        self.value.into_inner()
    }
}
impl<T: ?Sized> TrackedCell<T> {
    /// shared access (classified by build.rs)
    #[track_caller]
    pub fn get_r(&self) -> *mut T {
        self.marker.with(|_| ());
        self.value.get()
    }
    /// exclusive access through a shared reference (`&mut *x.value.get()`, classified by build.rs)
    #[track_caller]
    pub fn get_w(&self) -> *mut T {
        self.marker.with_mut(|_| ());
        self.value.get()
    }
    pub fn get_mut(&mut self) -> &mut T {
        self.value.get_mut()
    }
}
