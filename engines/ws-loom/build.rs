//! Kernel instrumenter of E3 `kernmc` (DESIGN.md §2.3).
//!
//! Reads the real source text of the lock-free kernels from the assets_manager checkout named by
//! the `assets_manager = { path = ".." }` dependency of this crate's Cargo.toml (normally /repo;
//! `KERNMC_REPO` overrides it), rewrites it with `syn`, and writes the result to `OUT_DIR`, where
//! `src/main.rs` `include!`s it next to minimal stubs.
//!
//! Rewrites (nothing else is touched; the token stream is otherwise the file's own):
//!  * paths rooted at `std::sync` / `core::sync`      -> `loom::sync`
//!  * paths rooted at `std::thread`                   -> `loom::thread`
//!  * `std::alloc::{alloc,dealloc}` (also through `use std::alloc; alloc::alloc(..)`)
//!                                                     -> `crate::lalloc::{alloc,dealloc}` (loom-tracked
//!                                                        allocations + ledger + quarantine, see main.rs)
//!  * `once_cell::…`                                  -> `crate::once_cell_loom::…` (loom-based OnceCell)
//!  * `const fn`                                      -> `fn`   (loom constructors are not const)
//!  * inner attributes (`//!` docs) of the file        -> removed (not allowed in an `include!`)
//!  * `#[cfg(..)]`/`#[cfg_attr(..)]`: `feature = "hot-reloading"`/`"utils"` evaluate to true
//!    (`all()`), every other `feature = ".."` and `docsrs` to false (`any()`); rustc then prunes.
//!
//! The build FAILS if a file no longer contains the paths it is supposed to redirect, or if a
//! path that must not survive (`std::sync`, `core::sync`, `std::thread`, `once_cell::`,
//! un-redirected `alloc::alloc(`/`alloc::dealloc(`) is still present after rewriting: a silently
//! un-instrumented kernel cannot pass as verified.
use proc_macro2::{Group, TokenStream, TokenTree};
use quote::ToTokens;
use std::{collections::BTreeMap, env, fs, path::PathBuf};
use syn::visit_mut::{self, VisitMut};

const ENABLED_FEATURES: &[&str] = &["hot-reloading", "utils"];

#[derive(Default)]
struct Rw {
    /// redirect category -> number of rewritten paths
    hits: BTreeMap<&'static str, usize>,
    /// `use std::alloc;` (module import) seen: `alloc::alloc(..)` then means `std::alloc::alloc`
    alloc_module_imported: bool,
    consts_stripped: usize,
    cfgs_rewritten: usize,
}

fn v(xs: &[&str]) -> Vec<String> {
    xs.iter().map(|s| s.to_string()).collect()
}

impl Rw {
    /// New root for a path prefix that must be redirected, with its category.
    fn redirect(&self, segs: &[String]) -> Option<(Vec<String>, &'static str)> {
        let s: Vec<&str> = segs.iter().map(|s| s.as_str()).collect();
        match s.as_slice() {
            ["std" | "core", "sync", rest @ ..] => {
                let mut n = v(&["loom", "sync"]);
                n.extend(rest.iter().map(|x| x.to_string()));
                Some((n, "sync"))
            }
            ["std", "thread", rest @ ..] => {
                let mut n = v(&["loom", "thread"]);
                n.extend(rest.iter().map(|x| x.to_string()));
                Some((n, "thread"))
            }
            ["std" | "alloc", "alloc", f @ ("alloc" | "dealloc")] => Some((v(&["crate", "lalloc", f]), if *f == "alloc" { "alloc" } else { "dealloc" })),
            ["alloc", f @ ("alloc" | "dealloc")] if self.alloc_module_imported => Some((v(&["crate", "lalloc", f]), if *f == "alloc" { "alloc" } else { "dealloc" })),
            ["once_cell", rest @ ..] => {
                let mut n = v(&["crate", "once_cell_loom"]);
                n.extend(rest.iter().map(|x| x.to_string()));
                Some((n, "once_cell"))
            }
            _ => None,
        }
    }
    fn hit(&mut self, cat: &'static str) {
        *self.hits.entry(cat).or_default() += 1;
    }
}

enum Leaf {
    Name(Vec<String>, Option<String>),
    Glob(Vec<String>),
}
fn flatten(prefix: &mut Vec<String>, t: &syn::UseTree, out: &mut Vec<Leaf>) {
    match t {
        syn::UseTree::Path(p) => {
            prefix.push(p.ident.to_string());
            flatten(prefix, &p.tree, out);
            prefix.pop();
        }
        syn::UseTree::Name(n) => {
            let mut v = prefix.clone();
            let id = n.ident.to_string();
            if id != "self" {
                v.push(id);
            }
            out.push(Leaf::Name(v, None));
        }
        syn::UseTree::Rename(r) => {
            let mut v = prefix.clone();
            let id = r.ident.to_string();
            if id != "self" {
                v.push(id);
            }
            out.push(Leaf::Name(v, Some(r.rename.to_string())));
        }
        syn::UseTree::Glob(_) => out.push(Leaf::Glob(prefix.clone())),
        syn::UseTree::Group(g) => {
            for i in &g.items {
                flatten(prefix, i, out);
            }
        }
    }
}

/// Evaluate the feature predicates inside a `cfg`/`cfg_attr` token stream.
fn rewrite_cfg_tokens(ts: TokenStream, n: &mut usize) -> TokenStream {
    let toks: Vec<TokenTree> = ts.into_iter().collect();
    let mut out: Vec<TokenTree> = Vec::new();
    let mut i = 0;
    let lit = |truth: bool| -> TokenStream { if truth { "all()" } else { "any()" }.parse().unwrap() };
    while i < toks.len() {
        match &toks[i] {
            TokenTree::Ident(id) if id == "feature" && i + 2 < toks.len() && matches!(&toks[i + 1], TokenTree::Punct(p) if p.as_char() == '=') => {
                let name = toks[i + 2].to_string();
                let name = name.trim_matches('"');
                out.extend(lit(ENABLED_FEATURES.contains(&name)));
                *n += 1;
                i += 3;
            }
            TokenTree::Ident(id) if id == "docsrs" => {
                out.extend(lit(false));
                *n += 1;
                i += 1;
            }
            TokenTree::Group(g) => {
                let mut ng = Group::new(g.delimiter(), rewrite_cfg_tokens(g.stream(), n));
                ng.set_span(g.span());
                out.push(TokenTree::Group(ng));
                i += 1;
            }
            t => {
                out.push(t.clone());
                i += 1;
            }
        }
    }
    out.into_iter().collect()
}

impl VisitMut for Rw {
    fn visit_signature_mut(&mut self, s: &mut syn::Signature) {
        if s.constness.take().is_some() {
            self.consts_stripped += 1;
        }
        visit_mut::visit_signature_mut(self, s);
    }
    fn visit_attribute_mut(&mut self, a: &mut syn::Attribute) {
        if a.path().is_ident("cfg") || a.path().is_ident("cfg_attr") {
            if let syn::Meta::List(l) = &mut a.meta {
                l.tokens = rewrite_cfg_tokens(std::mem::take(&mut l.tokens), &mut self.cfgs_rewritten);
            }
        }
        visit_mut::visit_attribute_mut(self, a);
    }
    fn visit_path_mut(&mut self, p: &mut syn::Path) {
        let segs: Vec<String> = p.segments.iter().map(|s| s.ident.to_string()).collect();
        for n in (2..=segs.len()).rev() {
            if let Some((new, cat)) = self.redirect(&segs[..n]) {
                let tail: Vec<syn::PathSegment> = p.segments.iter().skip(n).cloned().collect();
                let last_args = p.segments.iter().nth(n - 1).unwrap().arguments.clone();
                let mut np: syn::Path = syn::parse_str(&new.join("::")).unwrap();
                np.segments.last_mut().unwrap().arguments = last_args;
                for t in tail {
                    np.segments.push(t);
                }
                *p = np;
                self.hit(cat);
                break;
            }
        }
        visit_mut::visit_path_mut(self, p);
    }
}

fn rewrite(src: &str, name: &str) -> (String, Rw) {
    let mut file: syn::File = syn::parse_file(src).unwrap_or_else(|e| panic!("{name}: cannot parse: {e}"));
    file.attrs.clear();
    let mut rw = Rw::default();
    // 1. `use` items: flatten every tree into single-path imports and redirect each leaf
    let mut items = Vec::new();
    for it in file.items.drain(..) {
        if let syn::Item::Use(u) = &it {
            let mut leaves = Vec::new();
            flatten(&mut Vec::new(), &u.tree, &mut leaves);
            let attrs = &u.attrs;
            let vis = &u.vis;
            for l in leaves {
                let (segs, rename, glob) = match l {
                    Leaf::Name(s, r) => (s, r, false),
                    Leaf::Glob(s) => (s, None, true),
                };
                if segs == v(&["std", "alloc"]) && !glob {
                    rw.alloc_module_imported = true;
                }
                let newsegs = match rw.redirect(&segs) {
                    Some((n, cat)) => {
                        rw.hit(cat);
                        n
                    }
                    None => segs,
                };
                let mut s = newsegs.join("::");
                if glob {
                    s.push_str("::*");
                }
                if let Some(r) = rename {
                    s.push_str(&format!(" as {r}"));
                }
                let tree: syn::UseTree = syn::parse_str(&s).unwrap();
                let nu: syn::ItemUse = syn::parse_quote!( #(#attrs)* #vis use #tree; );
                items.push(syn::Item::Use(nu));
            }
        } else {
            items.push(it);
        }
    }
    file.items = items;
    // 2. every other path, `const fn`, cfg attributes
    rw.visit_file_mut(&mut file);
    (file.into_token_stream().to_string(), rw)
}

fn repo_root(manifest_dir: &str) -> String {
    println!("cargo:rerun-if-env-changed=KERNMC_REPO");
    if let Ok(p) = env::var("KERNMC_REPO") {
        return p;
    }
    let manifest = format!("{manifest_dir}/Cargo.toml");
    println!("cargo:rerun-if-changed={manifest}");
    let txt = fs::read_to_string(&manifest).expect("read own Cargo.toml");
    for line in txt.lines() {
        let l = line.trim();
        if l.starts_with("assets_manager") && l.contains("path") {
            let after = &l[l.find("path").unwrap()..];
            let q1 = after.find('"').expect("path = \"..\"");
            let q2 = after[q1 + 1..].find('"').expect("closing quote");
            let p = &after[q1 + 1..q1 + 1 + q2];
            let pb = PathBuf::from(p);
            let abs = if pb.is_absolute() { pb } else { PathBuf::from(manifest_dir).join(pb) };
            return abs.to_string_lossy().into_owned();
        }
    }
    panic!("Cargo.toml has no `assets_manager = {{ path = .. }}` dependency to take the kernels from");
}

fn main() {
    let out = PathBuf::from(env::var("OUT_DIR").unwrap());
    let root = repo_root(&env::var("CARGO_MANIFEST_DIR").unwrap());
    println!("cargo:rerun-if-changed=build.rs");
    // (name, relative path, required redirect categories with their minimal counts)
    let files: &[(&str, &str, &[(&str, usize)])] = &[
        ("bytes", "src/utils/bytes.rs", &[("sync", 1), ("alloc", 2), ("dealloc", 1)]),
        ("string", "src/utils/string.rs", &[]),
        ("cell", "src/utils/cell.rs", &[("once_cell", 1)]),
        ("entry", "src/entry.rs", &[("sync", 1)]),
    ];
    let mut summary = String::new();
    for (name, rel, required) in files {
        let path = format!("{root}/{rel}");
        println!("cargo:rerun-if-changed={path}");
        let src = fs::read_to_string(&path).unwrap_or_else(|e| panic!("kernmc build: cannot read kernel {path}: {e}"));
        let (txt, rw) = rewrite(&src, name);
        for (cat, min) in *required {
            let got = rw.hits.get(cat).copied().unwrap_or(0);
            if got < *min {
                eprintln!("kernmc build: {path}: expected >= {min} `{cat}` path(s) to redirect to loom, found {got}: the kernel would run un-instrumented");
                std::process::exit(2);
            }
        }
        // nothing that must be intercepted may survive
        let flat: String = txt.split_whitespace().collect::<Vec<_>>().join("");
        for bad in ["std::sync", "core::sync", "std::thread", "core::thread", "once_cell::", "parking_lot", "std::alloc::alloc(", "std::alloc::dealloc(", "std::alloc::realloc", "std::alloc::alloc_zeroed", "alloc::realloc(", "alloc::alloc_zeroed("] {
            if flat.contains(bad) {
                eprintln!("kernmc build: {path}: `{bad}` survives the rewrite (un-instrumented operation)");
                std::process::exit(2);
            }
        }
        for bad in ["alloc::alloc(", "alloc::dealloc("] {
            let n_all = flat.matches(bad).count();
            let n_ok = flat.matches(&format!("lalloc::{}", &bad[7..])).count();
            if n_all != n_ok {
                eprintln!("kernmc build: {path}: {} call(s) of `{bad}` not redirected", n_all - n_ok);
                std::process::exit(2);
            }
        }
        if *name == "string" && !flat.contains("SharedBytes") {
            eprintln!("kernmc build: {path}: SharedString is no longer built on SharedBytes: its allocations would be un-instrumented");
            std::process::exit(2);
        }
        if *name == "entry" && !src.contains("feature = \"hot-reloading\"") {
            eprintln!("kernmc build: {path}: no `hot-reloading` cfg found; harness assumptions broken");
            std::process::exit(2);
        }
        summary.push_str(&format!("{name}: redirects {:?}, const fn stripped {}, cfg predicates evaluated {}\n", rw.hits, rw.consts_stripped, rw.cfgs_rewritten));
        fs::write(out.join(format!("{name}.rs")), txt).unwrap();
    }
    fs::write(out.join("instrumentation.txt"), &summary).unwrap();
    println!("cargo:rustc-env=KERNMC_REPO_ROOT={root}");
    println!("cargo:rustc-env=KERNMC_INSTRUMENTATION={}", summary.replace('\n', " | "));
}
