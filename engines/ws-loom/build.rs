//! Kernel instrumenter of E3 `kernmc` (DESIGN.md §2.3).
//!
//! Reads the real source text of the lock-free kernels from the assets_manager checkout named by
//! the `assets_manager = { path = ".." }` dependency of this crate's Cargo.toml (normally /repo;
//! `KERNMC_REPO` overrides it), rewrites it with `syn`, and writes the result to `OUT_DIR`, where
//! `src/main.rs` `include!`s it next to minimal stubs.
//!
//! Rewrites (nothing else is touched; the token stream is otherwise the file's own):
//!  * paths rooted at `std::sync` / `core::sync`      -> `loom::sync`
//!  * paths rooted at `std::thread`                   -> `loom::thread`
//!  * `std::alloc::{alloc,dealloc}` (also through `use std::alloc; alloc::alloc(..)`)
//!                                                     -> `crate::lalloc::{alloc,dealloc}` (loom-tracked
//!                                                        allocations + ledger + quarantine, see main.rs)
//!  * `once_cell::…`                                  -> `crate::once_cell_loom::…` (loom-based OnceCell)
//!  * entry.rs `EntryStorage.value`, cell.rs `OnceInitCell.data`: `UnsafeCell<T>` ->
//!    `crate::tracked::TrackedCell<T>` (std cell + loom access marker); every `<e>.<field>.get()` is
//!    classified as write (`get_w()`) or read (`get_r()`), rules at `Rw::visit_expr_mut`
//!  * `const fn`                                      -> `fn`   (loom constructors are not const)
//!  * inner attributes (`//!` docs) of the file        -> removed (not allowed in an `include!`)
//!  * `#[cfg(..)]`/`#[cfg_attr(..)]`: `feature = "hot-reloading"`/`"utils"` evaluate to true
//!    (`all()`), every other `feature = ".."` and `docsrs` to false (`any()`); rustc then prunes.
//!
//!  * a lower-case name that the file's own `use` items bind to a std module (`use std::alloc;`,
//!    `use std::sync::atomic::{self, ..}`) is expanded first, so `alloc::alloc(..)`, `atomic::fence(..)`
//!    are redirected like their fully spelled forms
//!  * `std::sync::atomic::compiler_fence` -> `crate::kshim::compiler_fence` (loom has none; it has no
//!    inter-thread meaning); `std::process::abort`, `NonNull`, `Layout::*`, `handle_alloc_error` stay std
//!
//! FAILURE ISOLATION.  The package has one bin target per kernel family (see Cargo.toml).  This
//! script never fails for a problem in one kernel's source: if a kernel cannot be read, parsed,
//! rewritten, or fails a guard, its generated file(s) become a single
//! `compile_error!("kernmc: <kernel>: <reason>")` (plus a `cargo:warning`), so only the bin that
//! includes that kernel stops building and says why; the other bins are unaffected.
//!
//! GUARDS exist to keep an un-instrumented (vacuous) kernel from passing as verified.  They are
//! semantic, not counts of today's call sites: (a) after rewriting, no path that resolves to
//! `std::sync`/`core::sync` (atomics, Mutex, RwLock, Condvar, Arc, ...), `std::thread`, the global
//! allocator entry points, `once_cell`, `parking_lot` or `crossbeam` may remain in the kernel text
//! (also inside macro arguments, where the rewriter cannot reach); (b) a kernel that needs a
//! redirection at all must have had at least one of that kind; (c) structural needs of a harness
//! (the `value` field of `EntryStorage`, the methods of `Answers`).  At run time every sub-check
//! additionally starts with an `instrumentation-probe` config that measures that each kernel
//! operation really produces loom scheduling points / tracked allocations (see src/probe notes in
//! README) — that is the actual condition for "instrumented", whatever the spelling.
use proc_macro2::{Group, TokenStream, TokenTree};
use quote::ToTokens;
use std::{collections::BTreeMap, env, fs, path::PathBuf};
use syn::visit_mut::{self, VisitMut};

const ENABLED_FEATURES: &[&str] = &["hot-reloading", "utils"];

#[derive(Default)]
struct Rw {
    /// where `std::sync` goes: `loom::sync`, or (private.rs) `crate::loom_sync` = loom::sync + std's PoisonError
    sync_root: Vec<String>,
    /// redirect category -> number of rewritten paths
    hits: BTreeMap<&'static str, usize>,
    /// lower-case names bound by the file's `use` items to std/core/alloc paths (module imports such
    /// as `use std::alloc;`, `use std::sync::atomic::{self}`), name -> original path
    aliases: BTreeMap<String, Vec<String>>,
    consts_stripped: usize,
    cfgs_rewritten: usize,
    /// (struct, field): the field `UnsafeCell<..>` of that struct becomes `crate::tracked::TrackedCell<..>`
    /// (entry.rs: `EntryStorage.value`, cell.rs: `OnceInitCell.data`); its initialisers
    /// `<field>: UnsafeCell::new(..)` become `TrackedCell::new(..)`; every `<e>.<field>.get()` is
    /// classified as a write (`get_w`) or a read (`get_r`) access, see `visit_expr_mut`.
    track: Option<(&'static str, &'static str)>,
    /// > 0 while visiting a closure passed to a method of a `.once` receiver (exclusive section)
    in_once_closure: usize,
}

fn v(xs: &[&str]) -> Vec<String> {
    xs.iter().map(|s| s.to_string()).collect()
}

impl Rw {
    /// New root for a path prefix that must be redirected, with its category.
    fn redirect(&self, segs: &[String]) -> Option<(Vec<String>, &'static str)> {
        let s: Vec<&str> = segs.iter().map(|s| s.as_str()).collect();
        match s.as_slice() {
            ["std" | "core", "sync", "atomic", "compiler_fence"] => Some((v(&["crate", "kshim", "compiler_fence"]), "sync")),
            // plain data types that loom shares with std (its locks return std's LockResult)
            ["std", "sync", x @ ("PoisonError" | "TryLockError" | "TryLockResult" | "LockResult"), rest @ ..] => {
                let mut n = v(&["crate", "kshim", x]);
                n.extend(rest.iter().map(|x| x.to_string()));
                Some((n, "sync-types"))
            }
            ["std" | "core", "sync", rest @ ..] => {
                let mut n = if self.sync_root.is_empty() { v(&["loom", "sync"]) } else { self.sync_root.clone() };
                n.extend(rest.iter().map(|x| x.to_string()));
                Some((n, "sync"))
            }
            ["std" | "core", "thread", rest @ ..] => {
                let mut n = v(&["loom", "thread"]);
                n.extend(rest.iter().map(|x| x.to_string()));
                Some((n, "thread"))
            }
            ["std" | "alloc", "alloc", f @ ("alloc" | "dealloc" | "alloc_zeroed" | "realloc")] => Some((v(&["crate", "lalloc", f]), if *f == "dealloc" { "dealloc" } else { "alloc" })),
            ["once_cell", rest @ ..] => {
                let mut n = v(&["crate", "once_cell_loom"]);
                n.extend(rest.iter().map(|x| x.to_string()));
                Some((n, "once_cell"))
            }
            _ => None,
        }
    }
    fn hit(&mut self, cat: &'static str) {
        *self.hits.entry(cat).or_default() += 1;
    }
}

enum Leaf {
    Name(Vec<String>, Option<String>),
    Glob(Vec<String>),
}
fn flatten(prefix: &mut Vec<String>, t: &syn::UseTree, out: &mut Vec<Leaf>) {
    match t {
        syn::UseTree::Path(p) => {
            prefix.push(p.ident.to_string());
            flatten(prefix, &p.tree, out);
            prefix.pop();
        }
        syn::UseTree::Name(n) => {
            let mut v = prefix.clone();
            let id = n.ident.to_string();
            if id != "self" {
                v.push(id);
            }
            out.push(Leaf::Name(v, None));
        }
        syn::UseTree::Rename(r) => {
            let mut v = prefix.clone();
            let id = r.ident.to_string();
            if id != "self" {
                v.push(id);
            }
            out.push(Leaf::Name(v, Some(r.rename.to_string())));
        }
        syn::UseTree::Glob(_) => out.push(Leaf::Glob(prefix.clone())),
        syn::UseTree::Group(g) => {
            for i in &g.items {
                flatten(prefix, i, out);
            }
        }
    }
}

/// Evaluate the feature predicates inside a `cfg`/`cfg_attr` token stream.
fn rewrite_cfg_tokens(ts: TokenStream, n: &mut usize) -> TokenStream {
    let toks: Vec<TokenTree> = ts.into_iter().collect();
    let mut out: Vec<TokenTree> = Vec::new();
    let mut i = 0;
    let lit = |truth: bool| -> TokenStream { if truth { "all()" } else { "any()" }.parse().unwrap() };
    while i < toks.len() {
        match &toks[i] {
            TokenTree::Ident(id) if id == "feature" && i + 2 < toks.len() && matches!(&toks[i + 1], TokenTree::Punct(p) if p.as_char() == '=') => {
                let name = toks[i + 2].to_string();
                let name = name.trim_matches('"');
                out.extend(lit(ENABLED_FEATURES.contains(&name)));
                *n += 1;
                i += 3;
            }
            TokenTree::Ident(id) if id == "docsrs" => {
                out.extend(lit(false));
                *n += 1;
                i += 1;
            }
            TokenTree::Group(g) => {
                let mut ng = Group::new(g.delimiter(), rewrite_cfg_tokens(g.stream(), n));
                ng.set_span(g.span());
                out.push(TokenTree::Group(ng));
                i += 1;
            }
            t => {
                out.push(t.clone());
                i += 1;
            }
        }
    }
    out.into_iter().collect()
}

/// `<e>.<field>.get()` (no arguments, receiver is a field access named `field`)
fn is_field_get(e: &syn::Expr, field: &str) -> bool {
    if let syn::Expr::MethodCall(m) = e {
        if m.method == "get" && m.args.is_empty() && m.turbofish.is_none() {
            if let syn::Expr::Field(f) = &*m.receiver {
                return matches!(&f.member, syn::Member::Named(n) if n == field);
            }
        }
    }
    false
}
/// `*<get>`, `(*<get>).a.b`, with parentheses anywhere: the `<get>` call if the place expression is
/// reached by dereferencing `<e>.<field>.get()`
fn place_through_get<'a>(e: &'a mut syn::Expr, field: &str) -> Option<&'a mut syn::Expr> {
    match unparen(e) {
        syn::Expr::Field(f) => place_through_get(&mut f.base, field),
        syn::Expr::Unary(u) if matches!(u.op, syn::UnOp::Deref(_)) => {
            let inner = unparen(&mut u.expr);
            if is_field_get(inner, field) {
                Some(inner)
            } else {
                None
            }
        }
        _ => None,
    }
}
fn unparen(e: &mut syn::Expr) -> &mut syn::Expr {
    match e {
        syn::Expr::Paren(p) => unparen(&mut p.expr),
        syn::Expr::Group(g) => unparen(&mut g.expr),
        other => other,
    }
}
fn rename_method(e: &mut syn::Expr, to: &str) {
    if let syn::Expr::MethodCall(m) = e {
        m.method = syn::Ident::new(to, m.method.span());
    }
}

impl VisitMut for Rw {
    fn visit_item_struct_mut(&mut self, st: &mut syn::ItemStruct) {
        if self.track.map_or(false, |(sname, _)| st.ident == sname) {
            let field = self.track.unwrap().1;
            for f in st.fields.iter_mut() {
                if f.ident.as_ref().map_or(false, |i| i == field) {
                    if let syn::Type::Path(tp) = &mut f.ty {
                        if tp.path.segments.last().map_or(false, |s| s.ident == "UnsafeCell") {
                            let args = tp.path.segments.last().unwrap().arguments.clone();
                            let mut np: syn::Path = syn::parse_str("crate::tracked::TrackedCell").unwrap();
                            np.segments.last_mut().unwrap().arguments = args;
                            tp.path = np;
                            self.hit("tracked-field");
                        }
                    }
                }
            }
        }
        visit_mut::visit_item_struct_mut(self, st);
    }
    fn visit_field_value_mut(&mut self, fv: &mut syn::FieldValue) {
        if self.track.map_or(false, |(_, field)| matches!(&fv.member, syn::Member::Named(n) if n == field)) {
            if let syn::Expr::Call(c) = &mut fv.expr {
                if let syn::Expr::Path(p) = &mut *c.func {
                    let segs: Vec<String> = p.path.segments.iter().map(|s| s.ident.to_string()).collect();
                    if segs.len() >= 2 && segs[segs.len() - 2] == "UnsafeCell" && segs[segs.len() - 1] == "new" {
                        p.path = syn::parse_str("crate::tracked::TrackedCell::new").unwrap();
                        self.hit("tracked-new");
                    }
                }
            }
        }
        visit_mut::visit_field_value_mut(self, fv);
    }
    /// Classification of `<e>.<field>.get()` (the raw pointer into the tracked cell):
    ///  * `&mut <place through *get>` (`&mut *x.f.get()`, `&mut (*x.f.get()).a`)      -> write
    ///  * `&<place through *get>`     (`&*x.f.get()`, `&(*x.f.get()).a`)              -> read
    ///  * `let p: *mut _ = x.f.get();`                                                 -> write
    ///  * any other form (pointer kept in an untyped local, passed on, ...): a write if it is
    ///    lexically inside a closure handed to a method of a `.once` receiver (the exclusive
    ///    section of a once-cell), else a read.
    fn visit_expr_mut(&mut self, e: &mut syn::Expr) {
        if let Some((_, field)) = self.track {
            if let syn::Expr::Reference(r) = e {
                let mutable = r.mutability.is_some();
                if let Some(get) = place_through_get(&mut r.expr, field) {
                    rename_method(get, if mutable { "get_w" } else { "get_r" });
                    self.hit(if mutable { "tracked-write" } else { "tracked-read" });
                }
            }
            if is_field_get(e, field) {
                let w = self.in_once_closure > 0;
                rename_method(e, if w { "get_w" } else { "get_r" });
                self.hit(if w { "tracked-write" } else { "tracked-read" });
            }
        }
        visit_mut::visit_expr_mut(self, e);
    }
    fn visit_local_mut(&mut self, l: &mut syn::Local) {
        if let Some((_, field)) = self.track {
            if let (syn::Pat::Type(pt), Some(init)) = (&l.pat, l.init.as_mut()) {
                if matches!(&*pt.ty, syn::Type::Ptr(p) if p.mutability.is_some()) {
                    let e = unparen(&mut init.expr);
                    if is_field_get(e, field) {
                        rename_method(e, "get_w");
                        self.hit("tracked-write");
                    }
                }
            }
        }
        visit_mut::visit_local_mut(self, l);
    }
    fn visit_expr_method_call_mut(&mut self, m: &mut syn::ExprMethodCall) {
        let on_once = matches!(&*m.receiver, syn::Expr::Field(f) if matches!(&f.member, syn::Member::Named(n) if n == "once"));
        for a in &mut m.attrs {
            self.visit_attribute_mut(a);
        }
        self.visit_expr_mut(&mut m.receiver);
        for arg in m.args.iter_mut() {
            let excl = on_once && matches!(arg, syn::Expr::Closure(_));
            if excl {
                self.in_once_closure += 1;
            }
            self.visit_expr_mut(arg);
            if excl {
                self.in_once_closure -= 1;
            }
        }
    }
    fn visit_signature_mut(&mut self, s: &mut syn::Signature) {
        if s.constness.take().is_some() {
            self.consts_stripped += 1;
        }
        visit_mut::visit_signature_mut(self, s);
    }
    fn visit_attribute_mut(&mut self, a: &mut syn::Attribute) {
        if a.path().is_ident("cfg") || a.path().is_ident("cfg_attr") {
            if let syn::Meta::List(l) = &mut a.meta {
                l.tokens = rewrite_cfg_tokens(std::mem::take(&mut l.tokens), &mut self.cfgs_rewritten);
            }
        }
        visit_mut::visit_attribute_mut(self, a);
    }
    fn visit_path_mut(&mut self, p: &mut syn::Path) {
        let mut segs: Vec<String> = p.segments.iter().map(|s| s.ident.to_string()).collect();
        // `alloc::alloc(..)` after `use std::alloc;`, `atomic::fence(..)` after `use std::sync::atomic;`
        let mut skip = 0usize; // how many leading virtual segments stand for the first real one
        if segs.len() >= 2 && p.leading_colon.is_none() {
            if let Some(full) = self.aliases.get(&segs[0]) {
                skip = full.len() - 1;
                let mut virt = full.clone();
                virt.extend(segs[1..].iter().cloned());
                segs = virt;
            }
        }
        for n in (2.max(skip + 2)..=segs.len()).rev() {
            if let Some((new, cat)) = self.redirect(&segs[..n]) {
                // real segments covered by the match: n - skip
                let covered = n - skip;
                let tail: Vec<syn::PathSegment> = p.segments.iter().skip(covered).cloned().collect();
                let last_args = p.segments.iter().nth(covered - 1).unwrap().arguments.clone();
                let mut np: syn::Path = syn::parse_str(&new.join("::")).unwrap();
                np.segments.last_mut().unwrap().arguments = last_args;
                for t in tail {
                    np.segments.push(t);
                }
                *p = np;
                self.hit(cat);
                break;
            }
        }
        visit_mut::visit_path_mut(self, p);
    }
}

fn rewrite(src: &str, name: &str) -> (String, Rw) {
    let file: syn::File = syn::parse_file(src).unwrap_or_else(|e| die(format!("{name}: cannot parse: {e}")));
    let track = match name {
        "entry" => Some(("EntryStorage", "value")),
        "cell" => Some(("OnceInitCell", "data")),
        _ => None,
    };
    rewrite_file(file, Rw { track, ..Rw::default() })
}

fn rewrite_file(mut file: syn::File, mut rw: Rw) -> (String, Rw) {
    file.attrs.clear();
    // 1. `use` items: flatten every tree into single-path imports and redirect each leaf
    let mut items = Vec::new();
    for it in file.items.drain(..) {
        if let syn::Item::Use(u) = &it {
            let mut leaves = Vec::new();
            flatten(&mut Vec::new(), &u.tree, &mut leaves);
            let attrs = &u.attrs;
            let vis = &u.vis;
            for l in leaves {
                let (segs, rename, glob) = match l {
                    Leaf::Name(s, r) => (s, r, false),
                    Leaf::Glob(s) => (s, None, true),
                };
                // a lower-case name bound to a std path is a module (or a function, which is harmless)
                if !glob && matches!(segs.first().map(|s| s.as_str()), Some("std" | "core" | "alloc")) && segs.len() >= 2 {
                    let bind = rename.clone().or(segs.last().cloned()).unwrap_or_default();
                    if bind.chars().next().map_or(false, |c| c.is_lowercase()) && rw.aliases.get(&bind).map_or(true, |old| old.len() > segs.len()) {
                        rw.aliases.insert(bind, segs.clone()); // on a clash (`{self, alloc}`) the module wins
                    }
                }
                let mut rename = rename;
                let newsegs = match rw.redirect(&segs) {
                    Some((n, cat)) => {
                        rw.hit(cat);
                        // `use std::sync;` must keep binding the name `sync`
                        if !glob && rename.is_none() && n.last() != segs.last() {
                            rename = segs.last().cloned();
                        }
                        n
                    }
                    None => segs,
                };
                let mut s = newsegs.join("::");
                if glob {
                    s.push_str("::*");
                }
                if let Some(r) = rename {
                    s.push_str(&format!(" as {r}"));
                }
                let tree: syn::UseTree = syn::parse_str(&s).unwrap();
                let nu: syn::ItemUse = syn::parse_quote!( #(#attrs)* #vis use #tree; );
                items.push(syn::Item::Use(nu));
            }
        } else {
            items.push(it);
        }
    }
    file.items = items;
    // 2. every other path, `const fn`, cfg attributes
    rw.visit_file_mut(&mut file);
    (file.into_token_stream().to_string(), rw)
}

fn repo_root(manifest_dir: &str) -> String {
    println!("cargo:rerun-if-env-changed=KERNMC_REPO");
    if let Ok(p) = env::var("KERNMC_REPO") {
        return p;
    }
    let manifest = format!("{manifest_dir}/Cargo.toml");
    println!("cargo:rerun-if-changed={manifest}");
    let txt = fs::read_to_string(&manifest).expect("read own Cargo.toml");
    for line in txt.lines() {
        let l = line.trim();
        if l.starts_with("assets_manager") && l.contains("path") {
            let after = &l[l.find("path").unwrap()..];
            let q1 = after.find('"').expect("path = \"..\"");
            let q2 = after[q1 + 1..].find('"').expect("closing quote");
            let p = &after[q1 + 1..q1 + 1 + q2];
            let pb = PathBuf::from(p);
            let abs = if pb.is_absolute() { pb } else { PathBuf::from(manifest_dir).join(pb) };
            return abs.to_string_lossy().into_owned();
        }
    }
    panic!("Cargo.toml has no `assets_manager = {{ path = .. }}` dependency to take the kernels from");
}


// -------------------------------------------------------------------------------------------
// Extraction of named items (C08: `Answers` hand-shake + the std-flavoured lock wrappers)
// -------------------------------------------------------------------------------------------
/// A kernel cannot be generated: unwinds to `generate`, which turns it into `compile_error!`.
fn die(msg: String) -> ! {
    std::panic::panic_any(msg)
}

fn self_ty_name(i: &syn::ItemImpl) -> Option<String> {
    if i.trait_.is_some() {
        return None;
    }
    match &*i.self_ty {
        syn::Type::Path(p) => p.path.segments.last().map(|s| s.ident.to_string()),
        _ => None,
    }
}

fn collect_idents(ts: TokenStream, out: &mut std::collections::BTreeSet<String>) {
    for t in ts {
        match t {
            TokenTree::Ident(i) => {
                out.insert(i.to_string());
            }
            TokenTree::Group(g) => collect_idents(g.stream(), out),
            _ => {}
        }
    }
}

/// After the cfg predicates were evaluated to `all()` / `any()`: drop what is configured out and
/// the attribute of what is configured in (items and block statements), so that e.g. the
/// parking_lot branch of `wait_while` is not part of the compiled text at all.
struct Prune {
    removed: usize,
}
fn cfg_verdict(attrs: &[syn::Attribute]) -> Option<bool> {
    for a in attrs {
        if a.path().is_ident("cfg") {
            if let syn::Meta::List(l) = &a.meta {
                let t: String = l.tokens.to_string().split_whitespace().collect();
                match t.as_str() {
                    "any()" | "not(all())" => return Some(false),
                    "all()" | "not(any())" => return Some(true),
                    _ => {}
                }
            }
        }
    }
    None
}
fn strip_decided(attrs: &mut Vec<syn::Attribute>) {
    attrs.retain(|a| cfg_verdict(std::slice::from_ref(a)).is_none());
}
fn item_attrs(i: &mut syn::Item) -> Option<&mut Vec<syn::Attribute>> {
    Some(match i {
        syn::Item::Use(x) => &mut x.attrs,
        syn::Item::Fn(x) => &mut x.attrs,
        syn::Item::Struct(x) => &mut x.attrs,
        syn::Item::Impl(x) => &mut x.attrs,
        _ => return None,
    })
}
fn expr_attrs(e: &mut syn::Expr) -> Option<&mut Vec<syn::Attribute>> {
    Some(match e {
        syn::Expr::Block(x) => &mut x.attrs,
        syn::Expr::If(x) => &mut x.attrs,
        syn::Expr::While(x) => &mut x.attrs,
        syn::Expr::Call(x) => &mut x.attrs,
        syn::Expr::MethodCall(x) => &mut x.attrs,
        _ => return None,
    })
}
impl VisitMut for Prune {
    fn visit_file_mut(&mut self, f: &mut syn::File) {
        let before = f.items.len();
        f.items.retain_mut(|i| item_attrs(i).map_or(true, |a| cfg_verdict(a) != Some(false)));
        self.removed += before - f.items.len();
        for i in &mut f.items {
            if let Some(a) = item_attrs(i) {
                strip_decided(a);
            }
        }
        visit_mut::visit_file_mut(self, f);
    }
    fn visit_block_mut(&mut self, b: &mut syn::Block) {
        let before = b.stmts.len();
        b.stmts.retain_mut(|st| match st {
            syn::Stmt::Expr(e, _) => expr_attrs(e).map_or(true, |a| cfg_verdict(a) != Some(false)),
            syn::Stmt::Local(l) => cfg_verdict(&l.attrs) != Some(false),
            _ => true,
        });
        self.removed += before - b.stmts.len();
        for st in &mut b.stmts {
            match st {
                syn::Stmt::Expr(e, _) => {
                    if let Some(a) = expr_attrs(e) {
                        strip_decided(a);
                    }
                }
                syn::Stmt::Local(l) => strip_decided(&mut l.attrs),
                _ => {}
            }
        }
        visit_mut::visit_block_mut(self, b);
    }
}

/// `struct Answers` + `impl Answers` of hot_reloading/mod.rs, with exactly those of the file's own
/// `use` leaves that bind a name the two items mention.
fn extract_answers(path: &str, src: &str) -> (String, Rw) {
    let file: syn::File = syn::parse_file(src).unwrap_or_else(|e| die(format!("{path}: cannot parse: {e}")));
    let mut picked: Vec<syn::Item> = vec![];
    let (mut n_struct, mut n_impl) = (0, 0);
    for it in &file.items {
        match it {
            syn::Item::Struct(s) if s.ident == "Answers" => {
                n_struct += 1;
                picked.push(it.clone());
            }
            syn::Item::Impl(i) if self_ty_name(i).as_deref() == Some("Answers") => {
                n_impl += 1;
                picked.push(it.clone());
            }
            _ => {}
        }
    }
    if n_struct != 1 || n_impl != 1 {
        die(format!("{path}: expected one `struct Answers` and one `impl Answers`, found {n_struct} / {n_impl}"));
    }
    let mut methods = vec![];
    for it in &picked {
        if let syn::Item::Impl(i) = it {
            for m in &i.items {
                if let syn::ImplItem::Fn(f) = m {
                    methods.push(f.sig.ident.to_string());
                }
            }
        }
    }
    for want in ["get_unique_token", "notify", "wait_for_answer"] {
        if !methods.iter().any(|m| m == want) {
            die(format!("{path}: `impl Answers` has no `fn {want}` (found {methods:?})"));
        }
    }
    let mut idents = std::collections::BTreeSet::new();
    for it in &picked {
        collect_idents(it.to_token_stream(), &mut idents);
    }
    // the file's own imports of the names used
    let mut uses: Vec<syn::Item> = vec![];
    let mut origin: BTreeMap<String, Vec<String>> = BTreeMap::new();
    for it in &file.items {
        if let syn::Item::Use(u) = it {
            if u.attrs.iter().any(|a| a.path().is_ident("cfg")) {
                continue; // `#[cfg(doc)] use …`
            }
            let mut leaves = vec![];
            flatten(&mut vec![], &u.tree, &mut leaves);
            for l in leaves {
                if let Leaf::Name(segs, rename) = l {
                    let bind = rename.clone().or(segs.last().cloned()).unwrap_or_default();
                    if idents.contains(&bind) {
                        let mut s = segs.join("::");
                        if let Some(r) = &rename {
                            s.push_str(&format!(" as {r}"));
                        }
                        let tree: syn::UseTree = syn::parse_str(&s).unwrap();
                        uses.push(syn::Item::Use(syn::parse_quote!( use #tree; )));
                        origin.insert(bind, segs);
                    }
                }
            }
        }
    }
    // Where the lock types come from is recorded, not prescribed: through `crate::utils` they are the
    // extracted std-flavoured wrappers, spelled `std::sync::..` they are redirected to loom directly;
    // both are instrumented.  (A name the extract uses but the file does not import is a compile
    // error of this kernel only.)
    let _ = &origin;
    uses.extend(picked);
    let f = syn::File { shebang: None, attrs: vec![], items: uses };
    rewrite_file(f, Rw::default())
}

/// `sync` alias, `wrap`, `Mutex`, `Condvar` (+ impls) of utils/private.rs, parking_lot OFF.
fn extract_std_locks(path: &str, src: &str) -> (String, Rw, usize) {
    let file: syn::File = syn::parse_file(src).unwrap_or_else(|e| die(format!("{path}: cannot parse: {e}")));
    let mut picked: Vec<syn::Item> = vec![];
    let mut count: BTreeMap<&'static str, usize> = BTreeMap::new();
    for it in &file.items {
        let key = match it {
            syn::Item::Use(u) => {
                let mut leaves = vec![];
                flatten(&mut vec![], &u.tree, &mut leaves);
                let binds_sync = leaves.iter().any(|l| matches!(l, Leaf::Name(segs, rename) if rename.as_deref().or(segs.last().map(|s| s.as_str())) == Some("sync")));
                if binds_sync && leaves.len() == 1 { Some("use sync") } else { None }
            }
            syn::Item::Fn(f) if f.sig.ident == "wrap" => Some("fn wrap"),
            syn::Item::Struct(s) if s.ident == "Mutex" => Some("struct Mutex"),
            syn::Item::Struct(s) if s.ident == "Condvar" => Some("struct Condvar"),
            syn::Item::Impl(i) if self_ty_name(i).as_deref() == Some("Mutex") => Some("impl Mutex"),
            syn::Item::Impl(i) if self_ty_name(i).as_deref() == Some("Condvar") => Some("impl Condvar"),
            _ => None,
        };
        if let Some(k) = key {
            *count.entry(k).or_default() += 1;
            picked.push(it.clone());
        }
    }
    for k in ["struct Mutex", "impl Mutex", "struct Condvar", "impl Condvar"] {
        if count.get(k).copied().unwrap_or(0) < 1 {
            die(format!("{path}: no item `{k}` to extract"));
        }
    }
    let mut methods = vec![];
    let mut wait_while_txt = String::new();
    for it in &picked {
        if let syn::Item::Impl(i) = it {
            for m in &i.items {
                if let syn::ImplItem::Fn(f) = m {
                    methods.push(format!("{}::{}", self_ty_name(i).unwrap_or_default(), f.sig.ident));
                    if f.sig.ident == "wait_while" {
                        wait_while_txt = f.to_token_stream().to_string().split_whitespace().collect();
                    }
                }
            }
        }
    }
    for want in ["Mutex::lock", "Condvar::notify_all", "Condvar::wait_while"] {
        if !methods.iter().any(|m| m == want) {
            die(format!("{path}: no `{want}` (found {methods:?})"));
        }
    }
    let _ = wait_while_txt;
    let f = syn::File { shebang: None, attrs: vec![], items: picked };
    // 1. redirect + evaluate cfgs (parking_lot is not an enabled feature -> false)
    let rw = Rw { sync_root: v(&["crate", "loom_sync"]), ..Rw::default() };
    let (txt, rw) = rewrite_file(f, rw);
    // 2. prune what is configured out
    let mut f2: syn::File = syn::parse_file(&txt).unwrap_or_else(|e| die(format!("{path}: rewritten text does not parse: {e}")));
    let mut pr = Prune { removed: 0 };
    pr.visit_file_mut(&mut f2);
    (f2.into_token_stream().to_string(), rw, pr.removed)
}

/// Semantic guard: nothing that must be intercepted may survive the rewrite.  Works on the token
/// text, so it also sees macro arguments (which the syn visitor cannot rewrite).
/// The token text without `#[doc = "…"]` attributes (documentation is not code: a doc comment that
/// mentions `once_cell::` or `std::sync` must not trip the guard below).
fn strip_doc_attrs(txt: &str) -> String {
    let b: Vec<char> = txt.chars().collect();
    let mut out = String::with_capacity(txt.len());
    let mut i = 0;
    while i < b.len() {
        if b[i] == '#' {
            // # [!] [ doc = "…" ]
            let mut j = i + 1;
            let skip_ws = |j: &mut usize| {
                while *j < b.len() && b[*j].is_whitespace() {
                    *j += 1;
                }
            };
            skip_ws(&mut j);
            if j < b.len() && b[j] == '!' {
                j += 1;
                skip_ws(&mut j);
            }
            if j < b.len() && b[j] == '[' {
                j += 1;
                skip_ws(&mut j);
                if b[j..].iter().take(3).collect::<String>() == "doc" {
                    j += 3;
                    skip_ws(&mut j);
                    if j < b.len() && b[j] == '=' {
                        j += 1;
                        skip_ws(&mut j);
                        if j < b.len() && b[j] == '"' {
                            j += 1;
                            while j < b.len() && b[j] != '"' {
                                if b[j] == '\\' {
                                    j += 1;
                                }
                                j += 1;
                            }
                            j += 1;
                            skip_ws(&mut j);
                            if j < b.len() && b[j] == ']' {
                                i = j + 1;
                                continue;
                            }
                        }
                    }
                }
            }
        }
        out.push(b[i]);
        i += 1;
    }
    out
}

fn check_survivors(path: &str, txt: &str) {
    let txt = &strip_doc_attrs(txt);
    let flat: String = txt.split_whitespace().collect::<Vec<_>>().join("");
    for bad in [
        "std::sync", "core::sync", "alloc::sync", "std::thread", "core::thread", "once_cell::", "parking_lot", "crossbeam", "spin::",
        "std::alloc::alloc(", "std::alloc::dealloc(", "std::alloc::realloc(", "std::alloc::alloc_zeroed(", "alloc::alloc::alloc(", "alloc::alloc::dealloc(",
        "GlobalAlloc", "std::alloc::System", "std::alloc::Global", "Box::from_raw_in", "Allocator",
    ] {
        if flat.contains(bad) {
            die(format!("{path}: `{bad}` survives the rewrite (un-instrumented operation)"));
        }
    }
    // every call spelled `<m>::alloc(` / `<m>::dealloc(` … must be one that was redirected
    for f in ["alloc(", "dealloc(", "alloc_zeroed(", "realloc("] {
        let n_all = flat.matches(&format!("alloc::{f}")).count();
        let n_ok = flat.matches(&format!("lalloc::{f}")).count();
        if n_all != n_ok {
            die(format!("{path}: {} call(s) of `alloc::{f}..)` not redirected to the tracked allocator", n_all - n_ok));
        }
    }
}

fn need(path: &str, rw: &Rw, cat: &str, what: &str) {
    if rw.hits.get(cat).copied().unwrap_or(0) < 1 {
        die(format!("{path}: found no {what} to redirect: the kernel would run un-instrumented (redirects seen: {:?})", rw.hits));
    }
}

fn read(path: &str) -> String {
    println!("cargo:rerun-if-changed={path}");
    fs::read_to_string(path).unwrap_or_else(|e| die(format!("cannot read kernel source {path}: {e}")))
}

fn whole_file(root: &str, name: &str, rel: &str, summary: &mut String) -> String {
    let path = format!("{root}/{rel}");
    let src = read(&path);
    let (txt, rw) = rewrite(&src, name);
    match name {
        "bytes" => {
            need(&path, &rw, "sync", "`std::sync::atomic` path");
            need(&path, &rw, "alloc", "call of the global allocator's `alloc`");
            need(&path, &rw, "dealloc", "call of the global allocator's `dealloc`");
        }
        "cell" => {
            // the once may be `once_cell`'s or be built from std atomics and locks: either is instrumented
            if rw.hits.get("once_cell").copied().unwrap_or(0) + rw.hits.get("sync").copied().unwrap_or(0) < 1 {
                need(&path, &rw, "once_cell", "`once_cell` or `std::sync` path");
            }
            need(&path, &rw, "tracked-field", "`data: UnsafeCell<..>` field in `struct OnceInitCell`");
            need(&path, &rw, "tracked-new", "`data: UnsafeCell::new(..)` initialiser");
            need(&path, &rw, "tracked-read", "shared access through `.data.get()`");
            need(&path, &rw, "tracked-write", "exclusive access through `.data.get()`");
        }
        "entry" => {
            need(&path, &rw, "sync", "`std::sync` path");
            need(&path, &rw, "tracked-field", "`value: UnsafeCell<T>` field in `struct EntryStorage`");
            need(&path, &rw, "tracked-new", "`value: UnsafeCell::new(..)` initialiser");
            need(&path, &rw, "tracked-read", "shared access `.value.get()`");
            need(&path, &rw, "tracked-write", "exclusive access `&mut *<e>.value.get()`");
            if !src.contains("feature = \"hot-reloading\"") {
                die(format!("{path}: no `hot-reloading` cfg found: `write`/`increment` would not exist"));
            }
        }
        "string" => {
            if !txt.contains("SharedBytes") {
                die(format!("{path}: SharedString is no longer built on SharedBytes: its allocations would be un-instrumented"));
            }
        }
        _ => {}
    }
    check_survivors(&path, &txt);
    summary.push_str(&format!("{name}: redirects {:?}, const fn stripped {}, cfg predicates evaluated {}\n", rw.hits, rw.consts_stripped, rw.cfgs_rewritten));
    txt
}

/// Run one kernel's generator; whatever goes wrong (guard, parse error, unreadable file, a bug in
/// this script) becomes the content of its generated files, never a failure of the build script.
fn generate(out: &PathBuf, kernel: &str, files: &[&str], summary: &mut String, f: impl FnOnce(&mut String) -> Vec<String>) {
    let mut local = String::new();
    let r = std::panic::catch_unwind(std::panic::AssertUnwindSafe(|| f(&mut local)));
    match r {
        Ok(txts) => {
            assert_eq!(txts.len(), files.len());
            for (file, txt) in files.iter().zip(txts) {
                fs::write(out.join(file), txt).unwrap();
            }
            summary.push_str(&local);
        }
        Err(e) => {
            let msg = e.downcast_ref::<String>().cloned().or_else(|| e.downcast_ref::<&str>().map(|s| s.to_string())).unwrap_or_else(|| "build script panicked".into());
            let msg = msg.replace('\n', " ");
            println!("cargo:warning=kernmc: kernel `{kernel}` NOT generated: {msg}");
            for file in files {
                fs::write(out.join(file), format!("compile_error!({:?});\n", format!("kernmc: kernel `{kernel}`: {msg}"))).unwrap();
            }
            summary.push_str(&format!("{kernel}: NOT GENERATED: {msg}\n"));
        }
    }
}

fn main() {
    let out = PathBuf::from(env::var("OUT_DIR").unwrap());
    let root = repo_root(&env::var("CARGO_MANIFEST_DIR").unwrap());
    println!("cargo:rerun-if-changed=build.rs");
    std::panic::set_hook(Box::new(|_| {})); // failures are reported through `generate`
    let mut summary = String::new();

    // family `bytes` (bin kernmc_bytes): SharedBytes + SharedString
    generate(&out, "bytes", &["bytes.rs", "string.rs"], &mut summary, |s| vec![whole_file(&root, "bytes", "src/utils/bytes.rs", s), whole_file(&root, "string", "src/utils/string.rs", s)]);
    // family `cell` (bin kernmc_cell)
    generate(&out, "cell", &["cell.rs"], &mut summary, |s| vec![whole_file(&root, "cell", "src/utils/cell.rs", s)]);
    // family `entry` (bin kernmc_entry)
    generate(&out, "entry", &["entry.rs"], &mut summary, |s| vec![whole_file(&root, "entry", "src/entry.rs", s)]);
    // family `answers` (bin kernmc_answers): Answers hand-shake on the std-flavoured lock wrappers
    generate(&out, "answers", &["answers.rs", "std_locks.rs"], &mut summary, |s| {
        let path = format!("{root}/src/hot_reloading/mod.rs");
        let src = read(&path);
        let (answers, rw) = extract_answers(&path, &src);
        if rw.hits.get("sync").copied().unwrap_or(0) < 1 && !answers.contains("crate :: utils ::") {
            die(format!("{path}: the Answers extract uses neither `std::sync` nor the `crate::utils` lock wrappers: nothing to instrument"));
        }
        check_survivors(&path, &answers);
        s.push_str(&format!("answers (struct Answers + impl Answers of hot_reloading/mod.rs): redirects {:?}, cfg predicates evaluated {}\n", rw.hits, rw.cfgs_rewritten));

        let path = format!("{root}/src/utils/private.rs");
        let src = read(&path);
        let (locks, rw, pruned) = extract_std_locks(&path, &src);
        need(&path, &rw, "sync", "`std::sync` path (the `sync` alias of the std flavour)");
        check_survivors(&path, &locks);
        s.push_str(&format!("std_locks (sync alias, wrap, Mutex, Condvar of utils/private.rs; parking_lot OFF): redirects {:?}, cfg predicates evaluated {}, configured-out items/branches pruned {}\n", rw.hits, rw.cfgs_rewritten, pruned));
        vec![answers, locks]
    });

    fs::write(out.join("instrumentation.txt"), &summary).unwrap();
    println!("cargo:rustc-env=KERNMC_REPO_ROOT={root}");
    println!("cargo:rustc-env=KERNMC_INSTRUMENTATION={}", summary.trim_end().replace('\n', " | "));
}
